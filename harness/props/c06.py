"""C06 — scaling, division and normalisation are exactly linear (1-D; ND / collection parts in c06 extras)."""
from __future__ import annotations

import contextvars
import copy
import random
from collections import Counter
from fractions import Fraction

from .. import gen1, gennd
from ..core import rs
from .base1 import Hist1Prop
from .c14 import dy_bins

INT_KINDS = ["pyint", "int64", "int32", "int16"]
FLT_KINDS = ["pyfloat", "float64", "float32"]
PLAIN_KINDS = set(INT_KINDS + FLT_KINDS)
SCALINGS = ("mul", "imul", "div", "idiv")

# `h /= Fraction(1, 2)` (also a complex divisor) on the unchanged library raises AFTER the contents and squared errors have
# been divided, while the missed values and the statistics are still the old ones: a refused call that leaves the histogram
# half scaled.  Reported; the in-place division by a Fraction stays out of the generator until it is triaged (the copying
# `h / Fraction(1, 2)` is refused as well and leaves its operand alone: that one is generated).
ENABLE_INPLACE_DIV_BY_FRACTION = False


# ---------------------------------------------------------------------------------------------- factor carriers
def is_carrier(k) -> bool:
    return isinstance(k, str) and k not in PLAIN_KINDS and (":" in k or k in ("pybool", "npbool", "fraction", "decimal"))


def model_kind(k: str):
    """the numpy scalar type a reduction hands over ("red:<fn>:<dtype>"): what the model's NumKind can express"""
    _, fn, dt = k.split(":")
    return "float64" if fn == "mean" and dt.startswith("int") else dt


def fits(f: Fraction, dt: str) -> bool:
    """f is exactly representable in that numpy type (and so is its square when it is a narrow integer: the square of a
    narrow numpy integer is taken of the python number, but the generators stay clear of that corner here)"""
    import numpy as np
    if dt.startswith(("int", "uint")):
        return f.denominator == 1 and abs(f) * abs(f) <= np.iinfo(dt).max and f >= np.iinfo(dt).min
    x = f.numerator / f.denominator
    with np.errstate(all="ignore"):
        y = np.dtype(dt).type(x)
    return bool(np.isfinite(y)) and Fraction(float(y)) == f


def power_of_two(f: Fraction) -> bool:
    n, d = abs(f.numerator), f.denominator
    return n > 0 and n & (n - 1) == 0 and d & (d - 1) == 0


def decimal_ok(f: Fraction) -> bool:
    d = f.denominator
    return d & (d - 1) == 0 and d <= 2**16 and abs(f.numerator) < 10**6


def accepted_carrier(crng, c: str, exact: bool) -> str:
    """a numpy scalar that is the RESULT OF A REDUCTION (arr.sum(), arr.max(), arr.mean()): a scalar like any other"""
    f = Fraction(c)
    if f.denominator == 1:
        pool = ["red:sum:int64", "red:max:int64", "red:mean:int64", "red:mean:float64"]
        if fits(f, "int32"):
            pool.append("red:max:int32")
    else:
        pool = ["red:mean:float64", "red:max:float64", "red:sum:float64"]
        if exact and fits(f, "float32"):
            pool.append("red:max:float32")
    return crng.choice(pool)


def two_outcome_carrier(crng, c: str, exact: bool):
    """(c, kind) of a carrier on which the property text does not fix whether it counts as a scalar or as an array operand
    (0-d arrays) or as a number at all (bool, Fraction, Decimal): either the call is refused and nothing changes, or it is
    carried out and then it is linear in everything"""
    f = Fraction(c)
    r = crng.random()
    if r < 0.62:
        pool = ["0d:float64", "0d:float64", "red0d:float64"]
        if f.denominator == 1:
            pool += ["0d:int64", "0d:int64", "red0d:int64"] + (["0d:int32"] if fits(f, "int32") else [])
        if (exact or f.denominator == 1) and fits(f, "float32"):
            pool.append("0d:float32")
        return c, crng.choice(pool)
    if r < 0.76:
        return "1", crng.choice(["pybool", "npbool"])
    if r < 0.88:
        return c, "fraction"
    return (c if decimal_ok(f) else crng.choice(["2", "1/2", "4", "1/4"])), "decimal"


def pick_scalar(rng, exact: bool, divide: bool = False):
    if exact and divide:
        c = rng.choice([2, 4, 8, 1, 0.5, 0.25, 2.0, 0.125])
    elif exact:
        c = rng.choice([2, 4, 8, 3, 5, 1, 0.5, 0.25, 2.0, 1.5, 0.125])
    else:
        c = rng.choice([0.1, 0.3, 1 / 3, 7.7, 1e-3, 123.456, 3, 10])
    if isinstance(c, int):
        return rs(c), rng.choice(INT_KINDS)
    return rs(c), rng.choice(FLT_KINDS if exact else ["pyfloat", "float64"])


def spelled(op) -> str:
    """the call as a reader would write it"""
    c = f"{op.get('k')}({op.get('c')})"
    if op.get("sp") and (op["op"] == "spell" or op.get("spelling")):
        return f"{op['sp']} [c = {c}]"
    return {"mul": f"{c} * h" if op.get("reflected") else f"h * {c}", "imul": f"h *= {c}", "div": f"h / {c}",
            "idiv": f"h /= {c}"}.get(op["op"], op["op"])


def untouched(before, after):
    """None when every histogram that existed before the (refused) call is what it was -- the content type apart, which the
    unchanged library may already have widened losslessly -- otherwise what changed"""
    drop = lambda r: {x: y for x, y in r.items() if "dtype" not in x} if isinstance(r, dict) else r
    for i, r in enumerate(before):
        a = after[i] if i < len(after) else None
        if drop(r) != drop(a):
            keys = [x for x in (r or {}) if "dtype" not in x and (a or {}).get(x) != r.get(x)] if isinstance(r, dict) and isinstance(a, dict) else ["(gone)"]
            return f"register {i} changed in {keys[:4]}"
    return None


def free_modes(ops):
    """for every op of a free-arithmetics history: is free arithmetics on where it stands (the innermost enclosing block
    decides; off outside every block).  Markers: enter_free counts as inside its block, leave_free as well."""
    stack, out = [], []
    for o in ops:
        if o["op"] == "enter_free":
            stack.append(bool(o.get("value", True)))
        out.append(stack[-1] if stack else False)
        if o["op"] == "leave_free":
            stack.pop()
    return out


def free_story(ops, k):
    """what happened to the switch before op k, for the reader of a failure"""
    told = []
    for o in ops[:k]:
        if o["op"] == "enter_free":
            told.append(f"enter({o.get('value', True)})")
        elif o["op"] == "leave_free":
            told.append("left:" + o["how"] + ("+uncaught-through-the-outer-block" if o.get("through") else ""))
    return "after " + ", ".join(told) if told else "no block so far"


# ---------------------------------------------------------------------------------------------- spellings of the arithmetic
# Every operand ORDER and every numpy ENTRY POINT through which a number c (python / numpy scalar of any width, 0-d array,
# n-d array) and a histogram h (g: a second histogram) can meet in an arithmetic expression.  None of them is an
# augmented assignment on a histogram: whatever comes back, h must be what it was.  What the unchanged library does:
#   c*h, h*c, h/c (and their dunder / operator-module forms)     -> a histogram for a scalar c, TypeError otherwise
#   c/h, c//h, c-h, c**h, c%h, -h, +h, abs(h)                    -> TypeError (NotImplemented from the dunder itself)
#   np.<ufunc>(.., h, ..), numpy-scalar.__rmul__(h), h // np.int64(2), h ** np.float64(2) ...
#        -> numpy reads h through __array__ as the bare array of its frequencies and returns a bare ARRAY (no histogram)
# family: what the statement pins when a HISTOGRAM comes back
#   mul / div  : it is h scaled by c (by 1/c): contents, missed values, statistics times the factor, squared errors times
#                its square; a negative factor or an n-d array operand must not give one without free arithmetics
#   rdiv       : a histogram as the divisor -- never a histogram, in any mode
#   hh         : histogram (*, /) histogram -- never a histogram, in any mode
#   neg        : (-1) * h: like mul with the factor -1
#   unpinned   : the statement says nothing about the result (subtraction, powers, remainders, addition, +h, abs(h))
SPELLINGS = {
    "c*h": "mul", "h*c": "mul", "np.multiply(c,h)": "mul", "np.multiply(h,c)": "mul", "c.__mul__(h)": "mul",
    "c.__rmul__(h)": "mul", "h.__mul__(c)": "mul", "h.__rmul__(c)": "mul", "operator.mul(c,h)": "mul", "c*=h": "mul",
    "h/c": "div", "np.divide(h,c)": "div", "np.true_divide(h,c)": "div", "h.__truediv__(c)": "div",
    "operator.truediv(h,c)": "div",
    "c/h": "rdiv", "np.divide(c,h)": "rdiv", "np.true_divide(c,h)": "rdiv", "c.__truediv__(h)": "rdiv",
    "operator.truediv(c,h)": "rdiv", "h.__rtruediv__(c)": "rdiv", "c/=h": "rdiv", "c//h": "rdiv",
    "np.floor_divide(c,h)": "rdiv", "divmod(c,h)": "rdiv", "np.reciprocal(h)": "rdiv",
    "np.multiply(h,g)": "hh", "np.divide(h,g)": "hh", "np.true_divide(h,g)": "hh",
    "-h": "neg", "np.negative(h)": "neg",
    "+h": "unpinned", "abs(h)": "unpinned", "np.positive(h)": "unpinned", "np.absolute(h)": "unpinned",
    "c-h": "unpinned", "np.subtract(c,h)": "unpinned", "np.subtract(h,c)": "unpinned", "c**h": "unpinned", "h**c": "unpinned",
    "np.power(h,c)": "unpinned", "h//c": "unpinned", "c%h": "unpinned", "np.add(h,g)": "unpinned", "np.add(c,h)": "unpinned",
}
# the spellings in which the statement DEMANDS a histogram for a positive python / numpy scalar
MUST_ACCEPT = {"c*h", "h*c", "h/c"}
# what the Lean model can follow: the operator forms (the ufunc forms never reach the library's arithmetic: dropped there)
MODEL_SPELLING = {"c*h": ("mul", True), "h*c": ("mul", False), "h/c": ("div", False)}
MODEL_KINDS = {"pyint", "pyfloat", "int16", "int32", "int64", "float16", "float32", "float64"}
NP_INTS = ["int8", "int16", "int32", "int64", "uint8", "uint16", "uint32", "uint64"]
NP_FLOATS = ["float16", "float32", "float64"]
SCALAR_KINDS = set(["pyint", "pyfloat"] + NP_INTS + NP_FLOATS)


def spell_fn(sp):
    import operator
    import numpy as np
    return {
        "c*h": lambda c, h, g: c * h, "h*c": lambda c, h, g: h * c,
        "np.multiply(c,h)": lambda c, h, g: np.multiply(c, h), "np.multiply(h,c)": lambda c, h, g: np.multiply(h, c),
        "c.__mul__(h)": lambda c, h, g: c.__mul__(h), "c.__rmul__(h)": lambda c, h, g: c.__rmul__(h),
        "h.__mul__(c)": lambda c, h, g: h.__mul__(c), "h.__rmul__(c)": lambda c, h, g: h.__rmul__(c),
        "operator.mul(c,h)": lambda c, h, g: operator.mul(c, h), "c*=h": lambda c, h, g: operator.imul(c, h),
        "h/c": lambda c, h, g: h / c, "np.divide(h,c)": lambda c, h, g: np.divide(h, c),
        "np.true_divide(h,c)": lambda c, h, g: np.true_divide(h, c), "h.__truediv__(c)": lambda c, h, g: h.__truediv__(c),
        "operator.truediv(h,c)": lambda c, h, g: operator.truediv(h, c),
        "c/h": lambda c, h, g: c / h, "np.divide(c,h)": lambda c, h, g: np.divide(c, h),
        "np.true_divide(c,h)": lambda c, h, g: np.true_divide(c, h), "c.__truediv__(h)": lambda c, h, g: c.__truediv__(h),
        "operator.truediv(c,h)": lambda c, h, g: operator.truediv(c, h), "h.__rtruediv__(c)": lambda c, h, g: h.__rtruediv__(c),
        "c/=h": lambda c, h, g: operator.itruediv(c, h), "c//h": lambda c, h, g: c // h,
        "np.floor_divide(c,h)": lambda c, h, g: np.floor_divide(c, h), "divmod(c,h)": lambda c, h, g: divmod(c, h),
        "np.reciprocal(h)": lambda c, h, g: np.reciprocal(h),
        "np.multiply(h,g)": lambda c, h, g: np.multiply(h, g), "np.divide(h,g)": lambda c, h, g: np.divide(h, g),
        "np.true_divide(h,g)": lambda c, h, g: np.true_divide(h, g),
        "-h": lambda c, h, g: -h, "np.negative(h)": lambda c, h, g: np.negative(h),
        "+h": lambda c, h, g: +h, "abs(h)": lambda c, h, g: abs(h), "np.positive(h)": lambda c, h, g: np.positive(h),
        "np.absolute(h)": lambda c, h, g: np.absolute(h),
        "c-h": lambda c, h, g: c - h, "np.subtract(c,h)": lambda c, h, g: np.subtract(c, h),
        "np.subtract(h,c)": lambda c, h, g: np.subtract(h, c), "c**h": lambda c, h, g: c ** h, "h**c": lambda c, h, g: h ** c,
        "np.power(h,c)": lambda c, h, g: np.power(h, c), "h//c": lambda c, h, g: h // c, "c%h": lambda c, h, g: c % h,
        "np.add(h,g)": lambda c, h, g: np.add(h, g), "np.add(c,h)": lambda c, h, g: np.add(c, h),
    }[sp]


def arraylike(k) -> bool:
    return isinstance(k, str) and k.startswith("nd:")


def spell_carrier(op, h):
    """the number op["c"] in the carrier op["k"]: everything impl1.num_of knows, and "nd:<dtype>": an array of the
    histogram's shape that holds the number everywhere"""
    import numpy as np
    from .. import impl1
    k = op["k"]
    if arraylike(k):
        f = Fraction(op["c"])
        a = np.full(h.shape, int(f) if f.denominator == 1 else f.numerator / f.denominator, dtype=np.dtype(k[3:]))
        if not all(Fraction(x) == f for x in a.ravel().tolist()):
            raise KeyError(f"carrier {k} cannot hold {f}")
        return a
    c = impl1.num_of(op["c"], k)
    if k in SCALAR_KINDS and Fraction(c.item() if hasattr(c, "item") else c) != Fraction(op["c"]):
        raise KeyError(f"carrier {k} cannot hold {op['c']}")
    return c


def outcome_of(r) -> str:
    """what came back from a spelling, as far as the statement cares: a histogram ("hist"), nothing at all
    ("notimpl": the dunder's own NotImplemented), a bare array / number that numpy computed from the frequencies ("array"),
    a container with a histogram inside ("hist_inside") or something else ("other:<type>")"""
    import numpy as np
    from physt.histogram_base import HistogramBase
    from physt.histogram_collection import HistogramCollection
    if isinstance(r, (HistogramBase, HistogramCollection)):
        return "hist"
    if r is NotImplemented:
        return "notimpl"
    if isinstance(r, np.ndarray) and r.dtype == object:
        return "hist_inside" if any(outcome_of(x) in ("hist", "hist_inside") for x in r.ravel().tolist()) else "array"
    if isinstance(r, (np.ndarray, np.generic, int, float, complex)):
        return "array"
    if isinstance(r, (tuple, list)):
        kinds = {outcome_of(x) for x in r}
        if kinds & {"hist", "hist_inside"}:
            return "hist_inside"
        return "array" if kinds <= {"array"} else "other:" + type(r).__name__
    return "other:" + type(r).__name__


def spell_step(s, op, log):
    """one spelling on the real library; returns "ok" (a histogram came back: stored in op["out"]), REFUSED (an exception),
    "notimpl", "array", "hist_inside" or "other:<type>" (nothing stored)"""
    import numpy as np
    from physt.histogram_base import HistogramBase
    from .. import impl1
    if op["sp"] not in SPELLINGS:
        raise KeyError(op["sp"])
    fn = spell_fn(op["sp"])
    try:
        h = s.get(op["h"])
        if h is None:
            raise IndexError("empty register")
        g = s.get(op.get("o", 0))
        c = spell_carrier(op, h)
        with np.errstate(all="ignore"):
            r = fn(c, h, g)
    except KeyError:
        raise
    except Exception as e:
        log.append(f"{op['sp']}: {type(e).__name__}: {e}"[:200])
        return impl1.REFUSED
    what = outcome_of(r)
    if what == "hist" and isinstance(r, HistogramBase):
        s.set(op["out"], r)
        return "ok"
    log.append(f"{op['sp']} with c = {op['k']}({op['c']}) returned {type(r).__name__}: {what}"[:200])
    return "hist_inside" if what == "hist" else what


def beyond_dtype(dtype: str, values) -> bool:
    """an expected value that the (integer) content type cannot hold: numpy wraps around there, which no property is about"""
    import numpy as np
    if not (dtype.startswith("int") or dtype.startswith("uint")):
        return False
    info = np.iinfo(dtype)
    return any(v is not None and not (info.min <= v <= info.max) for v in values)


class C06(Hist1Prop):
    ID = "C06"
    GEN_TIE = ["statistics"]     # definitions regenerated from physt/statistics.py (harness/gen_tie.py)
    N_QUICK = 360          # 12 cases in a round: the ten older kinds of case keep their count, two new kinds are added
    N_THOROUGH = 9600
    RULE = ("1-D histograms (from data with weights, or from bare contents with custom errors and missed values, int and float "
            "dtypes, keep_missed on/off) x chains of *, /, *=, /=, c*h by python / numpy int / float scalars (bit-exact stream: "
            "small contents, factors 2^k and small ints; tolerance stream: arbitrary finite factors), normalize(percent, "
            "inplace), then the refused operand kinds (histogram, array, scalar/histogram, negative factor, zero divisor). "
            "stream:carriers (a third of the 1-D and N-d chains): the factor of a step as the numpy scalar a reduction returns, and "
            "beside the step the same factor as a 0-d array / bool / Fraction / Decimal in every spelling (refused with nothing "
            "changed, or linear in contents, errors, missed values AND statistics); stream:filled: histograms entered by fill / "
            "fill_n; stream:free_history: nested enable_free_arithmetics(True/False) blocks left normally, by an exception, by "
            "a refused h*h / h/h / 2/h (also uncaught through the outer block), negative factors and array operands inside "
            "(accepted) and after the blocks (refused, nothing changed); every case runs in a context of its own. "
            "stream:spellings (side steps in three in ten of the 1-D / N-d chains and four in ten of the free-arithmetics "
            "histories, and completely -- carrier x spelling x kind of histogram (weighted 1-D, filled 1-D, transformed 1-D, "
            "2-d, transformed 2-d) x free arithmetics off / on -- in both tiers): every operand order and numpy entry point "
            "of the arithmetic (c*h, h*c, np.multiply both ways, the dunder and operator-module forms, c*=h; h/c, np.divide / "
            "np.true_divide(h, c); c/h, np.divide / np.true_divide / np.floor_divide(c, h), c.__truediv__(h), c/=h, c//h, "
            "divmod, np.reciprocal(h); np.multiply / np.divide(h, g); -h, np.negative(h); and the forms the statement does not "
            "pin: c-h, c**h, h**c, h//c, c%h, np.add, np.subtract, np.power, +h, abs(h)) with python / numpy scalars of every "
            "width, negative ones, 0-d arrays, bool, Fraction, Decimal and n-d arrays: a histogram as divisor or "
            "histogram-with-histogram never yields a histogram; whatever yields no histogram changes none; a histogram that "
            "comes back from a multiplication / division form is exactly the linear one (or must not come back: negative "
            "factor, array operand without free arithmetics); c*h and h*c are the same histogram. "
            "non-trivial = non-zero contents and a factor != 1; distinct = hash of the op list")
    FIELDS = {"bins", "freq", "err2", "under", "over", "inner", "total", "dtype", "stats", "keep"}

    def gen_case(self, rng, k, tier):
        r = k % 12
        if r == 10:          # histories of the free-arithmetics switch (two in three 1-D, one in three N-d)
            return self.gen_free_history(rng, nd=(k // 12) % 3 == 2)
        if r == 11:          # histograms entered by fill / fill_n (valid statistics), every scaling with an unusual carrier
            return self.gen_filled(rng)
        if r == 7:
            return self.gen_collection(rng)
        if r in (8, 9):
            return self.gen_nd(rng)
        exact = rng.random() < 0.7
        pairs = dy_bins(rng)
        b = gen1.binning_json(pairs, rng=rng, form="pairs")
        nb = len(pairs)
        gapped = not gen1.is_consecutive_exact(pairs)
        if rng.random() < 0.5:
            n = rng.choice([1, 3, 6, 10])
            vals = gen1.values_for(rng, pairs, n, nan_share=0)
            vals = [round(v * 8) / 8 for v in vals if abs(v) < 1000]   # squares stay exactly representable
            n = len(vals)
            ws, wk = gen1.weights_for(rng, n, kinds=["none", "int", "dyadic"])
            init = {"op": "construct", "out": 0, "binning": b, "data": gen1.enc_vals(vals),
                    "weights": None if ws is None else [rs(w) for w in ws], "wkind": wk, "keep": rng.random() < 0.8}
        else:
            # no int16 contents: a chain of up to four factors <= 8 squares to 8^8, which wraps an int16 squared error
            # (numpy wrap-around is outside the property; int32 / int64 have the room)
            dt = rng.choice(["int64", "int32", "float64", "float32", "int64"])
            isint = dt.startswith("int")
            f = [rng.randint(0, 40) if isint else rng.randint(0, 160) / 4 for _ in range(nb)]
            e = None if rng.random() < 0.4 else [rng.randint(0, 60) if isint else rng.randint(0, 200) / 4 for _ in range(nb)]
            miss = [rng.randint(0, 9) if isint else rng.randint(0, 36) / 4 for _ in range(3)]
            init = {"op": "of_arrays", "out": 0, "binning": b, "freq": [rs(x) for x in f],
                    "err2": None if e is None else [rs(x) for x in e], "under": rs(miss[0]), "over": rs(miss[1]),
                    "inner": rs(miss[2]), "dtype": dt, "keep": rng.random() < 0.85}
        steps = []
        for _ in range(rng.randint(1, 4)):
            kind = rng.choice(["mul", "rmul", "imul", "div", "idiv", "mul_div"])
            c, kd = pick_scalar(rng, exact, divide=kind in ("div", "idiv", "mul_div"))
            steps.append({"t": kind, "c": c, "k": kd})
        if exact and init.get("dtype", "int64") in ("int64", "float64", None) and rng.random() < 0.2:
            # a numpy scalar of a narrow type whose SQUARE does not fit that type (300 as int16 / float16, 70000 as int32,
            # 256 as float16): contents scale by c and squared errors by c*c all the same
            if rng.random() < 0.6:
                c, kd = rng.choice([("300", "int16"), ("200", "int16"), ("70000", "int32"), ("300", "float16"), ("256", "float16")])
                t = rng.choice(["mul", "rmul", "imul"])
            else:       # divisors stay powers of two (exact quotients)
                c, kd = rng.choice([("256", "float16"), ("16384", "int16"), ("65536", "int32")])
                t = rng.choice(["div", "idiv", "mul_div"])
            steps[rng.randrange(len(steps))] = {"t": t, "c": c, "k": kd}
        if rng.random() < 0.5:
            steps.append({"t": "normalize", "percent": rng.random() < 0.4, "inplace": rng.random() < 0.4})
        bad = rng.choice(["mul_hist", "imul_hist", "div_hist", "idiv_hist", "rdiv", "mul_array", "div_array", "imul_array",
                          "neg_mul", "neg_div", "zero_div", "neg_imul"])
        src = {"init": init, "steps": steps, "bad": bad, "exact": exact}
        # (drawn last, from a generator of its own: the older draws of the case are what they were)
        self.decorate_steps(src, random.Random(rng.random()), share=0.35)
        self.decorate_spellings(src, random.Random(rng.random()), share=0.3)
        return self.build(src)

    # ------------------------------------------------------------------ unusual carriers of the factor / divisor
    @staticmethod
    def decorate_steps(src, crng, share, p_accept=0.3, p_side=0.45):
        """stream:carriers -- for the scaling steps of a 1-D chain: the factor as the numpy scalar a reduction returns (same
        step, other carrier), and beside the step the same factor as a 0-d array / bool / Fraction / Decimal in a random
        spelling (a side step: its result is never an operand, so the chain goes on whether it is refused or not)"""
        if crng.random() >= share:
            return
        exact = src["exact"]
        out, n = [], 0
        for st in src["steps"]:
            if st["t"] in ("mul", "rmul", "imul", "div", "idiv", "mul_div") and st.get("k") in PLAIN_KINDS:
                r = crng.random()
                if r < p_accept:
                    st = dict(st, k=accepted_carrier(crng, st["c"], exact))
                    n += 1
                elif r < p_accept + p_side:
                    t = crng.choice(["mul", "rmul", "imul", "div", "idiv"])
                    c0 = st["c"]
                    if exact and t in ("div", "idiv") and not power_of_two(Fraction(c0)):
                        c0 = crng.choice(["2", "4", "8", "1/2", "1/4"])       # quotients of the bit-exact stream stay exact
                    c, kd = two_outcome_carrier(crng, c0, exact)
                    if kd == "fraction" and t == "idiv" and not ENABLE_INPLACE_DIV_BY_FRACTION:
                        t = "div"
                    side = {"t": t, "c": c, "k": kd, "side": True}
                    n += 1
                    if crng.random() < 0.5:
                        out += [side, st]
                    else:
                        out += [st, side]
                    continue
            out.append(st)
        src["steps"] = out
        if crng.random() < 0.3:
            # a NEGATIVE factor in a 0-d array: refused whichever way a 0-d array is looked at
            src["extra_bad"] = [{"t": crng.choice(["mul", "rmul", "imul", "div", "idiv"]), "c": crng.choice(["-2", "-1/2", "-1"]),
                                 "k": crng.choice(["0d:float64", "red0d:float64"])}]
            n += 1
        if n:
            src["carriers"] = True

    # ------------------------------------------------------------------ every operand order / numpy entry point
    SPELL_POOL = sorted(SPELLINGS) + [sp for sp, fam in sorted(SPELLINGS.items()) if fam == "rdiv"] + ["c*h", "h*c", "h/c"]

    @staticmethod
    def pick_spelling(crng, free=False):
        """stream:spellings -- one (spelling, c, carrier) of the random stream: c is a power of two (every product and
        quotient stays exactly representable whatever the chain did before); mostly plain scalars of every width, then
        negative ones, 0-d arrays / bool / Fraction / Decimal, and n-d arrays holding c everywhere"""
        sp = crng.choice(C06.SPELL_POOL)
        r = crng.random()
        if r < 0.55:
            c = crng.choice(["2", "4", "8", "1/2", "1/4", "2", "2"])
            k = crng.choice(["pyint"] + NP_INTS) if Fraction(c).denominator == 1 and crng.random() < 0.65 else crng.choice(["pyfloat"] + NP_FLOATS)
        elif r < 0.7:
            c = crng.choice(["-2", "-4", "-1/2", "-1"])
            k = crng.choice(["pyint", "int64", "int8", "int32"]) if Fraction(c).denominator == 1 and crng.random() < 0.6 else crng.choice(["pyfloat", "float64", "float32"])
        elif r < 0.87:
            c = crng.choice(["2", "4", "1/2"])
            pool = ["0d:float64", "0d:float64", "red0d:float64", "0d:float32"] + (["0d:int64", "0d:int8", "red0d:int64"] if Fraction(c).denominator == 1 else [])
            if not free:        # (what free arithmetics makes of an object array is nobody's business here)
                pool += ["fraction", "decimal", "pybool", "npbool"]
            k = crng.choice(pool)
            if k in ("pybool", "npbool"):
                c = "1"
        else:
            c = crng.choice(["2", "4", "1/2"])
            k = crng.choice(["nd:float64", "nd:float64", "nd:float32"] + (["nd:int64", "nd:uint8"] if Fraction(c).denominator == 1 else []))
        return {"t": "spell", "sp": sp, "c": c, "k": k}

    @staticmethod
    def decorate_spellings(src, crng, share):
        """stream:spellings on a 1-D chain: side steps (the result is never an operand) between the steps of the chain"""
        if crng.random() >= share:
            return
        steps = list(src["steps"])
        for _ in range(crng.choice([1, 2, 2, 3, 4])):
            steps.insert(crng.randint(0, len(steps)), dict(C06.pick_spelling(crng), side=True))
        src["steps"] = steps

    @staticmethod
    def spell_nd(ops, nxt, crng, tags, share):
        """stream:spellings on an N-d chain: on the histogram that is current where the side step is put"""
        if crng.random() >= share:
            return ops, nxt
        ops = list(ops)
        for _ in range(crng.choice([1, 2, 2, 3, 4])):
            at = crng.randint(1, len(ops))
            live = [o["out"] for o in ops[:at] if "out" in o and not o.get("two") and not o.get("expect_refused") and o["op"] != "spell"]
            sp = C06.pick_spelling(crng)
            ops.insert(at, {"op": "spell", "sp": sp["sp"], "h": crng.choice(live[-2:]), "o": 0, "c": sp["c"], "k": sp["k"], "out": nxt})
            nxt += 1
        tags.append("stream:spellings")
        tags += sorted({"kind:spell:" + SPELLINGS[o["sp"]] for o in ops if o["op"] == "spell"})
        return ops, nxt

    @staticmethod
    def spell_free(items, crng, share):
        """stream:spellings in a free-arithmetics history: inside the blocks (of either value) and after them"""
        if crng.random() >= share:
            return

        def bodies(its):
            yield its
            for it in its:
                if it["t"] == "block":
                    yield from bodies(it["body"])
        for _ in range(crng.choice([1, 2, 3, 4])):
            body = crng.choice(list(bodies(items)))
            # (a block that is left by an exception nobody catches before the enclosing block stays the last item there)
            hi = len(body) - 1 if body and body[-1]["t"] == "block" and body[-1].get("through") else len(body)
            body.insert(crng.randint(0, hi), C06.pick_spelling(crng, free=True))

    def gen_filled(self, rng):
        """stream:filled -- a histogram without contents entered value by value / batch by batch (so its statistics are
        valid), then a chain of scalings in which nearly every factor comes in an unusual carrier"""
        exact = rng.random() < 0.8
        pairs = dy_bins(rng)
        b = gen1.binning_json(pairs, rng=rng, form="pairs")
        init = {"op": "empty", "out": 0, "binning": b, "keep": rng.random() < 0.8,
                "dtype": rng.choice([None, None, "int64", "float64", "float32"])}
        isint = init["dtype"] in (None, "int64")
        pre = []
        for _ in range(rng.randint(1, 4)):
            if rng.random() < 0.5:
                v = round(gen1.values_for(rng, pairs, 1, nan_share=0)[0] * 8) / 8
                if abs(v) >= 1000:
                    continue
                w = rng.choice([1, 1, 2, 3] if isint else [1, 1, 2, 0.5, 1.5])
                pre.append({"op": "fill", "h": 0, "v": rs(v), "w": rs(w), "wk": "pyint" if isinstance(w, int) else "pyfloat",
                            "default_w": w == 1 and rng.random() < 0.5})
            else:
                vs = [round(v * 8) / 8 for v in gen1.values_for(rng, pairs, rng.choice([1, 2, 4]), nan_share=0) if abs(v) < 1000]
                ws = None if rng.random() < 0.5 else [rs(rng.choice([1, 2, 3] if isint else [1, 2, 0.5, 0.25])) for _ in vs]
                pre.append({"op": "fill_n", "h": 0, "vs": gen1.enc_vals(vs), "ws": ws, "wkind": "int64" if isint else "float64"})
        steps = []
        for _ in range(rng.randint(1, 4)):
            kind = rng.choice(["mul", "rmul", "imul", "div", "idiv", "mul_div"])
            c, kd = pick_scalar(rng, exact, divide=kind in ("div", "idiv", "mul_div"))
            steps.append({"t": kind, "c": c, "k": kd})
        if rng.random() < 0.3:
            steps.append({"t": "normalize", "percent": rng.random() < 0.4, "inplace": rng.random() < 0.4})
        bad = rng.choice(["mul_hist", "div_hist", "rdiv", "mul_array", "div_array", "imul_array", "neg_mul", "neg_div",
                          "zero_div", "neg_imul"])
        src = {"init": init, "prefill": pre, "steps": steps, "bad": bad, "exact": exact, "filled": True}
        self.decorate_steps(src, random.Random(rng.random()), share=1.0, p_accept=0.35, p_side=0.6)
        self.decorate_spellings(src, random.Random(rng.random()), share=0.5)
        return self.build(src)

    # ------------------------------------------------------------------ collection.normalize_bins
    def gen_collection(self, rng):
        pairs = dy_bins(rng)
        nb = len(pairs)
        b = gen1.binning_json(pairs, rng=rng, form="pairs")
        m = rng.choice([1, 2, 3, 3])
        ops = []
        zero_bin = rng.random() < 0.15
        for j in range(m):
            dt = rng.choice(["int64", "int32", "float64", "float32", "int64"])
            isint = dt.startswith("int")
            f = [rng.randint(0 if j else 1, 12) if isint else rng.randint(0 if j else 1, 48) / 4 for _ in range(nb)]
            if zero_bin:
                f[0] = 0 if isint else 0.0
            e = None if rng.random() < 0.5 else [rng.randint(0, 20) if isint else rng.randint(0, 80) / 4 for _ in range(nb)]
            ops.append({"op": "of_arrays", "out": j, "binning": b, "freq": [rs(x) for x in f],
                        "err2": None if e is None else [rs(x) for x in e], "under": rs(rng.randint(0, 3)),
                        "over": rs(rng.randint(0, 3)), "inner": "0", "dtype": dt, "keep": True})
        ops.append({"op": "normalize_bins", "hs": list(range(m)), "outs": list(range(m, 2 * m))})
        tags = ["collection", f"members:{m}"] + (["zero_bin"] if zero_bin else [])
        if rng.random() < 0.25:
            other = gen1.binning_json([[100.0 + 3 * i, 101.5 + 3 * i] for i in range(nb + 2)], form="pairs")
            ops.append({"op": "of_arrays", "out": 2 * m, "binning": other, "freq": ["1"] * (nb + 2), "err2": None,
                        "under": "0", "over": "0", "inner": "0", "dtype": "int64", "keep": True})
            ops.append({"op": "normalize_bins", "hs": [0, 2 * m], "outs": [2 * m + 1, 2 * m + 2], "expect_refused": True})
            tags.append("bad:other_bins")
        return {"kind": "hist1", "ops": ops, "tags": tags, "tolerance": True, "sub": "collection", "m": m}

    def oracle_collection(self, case, io):
        outs, ops, m = io["outs"], case["ops"], case["m"]
        fails = []
        k = m   # index of the normalize_bins op
        if outs[k]["ret"] != "ok":
            return ["refused_valid: normalize_bins refused: " + "; ".join(io["log"][:2])]
        regs = outs[k]["regs"]
        src, dst = regs[:m], regs[m:2 * m]
        if outs[k - 1]["regs"][:m] != src:
            fails.append("operand_modified: normalize_bins(inplace=False) modified the members")
        nb = len(src[0]["freq"])
        for i in range(nb):
            tot = sum(Fraction(h["freq"][i]) for h in src)
            if tot == 0:
                continue
            shares = [Fraction(h["freq"][i]) for h in dst]
            if abs(sum(shares) - 1) > Fraction(1, 10**6):
                fails.append(f"shares_sum: bin {i}: the members' shares {[float(x) for x in shares]} do not sum to 1")
                break
            for h0, h1 in zip(src, dst):
                if abs(Fraction(h1["freq"][i]) - Fraction(h0["freq"][i]) / tot) > Fraction(1, 10**6):
                    fails.append(f"share_value: bin {i}: content {h0['freq'][i]} of sum {tot} became {h1['freq'][i]}")
                    break
                want = Fraction(h0["err2"][i]) / (tot * tot)
                if abs(Fraction(h1["err2"][i]) - want) > Fraction(1, 10**6) * max(abs(want), 1):
                    fails.append(f"share_err2: bin {i}: squared error {h0['err2'][i]} became {h1['err2'][i]}, expected {float(want)}")
                    break
        for h0, h1 in zip(src, dst):
            if h0["bins"] != h1["bins"]:
                fails.append("bins_changed: normalize_bins changed the bins")
            if not h1["dtype"].startswith("float"):
                fails.append(f"dtype: member of dtype {h0['dtype']} stayed {h1['dtype']} after division")
        for j, op in enumerate(ops):
            if op.get("expect_refused") and outs[j]["ret"] != "REFUSED":
                fails.append("accepted_invalid: a collection of members with different bins was accepted")
        return fails[:6]

    # ------------------------------------------------------------------ ND scaling / normalize / partial_normalize
    def gen_nd(self, rng):
        d = rng.choice([2, 2, 2, 3])
        axes = [gennd.axis_binning(rng, maxbins=3, allow_fixed=False) for _ in range(d)]
        shape = [len(a[1]) for a in axes]
        n = 1
        for x in shape:
            n *= x
        dt = rng.choice(["int64", "float64", "int32", "float32"])
        isint = dt.startswith("int")
        f = [rng.randint(0, 12) if isint else rng.randint(0, 48) / 4 for _ in range(n)]
        if rng.random() < 0.3 and d == 2:
            for j in range(shape[1]):      # an empty row: partial_normalize must leave it alone
                f[j] = 0 if isint else 0.0
        e = None if rng.random() < 0.5 else [rng.randint(0, 20) if isint else rng.randint(0, 80) / 4 for _ in range(n)]
        ops = [{"op": "of_arrays", "out": 0, "axes": [a[0] for a in axes], "freq": [rs(x) for x in f],
                "err2": None if e is None else [rs(x) for x in e], "missed": rs(rng.randint(0, 5)), "dtype": dt,
                "keep": rng.random() < 0.85, "names": [f"ax{i}" for i in range(d)]}]
        cur, nxt = 0, 1
        for _ in range(rng.randint(1, 3)):
            t = rng.choice(["mul", "rmul", "imul", "div", "idiv", "normalize", "partial", "partial"] if d == 2 else
                           ["mul", "rmul", "imul", "div", "idiv", "normalize"])
            if t in ("mul", "rmul", "div"):
                c, kd = pick_scalar(rng, True, divide=t == "div")
                ops.append({"op": "div" if t == "div" else "mul", "h": cur, "c": c, "k": kd, "out": nxt, "reflected": t == "rmul"})
                cur, nxt = nxt, nxt + 1
            elif t in ("imul", "idiv"):
                c, kd = pick_scalar(rng, True, divide=t == "idiv")
                ops.append({"op": t, "h": cur, "c": c, "k": kd})
            elif t == "normalize":
                inplace = rng.random() < 0.4
                op = {"op": "normalize", "h": cur, "percent": rng.random() < 0.4, "inplace": inplace}
                if not inplace:
                    op["out"] = nxt; cur_new = nxt; nxt += 1
                ops.append(op)
                if not inplace:
                    cur = cur_new
            else:
                inplace = rng.random() < 0.4
                ax = rng.choice([0, 1, "ax0", "ax1"])
                op = {"op": "partial_normalize", "h": cur, "axis": ax, "inplace": inplace}
                if not inplace:
                    op["out"] = nxt; cur_new = nxt; nxt += 1
                ops.append(op)
                if not inplace:
                    cur = cur_new
        bad = rng.choice(["neg_mul", "zero_div", "none", "none"])
        tags = ["nd", f"d:{d}", "bad:" + bad]
        # (drawn last, from a generator of its own: the older draws of the case are what they were)
        ops, nxt = self.decorate_nd(ops, nxt, random.Random(rng.random()), tags, share=0.35)
        ops, nxt = self.spell_nd(ops, nxt, random.Random(rng.random()), tags, share=0.3)
        if bad == "neg_mul":
            ops.append({"op": "mul", "h": 0, "c": "-2", "k": "pyint", "out": nxt, "expect_refused": True})
        elif bad == "zero_div":
            ops.append({"op": "idiv", "h": cur, "c": "0", "k": "pyint", "expect_refused": True})
        return {"kind": "histn", "ops": ops, "tags": tags, "tolerance": True, "sub": "nd"}

    @staticmethod
    def decorate_nd(ops, nxt, crng, tags, share, p_accept=0.3, p_side=0.45):
        """stream:carriers on an N-d chain (see decorate_steps): side operations write to registers of their own"""
        if crng.random() >= share:
            return ops, nxt
        out, n = [], 0
        for op in ops:
            if op["op"] in SCALINGS and op.get("k") in PLAIN_KINDS and not op.get("expect_refused"):
                r = crng.random()
                if r < p_accept:
                    op = dict(op, k=accepted_carrier(crng, op["c"], True))
                    n += 1
                elif r < p_accept + p_side:
                    c, kd = two_outcome_carrier(crng, op["c"], True)
                    t = crng.choice(["mul", "rmul", "imul", "div", "idiv"])
                    if kd == "fraction" and t == "idiv" and not ENABLE_INPLACE_DIV_BY_FRACTION:
                        t = "div"
                    before = crng.random() < 0.5
                    # before the step: on its operand; after it: on its result
                    h = op["h"] if before else op.get("out", op["h"])
                    side = {"op": {"rmul": "mul"}.get(t, t), "h": h, "c": c, "k": kd, "two": True}
                    if t in ("mul", "rmul", "div"):
                        side["out"] = nxt
                        nxt += 1
                    if t == "rmul":
                        side["reflected"] = True
                    n += 1
                    out += [side, op] if before else [op, side]
                    continue
            out.append(op)
        if crng.random() < 0.3:
            t = crng.choice(["mul", "rmul", "imul", "div", "idiv"])
            last = [o for o in out if "out" in o and not o.get("two")][-1]["out"]
            neg = {"op": {"rmul": "mul"}.get(t, t), "h": last, "c": crng.choice(["-2", "-1/2", "-1"]),
                   "k": crng.choice(["0d:float64", "red0d:float64"]), "expect_refused": True}
            if t in ("mul", "rmul", "div"):
                neg["out"] = nxt
                nxt += 1
            if t == "rmul":
                neg["reflected"] = True
            out.append(neg)
            n += 1
        if n:
            tags.append("stream:carriers")
            tags += sorted({"carrier:" + o["k"].split(":")[0] + ("" if ":" not in o["k"] else ":" + o["k"].split(":")[-1])
                            for o in out if is_carrier(o.get("k"))})
            tags += sorted({"carrier_spelling:" + ("rmul" if o.get("reflected") else o["op"]) for o in out if o.get("two")})
        return out, nxt

    def oracle_nd(self, case, io):
        outs, ops = io["outs"], case["ops"]
        fails = []
        if outs[0]["ret"] == "REFUSED":
            return ["refused_valid: setup refused: " + "; ".join(io["log"][:2])]
        T = Fraction(1, 10**6)

        def close(a, b):
            return abs(a - b) <= T * max(abs(a), abs(b), 1)

        for k, op in enumerate(ops):
            if k == 0:
                continue
            before, after = outs[k - 1]["regs"], outs[k]["regs"]
            if op["h"] >= len(before) or before[op["h"]] is None:
                return fails[:6]
            src = before[op["h"]]
            ret = outs[k]["ret"]
            if op["op"] == "spell":
                self.spell_fails(op, before, after, ret, False, True, None, fails)
                continue
            if op.get("expect_refused"):
                nonzero = any(Fraction(x) != 0 for x in src["freq"])
                if ret != "REFUSED" and (op["c"] == "0" or nonzero):
                    fails.append(f"accepted_invalid: {op['op']} by {op['c']} was accepted")
                continue
            if ret == "REFUSED" and op.get("two"):
                # a carrier the library need not take for a scalar: refused is fine, as long as NOTHING has happened
                if untouched(before, after) is not None:
                    fails.append(f"refused_changed: ND {spelled(op)} was refused but {untouched(before, after)}")
                continue
            if ret == "REFUSED":
                if op["op"] == "normalize" and Fraction(src["total"]) == 0:
                    return fails[:6]
                fails.append(f"refused_valid: {op['op']} refused: " + "; ".join(io["log"][:2]))
                return fails[:6]
            inplace = op["op"] in ("imul", "idiv") or op.get("inplace")
            dst = after[op["h"]] if inplace else after[op["out"]]
            if dst is None:
                fails.append(f"no_result: ND {spelled(op)} returned without a result")
                return fails[:6]
            if op["op"] in SCALINGS:
                self.scaling_fails_nd(op, src, dst, after[op["h"]], fails)
                continue
            if not inplace and after[op["h"]] != src:
                fails.append(f"operand_modified: {op['op']} modified its operand")
            if dst["bins"] != src["bins"] or dst["names"] != src["names"]:
                fails.append(f"bins_changed: {op['op']} changed bins or axis names")
            F0 = [Fraction(x) for x in src["freq"]]; E0 = [Fraction(x) for x in src["err2"]]
            F1 = [Fraction(x) for x in dst["freq"]]; E1 = [Fraction(x) for x in dst["err2"]]
            if op["op"] == "normalize":
                want = 100 if op.get("percent") else 1
                t0 = sum(F0)
                if not close(sum(F1), Fraction(want)):
                    fails.append(f"normalize_total: ND total after normalize is {float(sum(F1))}")
                if not all(close(x / t0 * want, y) for x, y in zip(F0, F1)):
                    fails.append("normalize_proportions: ND proportions changed")
            elif op["op"] == "partial_normalize":
                n, m = src["shape"]
                ax = op["axis"] if isinstance(op["axis"], int) else int(op["axis"][2:])
                # numpy sense: axis 0 -> every column sums to 1, axis 1 -> every row sums to 1
                lines = [[i * m + j for i in range(n)] for j in range(m)] if ax == 0 else [[i * m + j for j in range(m)] for i in range(n)]
                for line in lines:
                    s0 = sum(F0[q] for q in line)
                    if s0 == 0:
                        if any(F1[q] != 0 for q in line):
                            fails.append("partial_zero_line: an all-zero row / column was changed")
                        continue
                    if not close(sum(F1[q] for q in line), Fraction(1)):
                        fails.append(f"partial_sum: a {'column' if ax == 0 else 'row'} sums to {float(sum(F1[q] for q in line))} after partial_normalize({op['axis']})")
                        break
                    if not all(close(F0[q] / s0, F1[q]) for q in line):
                        fails.append("partial_proportions: proportions inside a row / column changed")
                        break
                    if not all(close(E0[q] / (s0 * s0), E1[q]) for q in line):
                        fails.append("partial_err2: squared errors are not divided by the square of the row / column sum")
                        break
            if len(fails) > 5:
                break
        self.commute_fails(ops, outs, fails)
        return fails[:6]

    # ------------------------------------------------------------------ histories of the free-arithmetics switch
    LEAVES = ["normal", "raise", "refused:mul_hist", "refused:div_hist", "refused:rdiv", "refused:imul_hist", "refused:idiv_hist"]

    def gen_free_history(self, rng, nd):
        """stream:free_history -- `with config.enable_free_arithmetics(v):` blocks (nested, v True or False) that are left
        normally, by an exception raised inside, or by an operation that is refused in every mode (h*h, h/h, 2/h); negative
        factors and array operands inside the blocks (accepted where the innermost block says True) and OUTSIDE them, after
        each block (refused again: free arithmetics is off by default), next to ordinary positive scalings everywhere"""
        if nd:
            d = rng.choice([2, 2, 3])
            axes = [gennd.axis_binning(rng, maxbins=3, allow_fixed=False) for _ in range(d)]
            n = 1
            for a in axes:
                n *= len(a[1])
            dt = rng.choice(["int64", "float64", "int32", "float32"])
            isint = dt.startswith("int")
            f = [rng.randint(0, 12) if isint else rng.randint(0, 48) / 4 for _ in range(n)]
            f[rng.randrange(n)] = 3 if isint else 2.5          # some content: the refusals are then mandatory
            e = None if rng.random() < 0.5 else [rng.randint(0, 20) if isint else rng.randint(0, 80) / 4 for _ in range(n)]
            init = {"op": "of_arrays", "out": 0, "axes": [a[0] for a in axes], "freq": [rs(x) for x in f],
                    "err2": None if e is None else [rs(x) for x in e], "missed": rs(rng.randint(0, 5)), "dtype": dt,
                    "keep": rng.random() < 0.85, "names": [f"ax{i}" for i in range(d)]}
        else:
            pairs = dy_bins(rng)
            b = gen1.binning_json(pairs, rng=rng, form="pairs")
            nb = len(pairs)
            if rng.random() < 0.6:      # from data: valid statistics
                vals = [round(v * 8) / 8 for v in gen1.values_for(rng, pairs, rng.choice([3, 6, 10]), nan_share=0) if abs(v) < 1000]
                l, r = pairs[rng.randrange(nb)]
                vals.append(l + (r - l) / 2)                    # some content
                ws, wk = gen1.weights_for(rng, len(vals), kinds=["none", "int", "dyadic"])
                if ws is not None:
                    ws[-1] = 2
                init = {"op": "construct", "out": 0, "binning": b, "data": gen1.enc_vals(vals),
                        "weights": None if ws is None else [rs(w) for w in ws], "wkind": wk, "keep": rng.random() < 0.8}
            else:
                dt = rng.choice(["int64", "int32", "float64", "float32", "int64"])
                isint = dt.startswith("int")
                f = [rng.randint(0, 40) if isint else rng.randint(0, 160) / 4 for _ in range(nb)]
                f[rng.randrange(nb)] = 3 if isint else 2.5
                e = None if rng.random() < 0.4 else [rng.randint(0, 60) if isint else rng.randint(0, 200) / 4 for _ in range(nb)]
                miss = [rng.randint(0, 9) if isint else rng.randint(0, 36) / 4 for _ in range(3)]
                init = {"op": "of_arrays", "out": 0, "binning": b, "freq": [rs(x) for x in f],
                        "err2": None if e is None else [rs(x) for x in e], "under": rs(miss[0]), "over": rs(miss[1]),
                        "inner": rs(miss[2]), "dtype": dt, "keep": rng.random() < 0.85}

        def pos():
            t = rng.choice(["mul", "rmul", "imul", "div", "idiv"])
            c, kd = pick_scalar(rng, True, divide=t in ("div", "idiv"))
            if rng.random() < 0.25:
                kd = accepted_carrier(rng, c, True)
            return {"t": "pos", "sp": t, "c": c, "k": kd}

        def probe():
            r = rng.random()
            if r < 0.55:
                c = rng.choice([-2, -1, -4, -0.5, -0.25, -2.0])
                kd = rng.choice(["pyint", "int64", "int32"]) if isinstance(c, int) else rng.choice(["pyfloat", "float64", "float32"])
                return {"t": "neg", "sp": rng.choice(["mul", "rmul", "imul", "div", "idiv"]), "c": rs(c), "k": kd}
            return {"t": "arr", "sp": rng.choice(["mul", "rmul", "imul", "div", "idiv"]),
                    "operand": rng.choice(["ones", "twos", "int_ones", "list_ones", "halves"])}

        def caught():            # refused in every mode; the exception is caught where it is raised
            return {"t": "bad", "what": rng.choice(["mul_hist", "div_hist", "rdiv"])}

        def block(depth):
            value = True if depth == 0 else rng.random() < 0.55
            body = []
            for _ in range(rng.randint(0, 3)):
                r = rng.random()
                if r < 0.45:
                    body.append(probe())
                elif r < 0.65:
                    body.append(pos())
                elif r < 0.8:
                    body.append(caught())
                elif depth < 2:
                    body.append(block(depth + 1))
            how = rng.choice(self.LEAVES if rng.random() < 0.75 else ["normal"])
            blk = {"t": "block", "value": value, "body": body, "how": how}
            if how != "normal" and depth > 0 and rng.random() < 0.5:
                blk["through"] = True       # nobody catches the exception between this block and the enclosing one
            return blk

        items = [pos() for _ in range(rng.randint(0, 2))]
        for _ in range(rng.randint(1, 3)):
            items.append(block(0))
            for _ in range(rng.randint(1, 3)):
                items.append(probe() if rng.random() < 0.8 else pos())
        self.spell_free(items, random.Random(rng.random()), share=0.4)
        return self.build_free({"init": init, "items": items, "nd": nd})

    @staticmethod
    def build_free(src):
        """the flat op list of a free-arithmetics history.  Inside a block whose value is True the negative / array
        operations act on a COPY when they are in-place (the history goes on with non-negative contents); those operations
        and their copies are marked `untracked`: the Lean model has no free arithmetics, it follows everything else."""
        nd = src["nd"]
        ops = [src["init"]]
        st = {"cur": 0, "nxt": 1}
        leaves = Counter()

        def fresh():
            st["nxt"] += 1
            return st["nxt"] - 1

        def emit(items, mode, depth):
            for pos_in_body, it in enumerate(items):
                t = it["t"]
                if t == "block":
                    ops.append({"op": "enter_free", "value": it["value"], "h": st["cur"]})
                    through_inner = emit(it["body"], it["value"], depth + 1)
                    how = "propagated" if through_inner else it["how"]
                    last = pos_in_body == len(items) - 1
                    through = bool(it.get("through")) and depth > 0 and last and how != "normal"
                    ops.append({"op": "leave_free", "how": how, "through": through, "h": st["cur"], "o": 0})
                    leaves[how.split(":")[0] + ("+through" if through else "")] += 1
                    if through:
                        return True
                    continue
                sp = it["sp"] if "sp" in it else None
                inplace = sp in ("imul", "idiv")
                if t == "pos":
                    op = {"op": {"rmul": "mul"}.get(sp, sp), "h": st["cur"], "c": it["c"], "k": it["k"]}
                    if sp == "rmul":
                        op["reflected"] = True
                    if not inplace:
                        op["out"] = fresh()
                        st["cur"] = op["out"]
                    ops.append(op)
                elif t == "bad":
                    ops.append({"op": "invalid", "what": it["what"], "h": st["cur"], "o": 0})
                elif t == "spell":
                    op = {"op": "spell", "sp": it["sp"], "h": st["cur"], "o": 0, "c": it["c"], "k": it["k"], "out": fresh()}
                    if mode:            # (the Lean model has no free arithmetics)
                        op["untracked"] = True
                    ops.append(op)
                else:
                    h = st["cur"]
                    untracked = bool(mode)
                    if mode and inplace:
                        h = fresh()
                        ops.append({"op": "copy", "h": st["cur"], "out": h, "untracked": True})
                    if t == "neg":
                        op = {"op": {"rmul": "mul"}.get(sp, sp), "h": h, "c": it["c"], "k": it["k"], "probe": "neg"}
                        if sp == "rmul":
                            op["reflected"] = True
                    else:
                        op = {"op": "arr", "sp": sp, "operand": it["operand"], "h": h, "probe": "arr"}
                    if not inplace:
                        op["out"] = fresh()
                    if untracked:
                        op["untracked"] = True
                    ops.append(op)
            return False

        emit(src["items"], False, 0)
        tags = ["stream:free_history", "free:nd" if nd else "free:1d"] + [f"leave:{k}" for k in sorted(leaves)]
        modes = free_modes(ops)
        tags += sorted({f"probe_{'inside' if modes[i] else 'outside'}:{o['probe']}" for i, o in enumerate(ops) if o.get("probe")})
        if any(o["op"] == "enter_free" and not o["value"] for o in ops):
            tags.append("free:block_false")
        if any(o["op"] == "spell" for o in ops):
            tags.append("stream:spellings")
            tags += sorted({"kind:spell:" + SPELLINGS[o["sp"]] + (":free" if modes[i] else "") for i, o in enumerate(ops) if o["op"] == "spell"})
        return {"kind": "histn" if nd else "hist1", "ops": ops, "tags": tags, "tolerance": True, "sub": "free", "src": src}

    # the implementation side of such a history (the blocks are real `with` statements around the ops of impl1 / implnd)
    def run_free(self, case, observe=True):
        import numpy as np
        from physt.config import config
        from .. import impl1, implnd
        nd = case["kind"] == "histn"
        stepper = self.stepper(nd)
        snap = implnd.snapn if nd else impl1.snap1
        ops = case["ops"]
        s = impl1.Store()
        log: list = []
        outs: list = [None] * len(ops)

        def record(i, ret):
            if observe:
                outs[i] = {"ret": ret, "regs": [None if h is None else snap(h) for h in s.regs]}
            else:
                outs[i] = {"ret": ret}

        def arr_step(op):
            sp = op["sp"]
            try:
                h = s.get(op["h"])          # (a register that a refused call never made: refused, as in impl1 / implnd)
                if h is None:
                    raise IndexError("empty register")
                a = {"ones": np.ones(h.shape), "twos": 2 * np.ones(h.shape), "halves": np.ones(h.shape) / 2,
                     "int_ones": np.ones(h.shape, dtype=int), "list_ones": np.ones(h.shape).tolist()}[op["operand"]]
                if sp == "mul":
                    s.set(op["out"], h * a)
                elif sp == "rmul":
                    s.set(op["out"], a * h)
                elif sp == "div":
                    s.set(op["out"], h / a)
                elif sp == "imul":
                    h *= a
                    s.set(op["h"], h)
                elif sp == "idiv":
                    h /= a
                    s.set(op["h"], h)
                else:
                    raise KeyError(sp)
                return "ok"
            except KeyError:
                raise
            except Exception as e:
                log.append(f"arr {sp}: {type(e).__name__}: {e}"[:200])
                return impl1.REFUSED

        def refused_uncaught(what, op):
            """an operation that is refused in every mode, NOT caught here: its exception leaves the block"""
            h, o = s.get(op["h"]), s.get(op["o"])
            if what == "mul_hist":
                h * o
            elif what == "div_hist":
                h / o
            elif what == "rdiv":
                2 / h
            elif what == "imul_hist":
                h *= o
            elif what == "idiv_hist":
                h /= o
            else:
                raise KeyError(what)

        class Left(Exception):
            pass

        def run_block(i):
            """ops[i] enters a block; returns (index after its leave_free, the exception still travelling or None)"""
            state = {"leaving": False, "j": None}
            ret, exc = "normal", None
            try:
                with config.enable_free_arithmetics(ops[i].get("value", True)):
                    record(i, "ok")
                    k = i + 1
                    while ops[k]["op"] != "leave_free":
                        if ops[k]["op"] == "enter_free":
                            k, inner = run_block(k)
                            if inner is not None:
                                if ops[k]["op"] != "leave_free":
                                    raise KeyError("a travelling exception needs the enclosing block to end here")
                                state["j"], state["leaving"] = k, True
                                raise inner
                        else:
                            record(k, arr_step(ops[k]) if ops[k]["op"] == "arr" else stepper(s, ops[k], log))
                            k += 1
                    state["j"] = k
                    how = ops[k]["how"]
                    state["leaving"] = True
                    if how == "raise":
                        raise Left("raised inside the block")
                    if how.startswith("refused:"):
                        refused_uncaught(how[8:], ops[k])
                        ret = "accepted"
            except KeyError:
                raise
            except Exception as e:
                if not state["leaving"]:
                    raise
                ret, exc = "exception", e
                log.append(f"block left by {type(e).__name__}: {e}"[:160])
            j = state["j"]
            record(j, ret)
            return j + 1, (exc if ops[j].get("through") else None)

        k = 0
        while k < len(ops):
            if ops[k]["op"] == "enter_free":
                k, exc = run_block(k)
                if exc is not None:
                    raise KeyError("an exception left the outermost block uncaught")
            else:
                record(k, arr_step(ops[k]) if ops[k]["op"] == "arr" else stepper(s, ops[k], log))
                k += 1
        final = {"ret": outs[-1]["ret"], "regs": [None if h is None else snap(h) for h in s.regs]}
        return outs, log, final

    def run_impl(self, case):
        # every case in a context of its own, with the switch where a fresh session has it: whatever a case (or a broken
        # library) does to the switch cannot reach the next case
        return contextvars.copy_context().run(self._run_impl, case)

    def _run_impl(self, case):
        from physt.config import config
        config.free_arithmetics = False
        if case.get("sub") == "free":
            outs, log, _ = self.run_free(case, observe=True)
            config.free_arithmetics = False
            _, _, final = self.run_free(case, observe=False)
            return {"outs": outs, "log": log, "unobserved_outs": outs[:-1] + [final]}
        if any(o["op"] == "spell" or (o["op"] == "of_arrays" and o.get("klass")) for o in case["ops"]):
            outs, log = self.run_chain(case, observe=True)
            if len(case["ops"]) >= 2:
                return {"outs": outs, "log": log, "unobserved_outs": outs[:-1] + [self.run_chain(case, observe=False)]}
            return {"outs": outs, "log": log}
        return super().run_impl(case)

    @staticmethod
    def stepper(nd):
        """impl1 / implnd, and the two things they do not know: a spelling, an N-d histogram of a transformed class"""
        from .. import impl1, implnd

        def step(s, op, log):
            if op["op"] == "spell":
                return spell_step(s, op, log)
            if nd and op["op"] == "of_arrays" and op.get("klass"):
                import numpy as np
                import physt.special_histograms as sh
                try:
                    axes = [impl1.mk_binning(b) for b in op["axes"]]
                    shape = tuple(len(b["bins"]) for b in op["axes"])
                    dt = np.dtype(op["dtype"])
                    f = impl1.arr(op["freq"], dt).reshape(shape)
                    e = None if op.get("err2") is None else impl1.arr(op["err2"], dt).reshape(shape)
                    s.set(op["out"], getattr(sh, op["klass"])(axes, f, errors2=e, missed=impl1.fl(op.get("missed", "0")),
                                                              keep_missed=op.get("keep", True), axis_names=op["names"]))
                    return "ok"
                except Exception as e:
                    log.append(f"of_arrays: {type(e).__name__}: {e}"[:200])
                    return impl1.REFUSED
            return (implnd.step if nd else impl1.step)(s, op, log)
        return step

    def run_chain(self, case, observe):
        """impl1.run / implnd.run (and their run_unobserved) with the stepper above"""
        from .. import impl1, implnd
        from ..sharing import sharing
        nd = case["kind"] == "histn"
        step, snap = self.stepper(nd), (implnd.snapn if nd else impl1.snap1)
        s, outs, log, ret = impl1.Store(), [], [], None
        for op in case["ops"]:
            ret = step(s, op, log)
            if observe:
                outs.append({"ret": ret, "regs": [None if h is None else snap(h) for h in s.regs], "_sharing": sharing(s.regs)})
        if observe:
            return outs, log
        return {"ret": ret, "regs": [None if h is None else snap(h) for h in s.regs], "_sharing": sharing(s.regs)}

    # the model side: everything but the switch
    @staticmethod
    def model_op(op):
        """the op as the Lean driver can express it; "drop" when it cannot, None when nothing in the case can be trusted to it"""
        if op["op"] in ("enter_free", "leave_free") or op.get("untracked"):
            return "drop"
        if op["op"] == "arr":
            return {"op": "invalid", "what": "array_operand", "h": op["h"]}
        if op["op"] == "spell":
            # the operator forms with a number the model knows are its mul / div / refused 2/h; every other spelling never
            # reaches the arithmetic of the (unchanged) library: numpy answers from the bare frequencies, nothing to follow
            k, sp = op["k"], op["sp"]
            if k.startswith("red:"):
                k = model_kind(k)
            if sp == "c/h":
                return {"op": "invalid", "what": "rdiv", "h": op["h"]}
            if sp in MODEL_SPELLING and k in MODEL_KINDS:
                name, reflected = MODEL_SPELLING[sp]
                return {"op": name, "h": op["h"], "c": op["c"], "k": k, "out": op["out"], "reflected": reflected}
            if sp in MODEL_SPELLING and (k.startswith(("0d:", "red0d:")) or arraylike(k)):
                return {"op": "invalid", "what": "array_operand_0d", "h": op["h"]}
            return "drop"
        k = op.get("k")
        if op["op"] in SCALINGS and is_carrier(k):
            if k.startswith("red:"):
                return dict(op, k=model_kind(k))
            if k.startswith(("0d:", "red0d:")):
                return {"op": "invalid", "what": "array_operand_0d", "h": op["h"]}     # an array operand: refused, nothing changes
            return None         # bool, Fraction, Decimal: not numbers the model knows
        return op

    def model_case(self, case, io):
        mops = [self.model_op(o) for o in case["ops"]]
        if any(m is None for m in mops):
            return None
        if all(m is o for m, o in zip(mops, case["ops"])):
            return case
        mc = {k: v for k, v in case.items() if k not in ("ops", "src")}
        mc["ops"] = [m for m in mops if not isinstance(m, str)]
        return mc

    def diff(self, case, model_ok, io):
        ops = case["ops"]
        if isinstance(model_ok, list) and any(self.model_op(o) == "drop" for o in ops):
            # the model followed the ops outside free arithmetics: compare those, register by register (the registers that
            # only the free-arithmetics operations wrote do not exist for the model)
            keep = [i for i, o in enumerate(ops) if self.model_op(o) != "drop"]
            hidden = {o["out"] for o in ops if "out" in o and (o.get("untracked") or self.model_op(o) == "drop")}
            proj = []
            for i in keep:
                o = io["outs"][i]
                proj.append({"ret": o["ret"], "regs": [None if n in hidden else r for n, r in enumerate(o["regs"])]})
            width = [max(len(a["regs"]), len(b["regs"])) for a, b in zip(model_ok, proj)] if len(model_ok) == len(proj) else []
            for a, b, w in zip(model_ok, proj, width):
                a["regs"] = a["regs"] + [None] * (w - len(a["regs"]))
                b["regs"] = b["regs"] + [None] * (w - len(b["regs"]))
            io = dict(io, outs=proj)
        d = super().diff(case, model_ok, io)
        if "zero_bin" in case.get("tags", []):
            # a bin that is empty in every member divides by zero: numpy yields NaN / inf there (physt's docstring says
            # so), the rational model 0; those entries, and totals containing them, are not compared
            d = [x for x in d if not ("impl=None" in x or "impl='inf'" in x or "impl='-inf'" in x or ".total" in x)]
        return d

    def oracle_free(self, case, io):
        outs, ops = io["outs"], case["ops"]
        nd = case["kind"] == "histn"
        fails = []
        if outs[0]["ret"] == "REFUSED":
            return ["refused_valid: setup refused: " + "; ".join(io["log"][:2])]
        modes = free_modes(ops)
        depth, dd = [], 0
        for o in ops:
            dd += o["op"] == "enter_free"
            depth.append(dd)
            dd -= o["op"] == "leave_free"

        def eq(a, b, what):
            if a is None or b is None:
                return a is None and b is None
            if any(isinstance(t, str) and t.lstrip("-") in ("inf", "nan") for t in (a, b)):
                return a == b
            x, y = Fraction(a), Fraction(b)
            return abs(x - y) <= Fraction(1, 10**6 if nd else 10**11) * max(abs(x), abs(y), Fraction(1, 10**20))

        for k, op in enumerate(ops):
            if k == 0 or op["op"] in ("enter_free", "copy"):
                continue
            before, after = outs[k - 1]["regs"], outs[k]["regs"]
            ret = outs[k]["ret"]
            where = ("inside a free-arithmetics block" if modes[k] else
                     ("inside a block that switches free arithmetics OFF" if depth[k] else "outside free arithmetics")
                     + " (" + free_story(ops, k) + ")")
            if op["op"] == "leave_free":
                how = op["how"]
                if how.startswith("refused:") and ret != "exception":
                    fails.append(f"accepted_invalid: {how[8:]} was accepted {where}")
                if how == "normal" and ret != "normal":
                    fails.append("refused_valid: a free-arithmetics block could not be left: " + "; ".join(io["log"][-1:]))
                if untouched(before, after) is not None:
                    fails.append(f"refused_changed: leaving the block ({how}): {untouched(before, after)}")
                continue
            if op["h"] >= len(before) or before[op["h"]] is None:
                return fails[:6]
            src = before[op["h"]]
            values = list(src["freq"]) + list(src["err2"])
            if any(t is None or (isinstance(t, str) and t.lstrip("-") in ("inf", "nan")) for t in values):
                return fails[:6]
            nonzero = any(Fraction(x) != 0 for x in src["freq"])
            if op["op"] == "spell":
                self.spell_fails(op, before, after, ret, modes[k], nd, eq, fails, where)
                continue
            call = spelled(op) if op["op"] in SCALINGS else (f"{op['sp']} with an array operand ({op['operand']})" if op["op"] == "arr" else op.get("what"))
            if op["op"] == "invalid":                      # h*h, h/h, 2/h: refused in every mode
                if ret != "REFUSED":
                    fails.append(f"accepted_invalid: {op['what']} was accepted {where}")
                elif untouched(before, after) is not None:
                    fails.append(f"refused_changed: the refused {op['what']}: {untouched(before, after)}")
                continue
            if op.get("probe") and not modes[k]:           # negative factor / array operand without free arithmetics
                if ret != "REFUSED":
                    if nonzero or op["probe"] == "arr":
                        fails.append(f"accepted_invalid: {call} was accepted {where}")
                elif untouched(before, after) is not None:
                    fails.append(f"refused_changed: the refused {call}: {untouched(before, after)}")
                continue
            if op.get("probe"):                            # ... and with it
                if ret == "REFUSED":
                    fails.append(f"refused_in_free: {call} was refused {where}: " + "; ".join(io["log"][-1:]))
                    continue
                if op["probe"] == "neg":
                    dst = after[op["out"]] if "out" in op else after[op["h"]]
                    keys = ("missed",) if nd else ("under", "over", "inner")
                    c = Fraction(op["c"])
                    g = c if op["op"] in ("mul", "imul") else 1 / c
                    if not all(eq(rs(Fraction(x) * g), y, "f") for x, y in zip(src["freq"], dst["freq"])):
                        fails.append(f"scale_content: {call} {where}: contents {src['freq']} became {dst['freq']}")
                    if not all(eq(rs(Fraction(x) * g * g), y, "e") for x, y in zip(src["err2"], dst["err2"])):
                        fails.append(f"scale_err2: {call} {where}: squared errors {src['err2']} became {dst['err2']}")
                    for m in keys:
                        if src[m] is not None and src[m] not in ("inf", "-inf") and not eq(rs(Fraction(src[m]) * g), dst[m], "m"):
                            fails.append(f"scale_missed: {call} {where}: {m} {src[m]} became {dst[m]}")
                    if "out" in op and after[op["h"]] != src:
                        fails.append(f"operand_modified: {call} modified its operand")
                continue
            # an ordinary positive scaling, wherever it stands
            if ret == "REFUSED":
                fails.append(f"refused_valid: {call} refused {where}: " + "; ".join(io["log"][-1:]))
                return fails[:6]
            dst = after[op["out"]] if "out" in op else after[op["h"]]
            if dst is None:
                fails.append(f"no_result: {call} returned without a result")
                return fails[:6]
            if nd:
                self.scaling_fails_nd(op, src, dst, after[op["h"]], fails)
            else:
                self.scaling_fails_1d(op, src, dst, after[op["h"]], eq, fails)
            if len(fails) > 5:
                break
        self.commute_fails(ops, outs, fails)
        return fails[:6]

    # ------------------------------------------------------------------ what the statement says about ONE spelling
    def spell_fails(self, op, before, after, ret, free, nd, eq, fails, where="outside free arithmetics"):
        fam = SPELLINGS[op["sp"]]
        call = spelled(op)
        src = before[op["h"]]
        kd, c = op["k"], Fraction(op["c"])
        nonzero = any(Fraction(x) != 0 for x in src["freq"])
        if ret != "ok":
            # no histogram came back (an exception, NotImplemented, a bare array numpy made of the frequencies): then
            # nothing has happened to any histogram
            changed = untouched(before, after)
            if changed is not None:
                fails.append(f"refused_changed: {call} {where} gave no histogram ({ret}) but {changed}")
            if fam in ("rdiv", "hh") and (ret == "hist_inside" or ret.startswith("other:")):
                fails.append(f"accepted_invalid: {call} {where} was not refused: it returned {ret}")
            if op["sp"] in MUST_ACCEPT and kd in SCALAR_KINDS and c > 0:
                fails.append(f"refused_valid: {call} {where} gave no histogram ({ret})")
            return
        dst = after[op["out"]] if op["out"] < len(after) else None
        if dst is None:
            fails.append(f"no_result: {call} returned without a result")
            return
        if fam == "rdiv":
            fails.append(f"accepted_invalid: {call} {where} -- a histogram as the divisor -- was not refused: it returned a "
                         f"{'N-d ' if nd else ''}histogram with contents {dst['freq'][:6]} (the operand's: {src['freq'][:6]})")
            return
        if fam == "hh":
            fails.append(f"accepted_invalid: {call} {where} -- histogram with histogram -- was not refused: it returned a "
                         f"histogram with contents {dst['freq'][:6]}")
            return
        if fam == "unpinned":
            return
        g = c if fam == "mul" else (1 / c if fam == "div" else Fraction(-1))
        if fam != "neg" and arraylike(kd) and not free:
            fails.append(f"accepted_invalid: {call} (an array operand) was accepted {where}")
            return
        if g < 0 and not free:
            if nonzero:
                fails.append(f"accepted_invalid: {call} (a negative factor) was accepted {where}")
            return
        want = [Fraction(x) * g for x in src["freq"]] + [Fraction(x) * g * g for x in src["err2"]]
        if beyond_dtype(dst["dtype"], want):
            return          # numpy wraps around in that integer type: outside the statement
        # an array operand (under free arithmetics a 0-d array may be taken for one) says nothing about the missed values
        # and the statistics; a scalar does
        partial = fam != "neg" and free and (arraylike(kd) or kd.startswith(("0d:", "red0d:")))
        pseudo = dict(op, op="div" if fam == "div" else "mul", c="-1" if fam == "neg" else op["c"], spelling=True)
        if nd:
            self.scaling_fails_nd(pseudo, src, dst, after[op["h"]], fails, missed=not partial)
        else:
            self.scaling_fails_1d(pseudo, src, dst, after[op["h"]], eq, fails, stats=not partial, missed=not partial)

    @staticmethod
    def commute_fails(ops, outs, fails):
        """c*h == h*c: the two operator forms on the same histogram with the same number give the same histogram"""
        seen = {}
        for k, op in enumerate(ops):
            if op.get("op") != "spell":
                seen = {}
                continue
            if op["sp"] in ("c*h", "h*c") and outs[k]["ret"] == "ok" and outs[k]["regs"][op["out"]] is not None:
                pub = {x: y for x, y in outs[k]["regs"][op["out"]].items() if not x.startswith("_")}
                key = (op["h"], op["c"], op["k"])
                if key in seen and seen[key][0] != op["sp"] and seen[key][1] != pub:
                    keys = sorted(x for x in pub if pub[x] != seen[key][1].get(x))
                    fails.append(f"commute: c*h and h*c differ in {keys[:4]} for c = {op['k']}({op['c']})")
                seen.setdefault(key, (op["sp"], pub))

    @staticmethod
    def build(src):
        ops = [src["init"]] + [dict(o) for o in src.get("prefill", [])]
        cur = 0
        nxt = 1
        for s in src["steps"]:
            t = s["t"]
            if t == "spell":
                ops.append({"op": "spell", "sp": s["sp"], "h": cur, "o": 0, "c": s["c"], "k": s["k"], "out": nxt})
                nxt += 1
            elif s.get("side"):
                # the factor in a carrier that may be refused: the result goes to a register nobody reads (copying
                # spellings), or the current histogram is scaled where it stands (in-place spellings)
                name = {"mul": "mul", "rmul": "mul", "imul": "imul", "div": "div", "idiv": "idiv"}[t]
                op = {"op": name, "h": cur, "c": s["c"], "k": s["k"], "two": True}
                if t in ("mul", "rmul", "div"):
                    op["out"] = nxt
                    nxt += 1
                if t == "rmul":
                    op["reflected"] = True
                ops.append(op)
            elif t in ("mul", "rmul"):
                ops.append({"op": "mul", "h": cur, "c": s["c"], "k": s["k"], "out": nxt, "reflected": t == "rmul"})
                cur, nxt = nxt, nxt + 1
            elif t == "imul":
                ops.append({"op": "imul", "h": cur, "c": s["c"], "k": s["k"]})
            elif t == "div":
                ops.append({"op": "div", "h": cur, "c": s["c"], "k": s["k"], "out": nxt})
                cur, nxt = nxt, nxt + 1
            elif t == "idiv":
                ops.append({"op": "idiv", "h": cur, "c": s["c"], "k": s["k"]})
            elif t == "mul_div":
                ops.append({"op": "mul", "h": cur, "c": s["c"], "k": s["k"], "out": nxt})
                ops.append({"op": "div", "h": nxt, "c": s["c"], "k": s["k"], "out": nxt + 1})
                cur, nxt = nxt + 1, nxt + 2
            elif t == "normalize":
                if s["inplace"]:
                    ops.append({"op": "normalize", "h": cur, "percent": s["percent"], "inplace": True})
                else:
                    ops.append({"op": "normalize", "h": cur, "percent": s["percent"], "inplace": False, "out": nxt})
                    cur, nxt = nxt, nxt + 1
        for s in src.get("extra_bad", []):
            t = s["t"]
            op = {"op": {"rmul": "mul"}.get(t, t), "h": cur, "c": s["c"], "k": s["k"], "expect_refused": True}
            if t in ("mul", "rmul", "div"):
                op["out"] = nxt
                nxt += 1
            if t == "rmul":
                op["reflected"] = True
            ops.append(op)
        bad = src["bad"]
        if bad == "neg_mul":
            ops.append({"op": "mul", "h": 0, "c": "-2", "k": "pyint", "out": nxt, "expect_refused": True})
        elif bad == "neg_imul":
            ops.append({"op": "imul", "h": cur, "c": "-1/2", "k": "pyfloat", "expect_refused": True})
        elif bad == "neg_div":
            ops.append({"op": "div", "h": 0, "c": "-2", "k": "pyint", "out": nxt, "expect_refused": True})
        elif bad == "zero_div":
            ops.append({"op": "idiv", "h": cur, "c": "0", "k": "pyint", "expect_refused": True})
        else:
            ops.append({"op": "invalid", "what": bad, "h": cur, "o": 0})
        tol = (not src["exact"]) or any(s["t"] == "normalize" for s in src["steps"])
        tags = ["exact" if src["exact"] else "tolerance", "bad:" + bad]
        if src.get("filled"):
            tags.append("stream:filled")
        if src.get("carriers"):
            tags.append("stream:carriers")
            tags += sorted({"carrier:" + o["k"].split(":")[0] + ("" if ":" not in o["k"] else ":" + o["k"].split(":")[-1])
                            for o in ops if is_carrier(o.get("k"))})
            tags += sorted({"carrier_spelling:" + ("rmul" if o.get("reflected") else o["op"]) for o in ops if o.get("two")})
        if any(o["op"] == "spell" for o in ops):
            tags.append("stream:spellings")
            tags += sorted({"kind:spell:" + SPELLINGS[o["sp"]] for o in ops if o["op"] == "spell"})
        return {"kind": "hist1", "ops": ops, "tags": tags, "src": src, "tolerance": tol}

    # ------------------------------------------------------------------ the small finite cores, completely
    TWO_OUTCOME = [("2", "0d:float64"), ("3", "0d:int64"), ("1/2", "0d:float32"), ("4", "0d:int32"), ("2", "red0d:float64"),
                   ("3", "red0d:int64"), ("1", "pybool"), ("1", "npbool"), ("2", "fraction"), ("1/4", "fraction"),
                   ("2", "decimal"), ("1/2", "decimal")]
    ACCEPTED = [("3", "red:sum:int64"), ("5", "red:max:int32"), ("3", "red:mean:int64"), ("1/4", "red:mean:float64"),
                ("1/2", "red:max:float32"), ("2", "red:sum:float64")]

    def exhaustive_cases(self, tier):
        """every carrier x every spelling on a histogram with valid statistics (from data, and entered by fill_n) and on a
        2-d one; every way of leaving a free-arithmetics block (also through an enclosing block, also a block that switches
        free arithmetics OFF inside one that switched it on) followed, outside, by every spelling of a negative factor and of
        an array operand"""
        b = gen1.binning_json([[0.0, 1.0], [1.0, 2.0], [2.0, 4.0]], form="pairs")
        data = gen1.enc_vals([0.5, 1.5, 1.5, 3.0, -1.0, 7.0, 0.25])
        inits = [{"op": "construct", "out": 0, "binning": b, "data": data, "weights": None, "wkind": None, "keep": True},
                 {"op": "construct", "out": 0, "binning": b, "data": data, "weights": ["1", "2", "1/2", "3", "1", "1", "4"],
                  "wkind": "float64", "keep": True}]
        spellings = ["mul", "rmul", "imul", "div", "idiv"]
        out = []
        for n, (c, kd) in enumerate(self.TWO_OUTCOME + self.ACCEPTED):
            two = (c, kd) in self.TWO_OUTCOME
            steps = []
            for t in spellings:
                if kd == "fraction" and t == "idiv" and not ENABLE_INPLACE_DIV_BY_FRACTION:
                    continue
                steps.append({"t": t, "c": c, "k": kd, "side": True} if two else {"t": t, "c": c, "k": kd})
            src = {"init": inits[n % 2], "steps": steps, "bad": "mul_hist", "exact": power_of_two(Fraction(c)), "carriers": True}
            if n % 3 == 0:      # the same, on a histogram that was entered batch by batch
                src["init"] = {"op": "empty", "out": 0, "binning": b, "keep": True, "dtype": None}
                src["prefill"] = [{"op": "fill_n", "h": 0, "vs": data, "ws": None, "wkind": "int64"},
                                  {"op": "fill", "h": 0, "v": "3/2", "w": "2", "wk": "pyint", "default_w": False}]
                src["filled"] = True
            case = self.build(src)
            case["tags"].append("exhaustive")
            out.append(case)
            # N-d
            ax = gen1.binning_json([[0.0, 1.0], [1.0, 2.0]], form="pairs")
            ops = [{"op": "of_arrays", "out": 0, "axes": [ax, ax], "freq": ["1", "0", "2", "3"], "err2": None, "missed": "2",
                    "dtype": "int64" if n % 2 else "float64", "keep": True, "names": ["ax0", "ax1"]}]
            nxt = 1
            for st in steps:
                t = st["t"]
                op = {"op": {"rmul": "mul"}.get(t, t), "h": 0, "c": c, "k": kd}
                if two:
                    op["two"] = True
                if t in ("mul", "rmul", "div"):
                    op["out"] = nxt
                    nxt += 1
                if t == "rmul":
                    op["reflected"] = True
                ops.append(op)
            out.append({"kind": "histn", "ops": ops, "tags": ["nd", "d:2", "stream:carriers", "exhaustive", "carrier:" + kd],
                        "tolerance": True, "sub": "nd"})
        probes = [{"t": "neg", "sp": sp, "c": c, "k": kd} for sp, c, kd in
                  [("mul", "-2", "pyint"), ("rmul", "-2", "int64"), ("imul", "-1/2", "pyfloat"), ("div", "-2", "pyint"),
                   ("idiv", "-4", "float64")]]
        probes += [{"t": "arr", "sp": sp, "operand": a} for sp, a in
                   [("mul", "ones"), ("rmul", "list_ones"), ("imul", "ones"), ("div", "twos"), ("idiv", "twos")]]
        nd_init = {"op": "of_arrays", "out": 0, "axes": [gen1.binning_json([[0.0, 1.0], [1.0, 2.0]], form="pairs")] * 2,
                   "freq": ["1", "0", "2", "3"], "err2": None, "missed": "2", "dtype": "int64", "keep": True, "names": ["ax0", "ax1"]}
        for nd in (False, True):
            init = nd_init if nd else inits[1]
            for how in self.LEAVES:
                shapes = [
                    [{"t": "block", "value": True, "body": [probes[0], probes[5]], "how": how}],
                    [{"t": "block", "value": True, "how": "normal", "body": [
                        {"t": "block", "value": False, "body": [], "how": how}, probes[1], probes[7]]}],
                ]
                if how != "normal":
                    shapes.append([{"t": "block", "value": True, "how": "normal", "body": [
                        probes[2], {"t": "block", "value": True, "body": [], "how": how, "through": True}]}])
                for items in shapes:
                    case = self.build_free({"init": init, "items": items + probes + [{"t": "pos", "sp": "mul", "c": "2", "k": "pyint"}],
                                            "nd": nd})
                    case["tags"].append("exhaustive")
                    out.append(case)
        out += self.spelling_grid()
        return out

    GRID_CARRIERS = [("2", "pyint"), ("1/2", "pyfloat"), ("2", "int8"), ("3", "int16"), ("2", "int32"), ("4", "int64"),
                     ("2", "uint8"), ("2", "uint16"), ("3", "uint32"), ("2", "uint64"), ("2", "float16"), ("1/2", "float32"),
                     ("4", "float64"), ("2", "red:sum:int64"),
                     ("2", "0d:float64"), ("2", "0d:int64"), ("1/2", "red0d:float64"), ("1", "pybool"), ("1", "npbool"),
                     ("2", "fraction"), ("1/2", "decimal"),
                     ("-2", "pyint"), ("-1/2", "float64"), ("-2", "int8"),
                     ("2", "nd:float64"), ("2", "nd:int64")]

    def spelling_grid(self):
        """stream:spellings, completely: every numeric carrier x every spelling x every kind of histogram (1-D with valid
        statistics from weighted data, 1-D entered by fill_n, 1-D of a transformed class, 2-d, 2-d of a transformed
        class), outside free arithmetics and (weighted 1-D, 2-d, transformed 2-d) inside a free-arithmetics block followed
        by the same spellings after the block"""
        b = gen1.binning_json([[0.0, 1.0], [1.0, 2.0], [2.0, 4.0]], form="pairs")
        ax = gen1.binning_json([[0.0, 1.0], [1.0, 2.0]], form="pairs")
        data = gen1.enc_vals([0.5, 1.5, 1.5, 3.0, -1.0, 7.0, 0.25])
        weighted = {"op": "construct", "out": 0, "binning": b, "data": data, "weights": ["1", "2", "1/2", "3", "1", "1", "4"],
                    "wkind": "float64", "keep": True}
        radial = {"op": "of_arrays", "out": 0, "binning": b, "freq": ["4", "0", "6"], "err2": ["2", "1", "3"], "under": "0",
                  "over": "2", "inner": "0", "dtype": "int64", "keep": True, "klass": "RadialHistogram"}
        two_d = {"op": "of_arrays", "out": 0, "axes": [ax, ax], "freq": ["1", "0", "2", "3"], "err2": None, "missed": "2",
                 "dtype": "int64", "keep": True, "names": ["ax0", "ax1"]}
        polar = dict(two_d, freq=["4", "8", "2", "6"], err2=["1", "2", "3", "4"], dtype="float64", klass="PolarHistogram")
        with_c = [sp for sp in SPELLINGS if "c" in sp.replace("reciprocal", "")]
        without_c = [sp for sp in SPELLINGS if sp not in with_c]
        out = []
        for n, (c, kd) in enumerate(self.GRID_CARRIERS):
            sps = with_c + (without_c if n == 0 else [])
            items = [{"t": "spell", "sp": sp, "c": c, "k": kd} for sp in sps]
            exact = power_of_two(Fraction(c))
            # outside free arithmetics
            for name, init in (("1d", weighted), ("1d_filled", None), ("1d_transformed", radial)):
                src = {"init": init, "steps": [dict(i, side=True) for i in items], "bad": "mul_hist", "exact": exact}
                if init is None:
                    src["init"] = {"op": "empty", "out": 0, "binning": b, "keep": True, "dtype": None}
                    src["prefill"] = [{"op": "fill_n", "h": 0, "vs": data, "ws": None, "wkind": "int64"}]
                    src["filled"] = True
                case = self.build(src)
                case["tags"] += ["exhaustive", "grid:" + name]
                out.append(case)
            for name, init in (("2d", two_d), ("2d_transformed", polar)):
                ops = [init] + [{"op": "spell", "sp": i["sp"], "h": 0, "o": 0, "c": c, "k": kd, "out": j + 1} for j, i in enumerate(items)]
                out.append({"kind": "histn", "ops": ops, "tolerance": True, "sub": "nd",
                            "tags": ["nd", "d:2", "stream:spellings", "exhaustive", "grid:" + name]})
            # inside a free-arithmetics block, and after it
            if kd in ("fraction", "decimal", "pybool", "npbool"):
                continue
            for name, init, nd in (("1d", weighted, False), ("2d", two_d, True), ("2d_transformed", polar, True)):
                case = self.build_free({"init": init, "nd": nd, "items": [
                    {"t": "block", "value": True, "how": "normal", "body": [dict(i) for i in items]}] + [dict(i) for i in items[::3]]})
                case["tags"] += ["exhaustive", "grid:free:" + name]
                out.append(case)
        return out

    def neighbours(self, case):
        """around a case on which model and implementation part: the same history with every other way of leaving its
        blocks / the side operations in every other spelling"""
        if case.get("sub") == "free":
            def blocks(items):
                for it in items:
                    if it["t"] == "block":
                        yield it
                        yield from blocks(it["body"])
            n = len(list(blocks(case["src"]["items"])))
            for i in range(n):
                for how in self.LEAVES:
                    src = copy.deepcopy(case["src"])
                    blk = list(blocks(src["items"]))[i]
                    if blk["how"] != how:
                        blk["how"] = how
                        yield self.build_free(src)
            return
        if "src" in case and not case.get("sub"):
            for i, st in enumerate(case["src"]["steps"]):
                if st["t"] == "spell":
                    for sp in SPELLINGS:
                        if sp != st["sp"] and SPELLINGS[sp] == SPELLINGS[st["sp"]]:
                            src = copy.deepcopy(case["src"])
                            src["steps"][i]["sp"] = sp
                            yield self.build(src)
                elif st.get("side"):
                    for t in ("mul", "rmul", "imul", "div", "idiv"):
                        if t != st["t"] and not (st["k"] == "fraction" and t == "idiv" and not ENABLE_INPLACE_DIV_BY_FRACTION):
                            src = copy.deepcopy(case["src"])
                            src["steps"][i]["t"] = t
                            yield self.build(src)

    def shrink_candidates(self, case):
        if case.get("sub") == "free":
            # remove one item, or unwrap / simplify one block -- always through build_free, so the case stays well-formed
            def variants(items):
                for i, it in enumerate(items):
                    yield items[:i] + items[i + 1:]
                    if it["t"] == "block":
                        yield items[:i] + it["body"] + items[i + 1:]
                        for body in variants(it["body"]):
                            yield items[:i] + [dict(it, body=body)] + items[i + 1:]
            for items in variants(case["src"]["items"]):
                yield self.build_free(dict(copy.deepcopy(case["src"]), items=copy.deepcopy(items)))
            return
        if case.get("sub"):
            ops = case["ops"]
            first = case.get("m", 1) + 1
            for k in range(len(ops) - 1, first - 1, -1):
                c = copy.deepcopy(case)
                del c["ops"][k]
                yield c
            return
        src = case["src"]
        for i in range(len(src["steps"]) - 1, -1, -1):
            s2 = copy.deepcopy(src)
            del s2["steps"][i]
            yield self.build(s2)
        for key in ("extra_bad", "prefill"):
            for i in range(len(src.get(key, [])) - 1, -1, -1):
                s2 = copy.deepcopy(src)
                del s2[key][i]
                yield self.build(s2)

    @staticmethod
    def scaling_fails_nd(op, src, dst, operand_after, fails, missed=True):
        """everything the statement pins about ONE accepted scaling of an N-d histogram"""
        T = Fraction(1, 10**6)

        def close(a, b):
            return abs(a - b) <= T * max(abs(a), abs(b), 1)

        def num(x):      # a non-finite entry equals no expected value
            return None if x is None or (isinstance(x, str) and x.lstrip("-") in ("inf", "nan")) else Fraction(x)

        if op["op"] in ("mul", "div") and operand_after != src:
            fails.append(f"operand_modified: {op['op']} modified its operand")
        if dst["bins"] != src["bins"] or dst["names"] != src["names"]:
            fails.append(f"bins_changed: {op['op']} changed bins or axis names")
        F0 = [num(x) for x in src["freq"]]; E0 = [num(x) for x in src["err2"]]
        F1 = [num(x) for x in dst["freq"]]; E1 = [num(x) for x in dst["err2"]]
        if None in F0 or None in E0:
            return
        c = Fraction(op["c"]); g = c if op["op"] in ("mul", "imul") else 1 / c
        if not all(y is not None and close(x * g, y) for x, y in zip(F0, F1)):
            fails.append(f"scale_content: ND {spelled(op) if op.get('spelling') else op['op'] + ' by ' + op['c']}: contents {src['freq']} became {dst['freq']}")
        if not all(y is not None and close(x * g * g, y) for x, y in zip(E0, E1)):
            fails.append(f"scale_err2: ND {spelled(op) if op.get('spelling') else op['op'] + ' by ' + op['c']}: squared errors {src['err2']} became {dst['err2']}")
        m0, m1 = num(src["missed"]), num(dst["missed"])
        if missed and m0 is not None and (m1 is None or not close(m0 * g, m1)):
            fails.append(f"scale_missed: ND {spelled(op)}: missed {src['missed']} became {dst['missed']}")

    @staticmethod
    def scaling_fails_1d(op, src_snap, dst, operand_after, eq, fails, stats=True, missed=True):
        """everything the statement pins about ONE accepted scaling of a 1-D histogram: contents and the three missed slots
        times the factor, squared errors times its square, bins and operand untouched, and the recorded statistics (weight
        times the factor; mean, variance, minimum, maximum as they were; still valid when they were valid)"""
        c = Fraction(op["c"])
        f = c if op["op"] in ("mul", "imul") else 1 / c
        how = spelled(op)
        by = how if op.get("spelling") else f"{op['op']} by {op['c']}"
        if dst["bins"] != src_snap["bins"]:
            fails.append("bins_changed: scaling changed the bins")
        for i, (x, y) in enumerate(zip(src_snap["freq"], dst["freq"])):
            if not eq(rs(Fraction(x) * f), y, "f"):
                fails.append(f"scale_content: {by}: content {x} became {y}, expected {Fraction(x)*f}")
                break
        for i, (x, y) in enumerate(zip(src_snap["err2"], dst["err2"])):
            if not eq(rs(Fraction(x) * f * f), y, "e"):
                fails.append(f"scale_err2: {by}: squared error {x} became {y}, expected {Fraction(x)*f*f}")
                break
        for m in ("under", "over", "inner") if missed else ():
            x, y = src_snap[m], dst[m]
            if x is not None and not eq(rs(Fraction(x) * f), y, "m"):
                fails.append(f"scale_missed: {how}: {m} {x} became {y}, expected {Fraction(x)*f}")
        if op["op"] in ("mul", "div") and operand_after != src_snap:
            fails.append("operand_modified: the scaled operand was modified")
        st0, st1 = src_snap["stats"], dst["stats"]
        if stats and st0["valid"] and f > 0:
            if not st1["valid"]:
                fails.append(f"stats_lost: statistics became invalid after {how} (a {op['k']} factor)")
            else:
                if st0["min"] != st1["min"] or st0["max"] != st1["max"]:
                    fails.append(f"stats_minmax: min/max changed under positive scaling ({how})")
                if not eq(rs(Fraction(st0["weight"]) * f), st1["weight"], "w"):
                    fails.append(f"stats_weight: weight {st0['weight']} became {st1['weight']} after scaling by {f} ({how})")
                for g in ("mean", "variance"):
                    if (st0[g] is None) != (st1[g] is None) and Fraction(st0["weight"]) != 0:
                        fails.append(f"stats_{g}: {g} changed from {st0[g]} to {st1[g]} under positive scaling ({how})")
                    if st0[g] is not None and st1[g] is not None:
                        x, y = Fraction(st0[g]), Fraction(st1[g])
                        scale = max(abs(x), abs(y), 1, Fraction(st0["mean"] or 0) ** 2)
                        if abs(x - y) > Fraction(1, 10**9) * scale:
                            fails.append(f"stats_{g}: {g} changed from {float(x)} to {float(y)} under positive scaling by {op['c']}")

    def oracle(self, case, io):
        if case.get("sub") == "collection":
            return self.oracle_collection(case, io)
        if case.get("sub") == "nd":
            return self.oracle_nd(case, io)
        if case.get("sub") == "free":
            return self.oracle_free(case, io)
        outs, ops = io["outs"], case["ops"]
        fails = []
        exact = case["src"]["exact"]
        if outs[0]["ret"] == "REFUSED":
            return ["refused_valid: setup refused: " + "; ".join(io["log"][:2])]

        def eq(a, b, what):
            if a is None or b is None:
                return a is None and b is None
            if any(isinstance(t, str) and t.lstrip("-") in ("inf", "nan") for t in (a, b)):
                return a == b          # a non-finite content or error never equals the finite expected value
            x, y = Fraction(a), Fraction(b)
            if exact and what != "norm":
                return x == y
            return abs(x - y) <= Fraction(1, 10**11) * max(abs(x), abs(y), Fraction(1, 10**20))

        for k, op in enumerate(ops):
            if k == 0:
                continue
            before = outs[k - 1]["regs"]
            after = outs[k]["regs"]
            if op["h"] >= len(before) or before[op["h"]] is None:
                return fails[:6]
            b0 = before[op["h"]]
            if any(t is None or (isinstance(t, str) and t.lstrip("-") in ("inf", "nan")) for t in list(b0["freq"]) + list(b0["err2"])):
                if not fails:
                    fails.append(f"non_finite: register {op['h']} holds a non-finite content or squared error before step {k} "
                                 f"although every factor and content is finite")
                return fails[:6]
            if op["op"] == "spell":
                self.spell_fails(op, before, after, outs[k]["ret"], False, False, eq, fails)
                continue
            if op.get("expect_refused") or op["op"] == "invalid":
                src_snap = before[op["h"]]
                nonzero = any(Fraction(x) != 0 for x in src_snap["freq"])
                must = op["op"] == "invalid" or op["c"] == "0" or nonzero
                if outs[k]["ret"] != "REFUSED" and must:
                    fails.append(f"accepted_invalid: {op.get('what', op['op'] + ' by ' + str(op.get('c')))} was accepted outside free arithmetics")
                if outs[k]["ret"] == "REFUSED" and before[:len(before)] != after[:len(before)]:
                    b2 = [{x: y for x, y in r.items() if "dtype" not in x} if r else r for r in before]
                    a2 = [{x: y for x, y in r.items() if "dtype" not in x} if r else r for r in after[:len(before)]]
                    if a2 != b2:
                        fails.append("refused_changed: a refused operation changed a histogram")
                continue
            if outs[k]["ret"] == "REFUSED" and op.get("two"):
                # a carrier the library need not take for a scalar: refused is fine, as long as NOTHING has happened
                if untouched(before, after) is not None:
                    fails.append(f"refused_changed: {spelled(op)} was refused but {untouched(before, after)}")
                continue
            if outs[k]["ret"] == "REFUSED":
                if op["op"] == "normalize" and Fraction(before[op["h"]]["total"]) == 0:
                    return fails[:6]
                fails.append(f"refused_valid: {op['op']} by {op.get('c')} refused: " + "; ".join(io["log"][:2]))
                return fails[:6]
            src_snap = before[op["h"]]
            dst = after[op.get("out", op["h"])] if op["op"] in ("mul", "div") or (op["op"] == "normalize" and not op.get("inplace")) else after[op["h"]]
            if dst is None:
                fails.append(f"no_result: {spelled(op)} returned without a result")
                return fails[:6]
            if op["op"] in ("mul", "imul", "div", "idiv"):
                self.scaling_fails_1d(op, src_snap, dst, after[op["h"]], eq, fails)
            if op["op"] == "normalize":
                tot = Fraction(dst["total"])
                want = 100 if op.get("percent") else 1
                if abs(tot - want) > Fraction(1, 10**9):
                    fails.append(f"normalize_total: total after normalize(percent={op.get('percent')}) is {float(tot)}")
                t0 = Fraction(src_snap["total"])
                for x, y in zip(src_snap["freq"], dst["freq"]):
                    if abs(Fraction(x) / t0 * want - Fraction(y)) > Fraction(1, 10**9):
                        fails.append("normalize_proportions: proportions changed")
                        break
                if not op.get("inplace") and after[op["h"]] != src_snap:
                    fails.append("operand_modified: normalize() modified its operand")
        self.commute_fails(ops, outs, fails)
        # commutation and (h*c)/c == h
        for k, op in enumerate(ops):
            if op["op"] == "div" and k > 0 and ops[k - 1]["op"] == "mul" and ops[k - 1]["out"] == op["h"] and ops[k - 1]["c"] == op["c"] \
               and outs[k]["ret"] == "ok" and outs[k - 1]["ret"] == "ok":
                a = outs[k]["regs"][op["out"]]
                o = outs[k]["regs"][ops[k - 1]["h"]]
                for f in ("freq", "err2"):
                    for x, y in zip(a[f], o[f]):
                        if abs(Fraction(x) - Fraction(y)) > Fraction(1, 10**11) * max(abs(Fraction(y)), 1):
                            fails.append(f"mul_div: (h*c)/c differs from h in {f}: {x} vs {y}")
                            break
        return fails[:6]

    def nontrivial(self, case, io):
        if case.get("sub"):
            return any(Fraction(x) != 0 for x in io["outs"][0]["regs"][0]["freq"])
        try:
            return any(Fraction(x) != 0 for x in io["outs"][0]["regs"][0]["freq"]) and any(s.get("c") not in ("1", None) for s in case["src"]["steps"])
        except Exception:
            return False


PROP = C06()

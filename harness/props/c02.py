"""C02 — ND construction: each row counted once, in the cell that contains it."""
from __future__ import annotations

import copy
from fractions import Fraction

from .. import gen1, gennd
from ..core import rs
from .basen import HistNProp


class C02(HistNProp):
    ID = "C02"
    N_QUICK = 400
    N_THOROUGH = 12000
    RULE = ("h / h2 / h3 calls with d = 2..4 explicit per-axis binnings (static right-closed, static right-open, fixed-width "
            "right-open, gapped, tiny gaps, 1-4 bins per axis, different counts per axis; as edges / pairs / binning objects) x "
            "rows (n = 0..30; coordinates on / one ulp beside every edge, in gaps, outside, NaN) x weights (absent, int, dyadic, "
            "all-equal non-unit, zeros, signed with every cell total >= 0) x row-wise, list, column-wise (h2, h3 lists) entry x axis names. non-trivial = at least one "
            "row inside a cell and one missed; distinct = op-list hash")
    FIELDS = {"bins", "shape", "freq", "err2", "missed", "total", "dtype", "names", "ndim"}

    def fields_for(self, case):
        return self.FIELDS

    def gen_case(self, rng, k, tier):
        d = rng.choice([2, 2, 2, 3, 3, 4])
        axes = [gennd.axis_binning(rng, maxbins=4 if d < 4 else 3) for _ in range(d)]
        n = rng.choice([0, 1, 2, 4, 8, 15, 30])
        rows = gennd.rows_for(rng, [a[1] for a in axes], n)
        ws, wk = gen1.weights_for(rng, n, kinds=["none", "none", "int", "dyadic", "equal", "zeros"])
        signed = False
        if n and rng.random() < 0.15:
            # signed weights (signal minus sideband): some rows are entered a second time with a negative weight that does not
            # outweigh the first entry, so every cell content stays >= 0 while squared errors add up
            signed = True
            kind = rng.choice(["int64", "int64", "float64", "int32"])
            pool = rng.choice([[1], [1], [1, 1, 2, 3], [1, 2]])       # plain +1 / -1 weights are the commonest signed form
            base = [rng.choice(pool) for _ in range(n)]
            extra_rows, extra_ws = [], []
            for i in range(n):
                if rng.random() < 0.5:
                    extra_rows.append(list(rows[i]))
                    extra_ws.append(-rng.randint(1, base[i]))
            rows = rows + extra_rows
            ws = base + extra_ws
            order = list(range(len(rows))); rng.shuffle(order)
            rows, ws = [rows[i] for i in order], [ws[i] for i in order]
            if kind == "float64":
                ws = [w / 2 for w in ws]
            wk = kind
            n = len(rows)
        entry = rng.choice(["h", "h", "list"] + (["h2"] if d == 2 else []) + (["h3", "h3cols"] if d == 3 else []))
        names = None
        if rng.random() < 0.4 or entry in ("h2", "h3cols"):
            # (h2 / h3 with bare columns and no names record the names as (None, None): not part of this property)
            names = [f"n{i}" for i in range(d)]
        tags = ["d:%d" % d, "entry:" + entry] + (["signed_weights"] if signed else [])
        if any(gen1.is_consecutive_exact(a[1]) is False for a in axes):
            tags.append("gapped")
        op = {"op": "construct", "out": 0, "axes": [a[0] for a in axes], "rows": gennd.enc_rows(rows),
              "weights": None if ws is None else [rs(w) for w in ws], "wkind": wk, "names": names, "entry": entry}
        if rng.random() < 0.1:
            op["dropna"] = False
        if rng.random() < 0.08 and ws is not None:
            op["weights"] = op["weights"] + ["1"]
            tags.append("malformed:wshape")
        return {"kind": "histn", "ops": [op], "tags": tags}

    def shrink_candidates(self, case):
        op = case["ops"][0]
        for j in range(len(op["rows"])):
            c = copy.deepcopy(case)
            del c["ops"][0]["rows"][j]
            if c["ops"][0]["weights"] is not None and len(c["ops"][0]["weights"]) > j:
                del c["ops"][0]["weights"][j]
            yield c

    def oracle(self, case, io):
        op = case["ops"][0]
        out = io["outs"][0]
        fails = []
        rows, ws = op["rows"], op["weights"]
        has_nan = any(v is None for r in rows for v in r)
        must_refuse = (ws is not None and len(ws) != len(rows)) or (has_nan and not op.get("dropna", True))
        if not must_refuse and ws is not None and any(Fraction(w) < 0 for w in ws):
            # signed weights: a cell whose total would be negative is refused by physt (C18's clause, not this property's)
            try:
                ax0 = [([(Fraction(l), Fraction(r)) for l, r in b["bins"]], b.get("ire", True)) for b in op["axes"] if b["t"] == "static"]
                if len(ax0) == len(op["axes"]):
                    cells0, _ = gennd.brute_cells(ax0, rows, ws)
                    if any(f < 0 for f, _ in cells0.values()):
                        return []
                elif out["ret"] == "REFUSED":
                    return []
            except Exception:
                return []
        if out["ret"] == "REFUSED":
            if not must_refuse:
                fails.append("refused_valid: a valid call was refused: " + "; ".join(io["log"][:2]))
            return fails
        if must_refuse:
            return ["accepted_invalid: invalid weights / NaN specification accepted"]
        snap = out["regs"][0]
        axes = []
        for b, rep in zip(op["axes"], snap["bins"]):
            pairs = [(Fraction(l), Fraction(r)) for l, r in rep]
            if b["t"] == "static" and [(Fraction(l), Fraction(r)) for l, r in b["bins"]] != pairs:
                fails.append("bins_changed: reported bins differ from the specification")
            axes.append((pairs, b.get("ire", True) if b["t"] == "static" else b.get("ire", False)))
        shape = [len(a[0]) for a in axes]
        if snap["shape"] != shape:
            return fails + [f"shape: {snap['shape']} != {shape}"]
        cells, tot = gennd.brute_cells(axes, rows, ws)
        for pos, idx in enumerate(gennd.unravel(shape)):
            f, e = cells.get(idx, (Fraction(0), Fraction(0)))
            if Fraction(snap["freq"][pos]) != f:
                fails.append(f"content: cell {idx} holds {snap['freq'][pos]}, the rows give {f}")
                break
            if Fraction(snap["err2"][pos]) != e:
                fails.append(f"errors2: cell {idx} has {snap['err2'][pos]}, sum of squared weights is {e}")
                break
        inside = sum((f for f, _ in cells.values()), Fraction(0))
        if snap["missed"] is None or Fraction(snap["missed"]) != tot - inside:
            fails.append(f"missed: reported {snap['missed']}, weight outside every cell is {tot - inside}")
        if op.get("names") is not None and snap["names"] != op["names"]:
            fails.append(f"names: {snap['names']} != {op['names']}")
        if snap["_freq_dtype"] != snap["dtype"] or snap["_err2_dtype"] != snap["dtype"]:
            fails.append("dtype: reported dtype differs from the arrays'")
        return fails

    def nontrivial(self, case, io):
        out = io["outs"][0]
        if out["ret"] != "ok":
            return False
        s = out["regs"][0]
        return any(Fraction(x) != 0 for x in s["freq"]) and s["missed"] not in (None, "0")


PROP = C02()

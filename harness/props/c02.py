"""C02 — ND construction: each row counted once, in the cell that contains it."""
from __future__ import annotations

import copy
import itertools
from fractions import Fraction

import numpy as np

from .. import gen1, gennd, implnd
from ..core import rs
from ..impl1 import REFUSED, Store, arr, fl, mk_binning
from ..sharing import sharing as _sharing
from .basen import HistNProp

# --------------------------------------------------------------------------------------------- switches of the newer streams
ENABLE_SAME_EDGES = True        # axes with element-wise identical bins whose per-axis options (right edge, adaptivity) differ
ENABLE_PER_AXIS_ARGS = True     # per-axis lists of arguments (method names, bin_count, bin_width, range, q ...) on equal extents
ENABLE_LAYOUT = True            # memory layouts of the row-wise input x every binning method name; the input stays untouched
SHARE_SAME_EDGES, SHARE_PER_AXIS_ARGS, SHARE_LAYOUT = 0.14, 0.10, 0.15
ENABLE_COLUMNS_ND = True        # column-wise input (h2 / h3 lists) whose columns are multi-dimensional and differ in memory layout
SHARE_COLUMNS_ND = 0.13
# h2(X, Y, weights=W) with X, Y, W of one multi-dimensional shape and dropna on (the default) is refused by the unchanged library
# ("Weights array shape ((m, k)) != expected ((m*k,))": the columns are flattened, the weights are not); with dropna=False, or
# with weights of length m*k, the call is accepted. Until that is triaged the acceptance of such a call is not demanded (if it
# is accepted, the counts are checked all the same).
EXPECT_ND_WEIGHTS_WITH_DROPNA = False
# h3([X, Y, Z]) with multi-dimensional X, Y, Z is refused by the unchanged library (it stacks item[:, np.newaxis]); the wording
# of h3 promises "three different arrays (for each component)" only: acceptance not demanded, counts checked when accepted
EXPECT_H3_ND_COLUMNS = False

# every method name the N-d facade accepts (physt.binnings.binning_methods + bincount_methods); 'static' needs a `bins=`
# keyword that collides with the facade's own parameter and is reachable through arrays of edges only
METHODS_ANY_DATA = ["numpy", "quantile", "fixed_width", "integer", "pretty", "human", "blocks", "scott", "freedman", "knuth",
                    "default", "sturges", "rice", "sqrt", "doane"]
METHODS_POSITIVE = ["exponential"]
# calls whose acceptance the generator vouches for (n >= 2 values, a proper extent); the others may legitimately be refused
# (quantiles of tied data, an optional dependency of astropy missing, a degenerate width rule): not pinned by this property
METHODS_CONFIDENT = {"numpy", "fixed_width", "integer", "default", "sturges", "rice", "sqrt"}

LAYOUTS_COLUMN_CONTIGUOUS = ["F", "T", "Frows"]                      # every column is one contiguous run of memory
LAYOUTS_OTHER = ["C", "rowstep", "colslice", "rev", "Frev", "colrev"]
PAD = 12345.0
# layouts of one multi-dimensional column (lay_out_col); 'df' = 2-D DataFrame.values (column-major), 'list' = nested lists
COL_LAYOUTS_CORE = ["C", "F", "T", "rev", "colslice", "allrev", "df", "list"]
COL_LAYOUTS = COL_LAYOUTS_CORE + ["rowstep", "Frows", "Frev", "colrev"]


# ----------------------------------------------------------------------------- the extended `construct` op on the real library
def enc(v):
    """keyword value -> JSON: bool / None as they are, {"i": int}, {"f": rational}, {"t": [rationals]} for a tuple of floats,
    {"axes": [...]} for a per-axis list (a Python list in the call)"""
    if v is None or isinstance(v, bool):
        return v
    if isinstance(v, int):
        return {"i": v}
    if isinstance(v, float):
        return {"f": rs(v)}
    if isinstance(v, tuple):
        return {"t": [rs(float(x)) for x in v]}
    if isinstance(v, list):
        return {"axes": [enc(x) for x in v]}
    raise TypeError(v)


def dec(j):
    if j is None or isinstance(j, bool):
        return j
    if "i" in j:
        return int(j["i"])
    if "f" in j:
        return fl(j["f"])
    if "t" in j:
        return tuple(fl(x) for x in j["t"])
    if "axes" in j:
        return [dec(x) for x in j["axes"]]
    raise TypeError(j)


def mk_item(j):
    """one `bins` entry of the facade call"""
    k = j["k"]
    if k == "name":
        return j["s"]
    if k == "int":
        return int(j["n"])
    if k == "edges":
        return np.array([fl(x) for x in j["e"]])
    if k == "pairs":
        return np.array([[fl(l), fl(r)] for l, r in j["p"]])
    if k == "obj":
        return mk_binning(j["b"])
    if k == "none":
        return None
    raise ValueError(k)


def lay_out(a: np.ndarray, lay: dict):
    """(array handed to physt, array owning the memory) holding exactly the values of the C-ordered float array `a`"""
    kind = lay.get("k", "C")
    dt = np.dtype(lay.get("dtype", "float64"))
    src = a.astype(dt)
    n, d = src.shape
    if kind == "C":
        base = np.ascontiguousarray(src); v = base
    elif kind == "F":
        base = np.asfortranarray(src); v = base
    elif kind == "T":                       # np.array([x, y, z]).T
        base = np.ascontiguousarray(src.T); v = base.T
    elif kind == "rowstep":                 # every second row of a larger table
        base = np.full((2 * n + 1, d), PAD, dtype=dt); base[1::2] = src; v = base[1::2]
    elif kind == "colslice":                # some columns of a wider table
        base = np.full((n, d + 2), PAD, dtype=dt); base[:, 1:d + 1] = src; v = base[:, 1:d + 1]
    elif kind == "Frows":                   # some rows of a column-major table: each column still one contiguous run
        base = np.full((n + 2, d), PAD, dtype=dt, order="F"); base[1:n + 1] = src; v = base[1:n + 1]
    elif kind == "rev":
        base = np.ascontiguousarray(src[::-1]); v = base[::-1]
    elif kind == "Frev":
        base = np.asfortranarray(src[::-1]); v = base[::-1]
    elif kind == "colrev":
        base = np.ascontiguousarray(src[:, ::-1]); v = base[:, ::-1]
    else:
        raise ValueError(kind)
    if lay.get("ro"):
        v.flags.writeable = False
        base.flags.writeable = False
    if not (v.shape == a.shape and np.array_equal(v.astype(float), a, equal_nan=True)):
        raise AssertionError(f"layout {lay} does not hold the rows (generator bug)")
    return v, base


def lay_out_1d(w: np.ndarray, lay: dict):
    kind = lay.get("k", "C")
    n = len(w)
    if kind == "C":
        base = w.copy(); v = base
    elif kind == "step":
        base = np.full(2 * n + 1, 99, dtype=w.dtype); base[1::2] = w; v = base[1::2]
    elif kind == "rev":
        base = np.ascontiguousarray(w[::-1]); v = base[::-1]
    else:
        raise ValueError(kind)
    if lay.get("ro"):
        v.flags.writeable = False
        base.flags.writeable = False
    if not (v.shape == w.shape and np.array_equal(v, w)):
        raise AssertionError(f"weight layout {lay} does not hold the weights (generator bug)")
    return v, base


def lay_out_col(a: np.ndarray, lay: dict):
    """(object handed to physt, array owning the memory or None) holding exactly the values of the C-ordered array `a` of any
    number of dimensions at the same POSITIONS (v[idx] == a[idx]); only the place of the values in memory differs"""
    kind = lay.get("k", "C")
    dt = np.dtype(lay["dtype"]) if "dtype" in lay else a.dtype
    src = np.ascontiguousarray(a.astype(dt))
    nd = src.ndim
    sh = src.shape
    if kind == "list":                      # nested Python lists
        v = src.tolist()
        if not np.array_equal(np.asarray(v, dtype=float).reshape(sh), a.astype(float), equal_nan=True):
            raise AssertionError(f"layout {lay} does not hold the values (generator bug)")
        return v, None
    if kind == "C":
        base = src.copy(); v = base
    elif kind == "F":
        base = np.asfortranarray(src); v = base
    elif kind == "T":                       # a transposed view (all axes reversed)
        base = np.ascontiguousarray(src.T); v = base.T
    elif kind == "rowstep":                 # every second slab of a larger array
        base = np.full((2 * sh[0] + 1,) + sh[1:], 77, dtype=dt); base[1::2] = src; v = base[1::2]
    elif kind == "colslice":                # a window of a wider array (last axis)
        base = np.full(sh[:-1] + (sh[-1] + 2,), 77, dtype=dt); base[..., 1:sh[-1] + 1] = src; v = base[..., 1:sh[-1] + 1]
    elif kind == "Frows":                   # some slabs of a column-major array
        base = np.full((sh[0] + 2,) + sh[1:], 77, dtype=dt, order="F"); base[1:sh[0] + 1] = src; v = base[1:sh[0] + 1]
    elif kind == "rev":
        base = np.ascontiguousarray(src[::-1]); v = base[::-1]
    elif kind == "Frev":
        base = np.asfortranarray(src[::-1]); v = base[::-1]
    elif kind == "colrev":
        base = np.ascontiguousarray(src[..., ::-1]); v = base[..., ::-1]
    elif kind == "allrev":                  # reversed along every axis
        every = (slice(None, None, -1),) * nd
        base = np.ascontiguousarray(src[every]); v = base[every]
    elif kind == "df":                      # the 2-D .values of a DataFrame built from columns (column-major block)
        import pandas as pd
        if nd != 2:
            raise ValueError("layout 'df' needs a 2-D column")
        v = pd.DataFrame({j: src[:, j] for j in range(sh[1])}).values if sh[1] else src.copy()
        v = v.astype(dt, copy=False)
        base = v if v.base is None else v.base
        if not isinstance(base, np.ndarray):
            base = v
    else:
        raise ValueError(kind)
    if lay.get("ro"):
        v.flags.writeable = False
        try:
            base.flags.writeable = False
        except ValueError:
            pass
    if not (v.shape == sh and v.dtype == dt and np.array_equal(v.astype(float), a.astype(float), equal_nan=True)):
        raise AssertionError(f"layout {lay} does not hold the values (generator bug)")
    return v, base


def _state(x):
    """what must be bit-for-bit the same after the call: memory, geometry and type of an array handed to physt"""
    if x is None:
        return None
    if isinstance(x, list):
        return repr(x)
    return (x.tobytes(), x.shape, x.strides, x.dtype.str)


def snap_ext(x) -> dict:
    s = implnd.snapn(x)
    bs = list(x.binnings)
    s["_ire"] = [bool(b.includes_right_edge) for b in bs]               # the right-edge declaration of each axis (public)
    s["_adaptive_axes"] = [bool(b.is_adaptive()) for b in bs]
    s["_binning_classes"] = [type(b).__name__ for b in bs]
    return s


def run_construct(op: dict, log: list) -> dict:
    """`construct` of implnd, extended by (a) `call`: the bins argument and the keywords of the facade call as they are (method
    names, ints, arrays of edges, objects, per-axis lists of keywords), (b) `layout` / `wlayout`: the memory layout of the
    row-wise array / of the weights; afterwards the arrays handed over are compared with their state before the call."""
    from physt import h, h2, h3
    s = Store()
    call = op.get("call")
    d = int(op["d"]) if "d" in op else len(op["axes"])
    data = implnd.rows_arr(op["rows"], d)
    entry = op.get("entry", "h")
    cols = op.get("cols")
    if cols:
        return _run_construct_columns(op, log, s, call, d, data, entry, cols)
    v, base = lay_out(data, op.get("layout") or {})
    given = v
    if entry == "list":
        given = v.tolist() if len(v) else v
    w = wbase = None
    if op.get("weights") is not None:
        w, wbase = lay_out_1d(arr(op["weights"], np.dtype(op.get("wkind") or "float64")), op.get("wlayout") or {})
    before = (_state(base), _state(v), _state(given) if isinstance(given, list) else None, _state(wbase), _state(w))
    try:
        kw = {"dropna": op.get("dropna", True)}
        if op.get("names") is not None:
            kw["axis_names"] = op["names"]
        if call is None:
            bins = [mk_binning(b) for b in op["axes"]]
        else:
            jb = call["bins"]
            bins = [mk_item(x) for x in jb["axes"]] if "axes" in jb else mk_item(jb)
            for k, val in (call.get("kw") or {}).items():
                kw[k] = dec(val)
        if entry == "h2" and d == 2:
            r = h2(v[:, 0], v[:, 1], bins, weights=w, **kw)
        elif entry == "h3" and d == 3:
            r = h3(v, bins, weights=w, **kw)
        elif entry == "h3cols" and d == 3:
            r = h3([v[:, 0], v[:, 1], v[:, 2]], bins, weights=w, **kw)
        else:
            r = h(given, bins, weights=w, **kw)
        s.set(op["out"], r)
        ret = "ok"
    except Exception as e:
        log.append(f"construct: {type(e).__name__}: {e}"[:200])
        ret = REFUSED
    after = (_state(base), _state(v), _state(given) if isinstance(given, list) else None, _state(wbase), _state(w))
    inp = {"data_intact": before[:3] == after[:3], "weights_intact": before[3:] == after[3:]}
    if not inp["data_intact"]:
        inp["rows_after"] = [[None if x != x else rs(float(x)) for x in row] for row in np.asarray(v, dtype=float).tolist()]
    if not inp["weights_intact"]:
        inp["weights_after"] = [None if x != x else rs(float(x)) for x in np.asarray(w, dtype=float).tolist()]
    return {"ret": ret, "regs": [None if x is None else snap_ext(x) for x in s.regs], "_sharing": _sharing(s.regs), "_input": inp}


def _call_args(op, call):
    kw = {"dropna": op.get("dropna", True)}
    if op.get("names") is not None:
        kw["axis_names"] = op["names"]
    if call is None:
        bins = [mk_binning(b) for b in op["axes"]]
    else:
        jb = call["bins"]
        bins = [mk_item(x) for x in jb["axes"]] if "axes" in jb else mk_item(jb)
        for k, val in (call.get("kw") or {}).items():
            kw[k] = dec(val)
    return bins, kw


def _run_construct_columns(op, log, s, call, d, data, entry, cols):
    """column-wise entry with columns of any number of dimensions: column j holds data[:, j] reshaped (C order) to
    cols["shape"], laid out in memory as cols["lays"][j]; the weights have the same shape (layout cols["wlay"]) or, with
    {"flat": true}, are the 1-D array of length n. Row k of `rows` is thus (x.flat[k], y.flat[k], ...) with weights.flat[k]."""
    from physt import h2, h3
    shape = tuple(int(x) for x in cols["shape"])
    pieces = [lay_out_col(data[:, j].reshape(shape), cols["lays"][j]) for j in range(d)]
    given = [p[0] for p in pieces]
    w = wbase = None
    if op.get("weights") is not None:
        warr = arr(op["weights"], np.dtype(op.get("wkind") or "float64"))
        wl = cols.get("wlay") or {}
        if wl.get("flat"):
            w, wbase = lay_out_1d(warr, wl)
        else:
            w, wbase = lay_out_col(warr.reshape(shape), wl)
    held = [x for p in pieces for x in (p[1], p[0])]
    before = [_state(x) for x in held] + [_state(wbase), _state(w)]
    try:
        bins, kw = _call_args(op, call)
        if entry == "h2" and d == 2:
            r = h2(given[0], given[1], bins, weights=w, **kw)
        elif entry == "h3cols" and d == 3:
            r = h3(list(given), bins, weights=w, **kw)
        else:
            raise AssertionError(f"no column-wise entry {entry!r} for d = {d} (generator bug)")
        s.set(op["out"], r)
        ret = "ok"
    except AssertionError:
        raise
    except Exception as e:
        log.append(f"construct: {type(e).__name__}: {e}"[:200])
        ret = REFUSED
    after = [_state(x) for x in held] + [_state(wbase), _state(w)]
    inp = {"data_intact": before[:-2] == after[:-2], "weights_intact": before[-2:] == after[-2:]}
    if not inp["data_intact"]:
        now = np.column_stack([np.asarray(g, dtype=float).reshape(-1) for g in given])
        inp["rows_after"] = [[None if x != x else rs(float(x)) for x in row] for row in now.tolist()]
    if not inp["weights_intact"]:
        inp["weights_after"] = [None if x != x else rs(float(x)) for x in np.asarray(w, dtype=float).reshape(-1).tolist()]
    return {"ret": ret, "regs": [None if x is None else snap_ext(x) for x in s.regs], "_sharing": _sharing(s.regs), "_input": inp}


# --------------------------------------------------------------------------------------------------------- generator helpers
def _spec_ire(b):
    return b.get("ire", True) if b["t"] == "static" else b.get("ire", False)


def _spec_pairs(b):
    """bins of a binning JSON as Fractions (static: as listed; fixed: (tmin + i) * w + shift, exact for the dyadic widths used)"""
    if b["t"] == "static":
        return [(Fraction(l), Fraction(r)) for l, r in b["bins"]]
    w, sh = Fraction(b["w"]), Fraction(b["shift"])
    return [((b["tmin"] + i) * w + sh, (b["tmin"] + i + 1) * w + sh) for i in range(b["count"])]


def _inside(rng, pairs):
    a, b = rng.choice(pairs)
    return a + (b - a) * rng.choice([0.25, 0.5, 0.75])


def rows_on_edges(rng, axes_pairs, n, nan_share=0.04):
    """rows whose coordinates sit on the LAST edge of their axis (and one ulp beside it) often, on every axis alike; plus, for
    every axis in turn, rows that are inside the bins on all other axes and exactly on / beside the last edge of that one"""
    d = len(axes_pairs)
    rows = []
    for _ in range(n):
        row = []
        for p in axes_pairs:
            edges = sorted({x for q in p for x in q})
            last = p[-1][1]
            r = rng.random()
            if r < nan_share / d:
                row.append(gen1.NAN)
            elif r < 0.28:
                row.append(last)
            elif r < 0.36:
                row.append(gen1.nxt(last, rng.random() < 0.5))
            elif r < 0.46:
                row.append(rng.choice(edges))
            elif r < 0.51:
                row.append(gen1.nxt(rng.choice(edges), rng.random() < 0.5))
            elif r < 0.90:
                row.append(_inside(rng, p))
            else:
                span = (edges[-1] - edges[0]) or 1.0
                row.append(rng.choice([edges[0] - span, last + span, edges[0] - 0.25, last + 0.25]))
        rows.append(row)
    for a in range(d):
        if rng.random() < 0.75:
            last = axes_pairs[a][-1][1]
            for x in [last] + ([gen1.nxt(last, False)] if rng.random() < 0.4 else []) + ([gen1.nxt(last, True)] if rng.random() < 0.3 else []):
                rows.append([x if i == a else _inside(rng, axes_pairs[i]) for i in range(d)])
    rng.shuffle(rows)
    return rows


def _names_entry(rng, d):
    entry = rng.choice(["h", "h", "h"] + (["h2"] if d == 2 else []) + (["h3", "h3", "h3cols"] if d == 3 else []))
    names = None
    if rng.random() < 0.3 or entry in ("h2", "h3cols"):
        names = [f"n{i}" for i in range(d)]
    return entry, names


def _weights(rng, n, op, tags):
    ws, wk = gen1.weights_for(rng, n, kinds=["none", "none", "int", "dyadic", "equal", "zeros"])
    op["weights"] = None if ws is None else [rs(w) for w in ws]
    op["wkind"] = wk
    if ws is not None:
        tags.append("weighted")


def _last_edge_tags(axes_pairs, rows):
    out = []
    for a, p in enumerate(axes_pairs):
        if any(r[a] is not None and r[a] == p[-1][1] for r in rows):
            out.append(f"on_last_edge:axis{a}")
    return out


def gen_same_edges(rng):
    """axes sharing element-wise identical bins (same class) whose right-edge declaration / adaptivity differ per axis"""
    d = rng.choice([2, 2, 3, 3, 4])
    kind = rng.choice(["static", "static", "numpy", "fixed", "fixed"])
    maxbins = 4 if d < 4 else 3
    tags = ["stream:same_edges", "d:%d" % d, "shared:" + kind]
    if kind == "fixed":
        w = rng.choice([1.0, 0.5, 0.25, 2.0])
        tmin, cnt = rng.randint(-3, 3), rng.randint(1, maxbins)
        pairs = [[(tmin + i) * w, (tmin + i + 1) * w] for i in range(cnt)]
    else:
        pairs, _ = gen1.rising_bins(rng, allow_gaps=(kind == "static"))
        pairs = pairs[:maxbins]
    consecutive = gen1.is_consecutive_exact(pairs)
    shared = list(range(d))
    if d > 2 and rng.random() < 0.3:
        shared = sorted(rng.sample(range(d), rng.randint(2, d - 1)))
    # flags: both declarations occur among the sharing axes (mostly); which axis is the closed one varies
    flags = {a: rng.random() < 0.5 for a in shared}
    if rng.random() < 0.85 and len(set(flags.values())) == 1:
        flags[rng.choice(shared)] = not flags[shared[0]]
    if len(set(flags.values())) > 1:
        tags.append("flags_differ")
    adaptive = {a: False for a in shared}
    if kind == "fixed" and rng.random() < 0.5:
        for a in shared:
            adaptive[a] = (not flags[a]) and rng.random() < 0.6       # adaptivity and a closed right edge exclude each other
        if any(adaptive.values()):
            tags.append("adaptive_differs" if len(set(adaptive.values())) > 1 else "adaptive_all")
    others = {a: gennd.axis_binning(rng, maxbins=maxbins) for a in range(d) if a not in shared}

    def spec(a):
        if a not in flags:
            return others[a][0]
        if kind == "fixed":
            return gen1.fixed_json(w, tmin, cnt, 0.0, adaptive=adaptive[a], ire=flags[a])
        return gen1.binning_json(pairs, ire=flags[a], form="numpy_obj" if kind == "numpy" else "static_obj")
    axes = [spec(a) for a in range(d)]
    axes_pairs = [pairs if a in flags else others[a][1] for a in range(d)]
    forms = ["objs", "objs"]
    if kind == "static":
        forms += ["kw_list", "kw_list"] + (["kw_single"] if len(shared) == d else [])
    if kind == "fixed":
        forms += ["fixed_kw", "fixed_kw", "fixed_kw"]
    form = rng.choice(forms)
    tags.append("form:" + form)
    n = rng.choice([0, 1, 2, 4, 8, 15])
    rows = rows_on_edges(rng, axes_pairs, n)
    entry, names = _names_entry(rng, d)
    op = {"op": "construct", "out": 0, "d": d, "axes": axes, "rows": gennd.enc_rows(rows), "names": names, "entry": entry}
    _weights(rng, len(rows), op, tags)
    if form != "objs":
        item = ({"k": "edges", "e": [rs(pairs[0][0])] + [rs(p[1]) for p in pairs]} if (consecutive and rng.random() < 0.6)
                else {"k": "pairs", "p": [[rs(l), rs(r)] for l, r in pairs]})
        kw = {}
        if form == "kw_single":
            bins = item
            kw["includes_right_edge"] = enc([flags[a] for a in range(d)])
        elif form == "kw_list":
            bins = {"axes": [item if a in flags else {"k": "obj", "b": axes[a]} for a in range(d)]}
            kw["includes_right_edge"] = enc([flags.get(a) for a in range(d)])
        else:                                                           # 'fixed_width' by name, equal range on the sharing axes
            name = {"k": "name", "s": "fixed_width"}
            if len(shared) == d and rng.random() < 0.5:
                bins = name
            else:
                bins = {"axes": [name if a in flags else {"k": "obj", "b": axes[a]} for a in range(d)]}
            rg = (pairs[0][0], pairs[-1][1])
            per_axis = lambda val: [val if a in flags else None for a in range(d)]
            kw["bin_width"] = enc(w if (len(shared) == d and rng.random() < 0.5) else per_axis(w))
            kw["range"] = enc(rg if (len(shared) == d and rng.random() < 0.5) else per_axis(rg))
            kw["includes_right_edge"] = enc([flags.get(a) for a in range(d)])
            if any(adaptive.values()):
                kw["adaptive"] = enc([adaptive.get(a, False) for a in range(d)])
                # an adaptive axis given a range grows to the data as well: its bins are the facade's business (C04 / C07)
                op["axes"] = [None if adaptive.get(a) else axes[a] for a in range(d)]
        op["call"] = {"bins": bins, "kw": kw}
    op["expect"] = "ok"
    tags += _last_edge_tags(axes_pairs, rows)
    return {"kind": "histn", "ops": [op], "tags": tags}


def _column(rng, n, lo, step, m, ties=False):
    """n values on the grid lo + k * step (k = 0..m), both ends present (so all columns have the same extent); distinct values
    unless `ties`"""
    ks = list(range(m + 1))
    if n <= 1:
        return [lo + rng.choice(ks) * step for _ in range(n)]
    if ties or m + 1 < n:
        col = [0, m] + [rng.choice(ks) for _ in range(n - 2)]
    else:
        col = [0, m] + rng.sample(ks[1:-1], n - 2)
    rng.shuffle(col)
    return [lo + k * step for k in col]


def _method_item(rng, name, lo, hi, tight=False):
    """(bins item, keywords of that axis, tag)"""
    kw = {}
    span = hi - lo
    rg = rng.choice([None, None, (lo, hi), (lo, lo + span / 2), (lo - 1.0, hi + 1.0)])
    if name == "int":
        if rg is not None:
            kw["range"] = rg
        return {"k": "int", "n": rng.randint(1, 4)}, kw, "int"
    if name == "edges":
        k = rng.randint(1, 3)
        e = [lo + span * i / k for i in range(k + 1)] if rng.random() < 0.7 else [lo + span / 4, lo + span / 2, hi]
        kw["includes_right_edge"] = rng.random() < 0.5
        return {"k": "edges", "e": [rs(x) for x in e]}, kw, "edges"
    if name == "numpy":
        kw["bin_count"] = rng.randint(1, 4)
        if rg is not None:
            kw["range"] = rg
    elif name == "quantile":
        r = rng.random()
        if r < 0.5:
            kw["bin_count"] = rng.randint(1, 3)
            if rng.random() < 0.2:
                kw["qrange"] = rng.choice([(0.25, 0.75), (0.0, 0.5), (0.5, 1.0)])
        else:
            kw["q"] = rng.choice([(0.0, 0.5, 1.0), (0.0, 0.25, 0.75, 1.0), (0.25, 0.75), (0.0, 1.0), (0.125, 0.5, 1.0)])
    elif name == "fixed_width":
        kw["bin_width"] = rng.choice([span / 2, span / 4, span])
        if rg is not None:
            kw["range"] = rg
        if rng.random() < 0.5:
            kw["includes_right_edge"] = rng.random() < 0.5
        if not kw.get("includes_right_edge") and rng.random() < 0.25:
            kw["adaptive"] = True
    elif name == "integer":
        if rng.random() < 0.3:
            kw["bin_width"] = 2
        if rg is not None and rng.random() < 0.5:
            kw["range"] = (float(int(lo)), float(int(hi)) + 1.0)
    elif name in ("pretty", "human"):
        if tight or rng.random() < 0.7:
            kw["bin_count"] = rng.randint(2, 3 if tight else 5)
        if rg is not None:
            kw["range"] = rg
    elif name == "exponential":
        kw["bin_count"] = rng.randint(1, 4)
        if rg is not None and rg[0] > 0:
            kw["range"] = rg
    elif name in ("default", "sturges", "rice", "sqrt", "doane", "blocks", "scott", "freedman", "knuth"):
        if rg is not None and rng.random() < 0.5:
            kw["range"] = rg
    return {"k": "name", "s": name}, kw, name


def _method_call(rng, d, names_per_axis, lo, hi, uniform):
    """bins / keywords of a facade call with one method per axis; uniform: ONE bins argument for all axes, its keywords given
    once or as per-axis lists; otherwise a per-axis list of bins with per-axis lists of keywords (None where an axis takes none)"""
    drawn = [_method_item(rng, names_per_axis[a], lo, hi, tight=(d == 4)) for a in range(d)]
    items, kws, mtags = [x[0] for x in drawn], [x[1] for x in drawn], [x[2] for x in drawn]
    once = uniform and rng.random() < 0.5
    if uniform:
        items = [items[0]] * d
        first = kws[0]
        kws = [dict(first) if once else {k: kw.get(k, first[k]) for k in first} for kw in kws]
    for kw in kws:
        if kw.get("adaptive") and kw.get("includes_right_edge"):     # exclude each other
            del kw["adaptive"]
    kwj = {}
    for k in sorted({k for kw in kws for k in kw}):
        vals = [kw.get(k) for kw in kws]
        if all(v == vals[0] for v in vals) and (once or rng.random() < 0.3):
            kwj[k] = enc(vals[0])
        else:
            kwj[k] = enc(vals)
    bins = items[0] if uniform else {"axes": items}
    return {"bins": bins, "kw": kwj}, ["method:" + t for t in sorted(set(mtags))]


def _cols_distinct(rows):
    """at least two rows without NaN, and in every column all values well apart (quantile edges of values one ulp apart
    coincide after interpolation: such a call is legitimately refused)"""
    full = [[Fraction(v) for v in r] for r in rows if all(v is not None for v in r)]
    if len(full) < 2:
        return False
    for c in zip(*full):
        c = sorted(c)
        if any(b - a < Fraction(1, 64) for a, b in zip(c, c[1:])):
            return False
    return True


def _confident(names_per_axis, rows):
    full = [r for r in rows if all(v is not None for v in r)]
    if len(full) < 2 or any(len(set(c)) < 2 for c in zip(*full)):
        return False
    cols_distinct = _cols_distinct(rows)
    return all(m in METHODS_CONFIDENT or m in ("int", "edges") or (m == "quantile" and cols_distinct) for m in names_per_axis)


def _grid_rows(rng, d, names_per_axis, positive, integer, n, tie_share):
    """columns of equal extent on a dyadic grid; a coarse grid when bins of width one are asked for ('integer')"""
    step = 1.0 if (integer or "integer" in names_per_axis) else rng.choice([0.25, 0.5, 1.0, 2.0])
    if "integer" in names_per_axis:
        m = rng.choice([3, 4, 6])
    else:
        m = rng.choice([x for x in (4, 8, 16, 32, 48) if x + 1 >= n] if rng.random() < 0.8 else [4, 8])
    lo = float(rng.choice([1, 2, 4])) if positive else float(rng.choice([0, 0, -2, -5, 1]))
    hi = lo + m * step
    ties = rng.random() < tie_share or m + 1 < n
    cols = [_column(rng, n, lo, step, m, ties=ties) for _ in range(d)]
    return [[c[i] for c in cols] for i in range(n)], lo, hi, step, m


def gen_per_axis_args(rng):
    """per-axis lists of arguments (method names, bin_count, bin_width, range, q, right-edge flags) on equal data extents"""
    d = rng.choice([2, 2, 3, 3, 4])
    positive = rng.random() < 0.4
    pool = ["numpy", "numpy", "quantile", "quantile", "fixed_width", "fixed_width", "integer", "pretty", "human", "int", "int",
            "edges", "edges", "blocks", "scott", "freedman", "knuth"] + (["exponential", "exponential"] if positive else [])
    if d <= 3:
        pool += ["default", "sturges", "rice", "sqrt", "doane"]
    uniform = rng.random() < 0.45
    if uniform:
        names_per_axis = [rng.choice([p for p in pool if p != "edges"])] * d
    else:
        names_per_axis = [rng.choice(pool) for _ in range(d)]
    n = rng.choice([2, 3, 5, 8, 13, 20])
    rows, lo, hi, step, m = _grid_rows(rng, d, names_per_axis, positive, False, n, 0.25)
    for _ in range(rng.choice([0, 0, 1, 2])):          # a row one ulp inside the common maximum
        a = rng.randrange(d)
        rows.append([gen1.nxt(hi, False) if i == a else lo + rng.randint(0, m) * step for i in range(d)])
    if rng.random() < 0.25:
        a = rng.randrange(d)
        rows.append([gen1.NAN if i == a else lo + step for i in range(d)])
    rng.shuffle(rows)
    call, mtags = _method_call(rng, d, names_per_axis, lo, hi, uniform)
    entry, names = _names_entry(rng, d)
    tags = ["stream:per_axis_args", "d:%d" % d, "uniform_call" if uniform else "per_axis_bins"] + mtags
    op = {"op": "construct", "out": 0, "d": d, "axes": [None] * d, "call": call, "rows": gennd.enc_rows(rows), "names": names,
          "entry": entry}
    _weights(rng, len(rows), op, tags)
    if rng.random() < 0.1:
        op["dropna"] = False
    op["expect"] = "ok" if _confident(names_per_axis, rows) else "any"
    return {"kind": "histn", "ops": [op], "tags": tags}


def _layout(rng, integer_ok, f32_ok):
    kind = rng.choice(LAYOUTS_COLUMN_CONTIGUOUS * 3 + LAYOUTS_OTHER)
    lay = {"k": kind}
    r = rng.random()
    if integer_ok and r < 0.3:
        lay["dtype"] = rng.choice(["int64", "int64", "int32", "int16"])
    elif f32_ok and r < 0.4:
        lay["dtype"] = "float32"
    if rng.random() < 0.2:
        lay["ro"] = True
    return lay


def gen_layout(rng):
    """row-wise (n, d) input in every memory layout x every binning method name (or explicit bins) x weights x dropna"""
    d = rng.choice([2, 2, 3, 3, 4])
    tags = ["stream:layout", "d:%d" % d]
    mode = rng.choice(["method", "method", "method", "explicit", "same_edges"])
    if mode == "method":
        positive = rng.random() < 0.3
        integer = rng.random() < 0.45
        pool = (["quantile"] * 8 + METHODS_ANY_DATA + (METHODS_POSITIVE * 2 if positive else []))
        if d == 4:
            pool = [p for p in pool if p not in ("default", "sturges", "rice", "sqrt", "doane")]
        name = rng.choice(pool)
        r = rng.random()
        if r < 0.5:
            names_per_axis, uniform = [name] * d, True
        elif r < 0.75:           # the method on ONE axis of a per-axis list only
            names_per_axis = [rng.choice(["int", "edges"]) for _ in range(d)]
            names_per_axis[rng.randrange(d)] = name
            uniform = False
        else:
            names_per_axis = [rng.choice([name, name, "int", "edges", "numpy", "quantile"]) for _ in range(d)]
            if name not in names_per_axis:
                names_per_axis[rng.randrange(d)] = name
            uniform = False
        n = rng.choice([2, 3, 5, 8, 13, 20, 30])
        rows, lo, hi, step, m = _grid_rows(rng, d, names_per_axis, positive, integer, n, 0.15)
        has_nan = False
        if not integer and rng.random() < 0.2:
            a = rng.randrange(d)
            rows.append([gen1.NAN if i == a else lo + step for i in range(d)])
            rng.shuffle(rows)
            has_nan = True
        call, mtags = _method_call(rng, d, names_per_axis, lo, hi, uniform)
        tags += mtags + ["bins:method"]
        op = {"op": "construct", "out": 0, "d": d, "axes": [None] * d, "call": call, "rows": gennd.enc_rows(rows)}
        op["expect"] = "ok" if _confident(names_per_axis, rows) else "any"
        lay = _layout(rng, integer_ok=integer and not has_nan, f32_ok=True)
    else:
        if mode == "same_edges":
            sub = gen_same_edges(rng)
        else:
            axs = [gennd.axis_binning(rng, maxbins=4 if d < 4 else 3) for _ in range(d)]
            rows = rows_on_edges(rng, [a[1] for a in axs], rng.choice([1, 2, 4, 8, 15, 30]))
            sub = {"ops": [{"op": "construct", "out": 0, "d": d, "axes": [a[0] for a in axs], "rows": gennd.enc_rows(rows),
                            "expect": "ok"}], "tags": []}
        op = sub["ops"][0]
        d = op["d"]
        tags = ["stream:layout", "d:%d" % d, "bins:" + mode] + [t for t in sub["tags"] if t.startswith(("form:", "flags_differ", "on_last_edge"))]
        lay = _layout(rng, integer_ok=False, f32_ok=False)
    op["layout"] = lay
    tags.append("layout:" + lay["k"] + ("/" + lay["dtype"] if "dtype" in lay else "") + ("/ro" if lay.get("ro") else ""))
    op["entry"], op["names"] = _names_entry(rng, d)
    nrows = len(op["rows"])
    _weights(rng, nrows, op, tags)
    if op["weights"] is not None:
        op["wlayout"] = {"k": rng.choice(["C", "C", "step", "rev"])}
        if rng.random() < 0.25:
            op["wlayout"]["ro"] = True
    has_nan = any(x is None for r in op["rows"] for x in r)
    if rng.random() < (0.35 if not has_nan else 0.1):
        op["dropna"] = False
        tags.append("dropna:off")
    return {"kind": "histn", "ops": [op], "tags": tags}


# ------------------------------------------------------------------------ column-wise input with multi-dimensional columns
def _shapes_of(n):
    """every way of arranging n observations in an array of 2 or 3 dimensions"""
    two = [(m, n // m) for m in range(1, n + 1) if n % m == 0]
    three = [(a, b, (n // a) // b) for a in range(1, n + 1) if n % a == 0 for b in range(1, n // a + 1) if (n // a) % b == 0]
    return two, three


def _col_shape(rng, n):
    """(shape, tag): mostly a proper 2-D arrangement (both sides >= 2), sometimes 3-D, a single row / column, or 1-D"""
    if n == 0:
        return rng.choice([(0, 3), (2, 0), (0,)]), "empty"
    two, three = _shapes_of(n)
    proper2 = [sh for sh in two if min(sh) >= 2]
    proper3 = [sh for sh in three if sorted(sh)[1] >= 2]
    r = rng.random()
    if r < 0.07:
        return (n,), "1d"
    if r < 0.14:
        return rng.choice([(1, n), (n, 1)]), "2d_thin"
    if r < 0.32 and proper3:
        return rng.choice(proper3), "3d"
    if proper2:
        return rng.choice(proper2), "2d"
    return rng.choice(two), "2d_thin"


def _col_layout(rng, ndim, pool, integer_ok, f32_ok, list_ok=True):
    kinds = [k for k in pool if (k != "df" or ndim == 2) and (k != "list" or list_ok)]
    lay = {"k": rng.choice(kinds)}
    r = rng.random()
    if integer_ok and r < 0.2:
        lay["dtype"] = rng.choice(["int64", "int64", "int32", "int16"])
    elif f32_ok and r < 0.3:
        lay["dtype"] = "float32"
    if rng.random() < 0.15 and lay["k"] != "list":
        lay["ro"] = True
    return lay


def _columns_layouts(rng, op, d, shape, tags, f32_ok, list_ok=True):
    """the memory layout of every column, of the weights; dropna; what the generator vouches for (`expect`)"""
    rows = op["rows"]
    ndim = len(shape)
    int_ok = [all(v is not None and Fraction(v).denominator == 1 and abs(Fraction(v)) < 2 ** 14 for v in c) for c in zip(*rows)] \
        if rows else [False] * d
    pattern = rng.choice(["mixed", "mixed", "mixed", "same", "one_differs"])
    column_major = ["F", "T", "df", "Frev", "Frows", "allrev", "rev"]
    if pattern == "mixed":
        lays = [_col_layout(rng, ndim, COL_LAYOUTS + ["C", "F", "T"], int_ok[j], f32_ok, list_ok) for j in range(d)]
    elif pattern == "same":                 # all columns alike (and not C-ordered): the weights are what may differ
        first = _col_layout(rng, ndim, column_major, False, False, list_ok)
        lays = [dict(first) for _ in range(d)]
    else:                                   # all C-ordered but one
        lays = [{"k": "C"} for _ in range(d)]
        lays[rng.randrange(d)] = _col_layout(rng, ndim, column_major + ["colslice", "rowstep", "colrev"], False, f32_ok, list_ok)
    has_nan = any(v is None for r in rows for v in r)
    cols = {"shape": list(shape), "lays": lays}
    dropna = True
    if rng.random() < ((0.55 if op["weights"] is not None else 0.35) if not has_nan else 0.1):
        dropna = False
    expect = op.get("expect", "ok")
    if op["weights"] is not None:
        if rng.random() < (0.8 if dropna else 0.15):
            cols["wlay"] = {"flat": True, "k": rng.choice(["C", "C", "step", "rev"])}
        else:
            # (an empty nested list carries no element type: `[]` is float64 to numpy whatever the weights were meant to be)
            cols["wlay"] = _col_layout(rng, ndim, COL_LAYOUTS + ["C", "C", "F", "T"], False, False, list_ok=bool(rows))
            if dropna and ndim >= 2:
                tags.append("ndweights_dropna_on")
                if not EXPECT_ND_WEIGHTS_WITH_DROPNA:
                    expect = "any"
        if rng.random() < 0.15 and cols["wlay"]["k"] != "list":
            cols["wlay"]["ro"] = True
        tags.append("wlay:" + ("flat/" if cols["wlay"].get("flat") else "") + cols["wlay"]["k"])
    if not dropna:
        op["dropna"] = False
        tags.append("dropna:off")
    if has_nan:
        tags.append("nan")
    if d == 3 and ndim >= 2 and not EXPECT_H3_ND_COLUMNS:
        expect = "any"
    op["cols"] = cols
    op["expect"] = expect
    op["entry"] = "h2" if d == 2 else "h3cols"
    op["names"] = [f"n{i}" for i in range(d)]
    tags.append("collay:" + "+".join(l["k"] + ("/" + l["dtype"] if "dtype" in l else "") for l in lays))
    orders = {("C" if l["k"] in ("C", "list", "colslice", "rowstep") else "other") for l in lays}
    if len(orders) > 1 and ndim >= 2 and min(shape) >= 2:
        tags.append("orders_differ")


def gen_columns_nd(rng):
    """h2(x, y) / h3([x, y, z]) whose columns are arrays of one multi-dimensional shape lying differently in memory (C- /
    Fortran-ordered, transposed / strided / reversed views, DataFrame.values, nested lists), weights of that shape (or flat) in
    a layout of their own, dropna on / off, NaN present or not. Observation k is (x.flat[k], y.flat[k]) with weights.flat[k]."""
    d = 2 if rng.random() < 0.85 else 3
    tags = ["stream:columns_nd", "d:%d" % d]
    mode = rng.choice(["explicit", "explicit", "method"])
    if mode == "method":
        positive = rng.random() < 0.3
        integer = rng.random() < 0.4
        pool = ["numpy", "numpy", "quantile", "fixed_width", "integer", "int", "int", "edges", "edges", "human", "sqrt"] + \
            (["exponential"] if positive else [])
        uniform = rng.random() < 0.4
        names_per_axis = [rng.choice([p for p in pool if p != "edges"])] * d if uniform else [rng.choice(pool) for _ in range(d)]
        n = rng.choice([4, 6, 8, 9, 12, 12, 16, 18, 20, 24, 30])
        rows, lo, hi, step, m = _grid_rows(rng, d, names_per_axis, positive, integer, n, 0.15)
        if not integer and rng.random() < 0.2:
            a = rng.randrange(d)
            rows[rng.randrange(n)] = [gen1.NAN if i == a else lo + step for i in range(d)]
        call, mtags = _method_call(rng, d, names_per_axis, lo, hi, uniform)
        tags += mtags + ["bins:method"]
        op = {"op": "construct", "out": 0, "d": d, "axes": [None] * d, "call": call, "rows": gennd.enc_rows(rows)}
        op["expect"] = "ok" if _confident(names_per_axis, rows) else "any"
        f32_ok = True
    else:
        axs = [gennd.axis_binning(rng, maxbins=4) for _ in range(d)]
        n = rng.choice([0, 4, 4, 6, 6, 8, 9, 12, 12, 15, 16, 18, 20, 24, 27, 30])
        if rng.random() < 0.5:
            rows = rows_on_edges(rng, [a[1] for a in axs], n)
            rng.shuffle(rows)
            rows = rows[:n]
        else:
            rows = gennd.rows_for(rng, [a[1] for a in axs], n, nan_share=0.04)
        tags.append("bins:explicit")
        if any(gen1.is_consecutive_exact(a[1]) is False for a in axs):
            tags.append("gapped")
        op = {"op": "construct", "out": 0, "d": d, "axes": [a[0] for a in axs], "rows": gennd.enc_rows(rows), "expect": "ok"}
        f32_ok = False
    n = len(op["rows"])
    ws, wk = gen1.weights_for(rng, n, kinds=["none", "none", "int", "int", "dyadic", "dyadic", "zeros"])
    op["weights"] = None if ws is None else [rs(w) for w in ws]
    op["wkind"] = wk
    if ws is not None:
        tags.append("weighted")
    shape, stag = _col_shape(rng, n)
    tags.append("colshape:" + stag)
    _columns_layouts(rng, op, d, shape, tags, f32_ok, list_ok=(d == 2 and n > 0))
    return {"kind": "histn", "ops": [op], "tags": tags}


EXH_COL_SHAPE = (3, 4)
EXH_COL_X = [0.5, 0.25, 0.75, 1.0, 1.5, 1.25, 2.5, 2.0, 2.75, 3.5, 4.0, 4.5]       # cells 0,0,0,1,1,1,2,2,2,3,3 (closed), outside
EXH_COL_Y = [0.5, 1.0, 2.5, 0.0, 1.5, 3.0, 0.25, 1.25, 2.0, 0.75, 1.75, 3.5]       # cells 0,1,2,0,1,out,0,1,2,0,1,out
EXH_COL_W = [0.5, 1.0, 1.5, 2.0, 2.5, 3.0, 3.5, 4.0, 4.5, 5.0, 5.5, 6.0]
EXH_COL_WLAYS_QUICK = [None, {"k": "C"}, {"k": "F"}, {"k": "T"}, {"k": "list"}, {"flat": True, "k": "step"}]
EXH_COL_WLAYS = EXH_COL_WLAYS_QUICK + [{"k": "df"}, {"k": "allrev"}, {"k": "colslice"}, {"flat": True, "k": "C"}]


def case_columns(lx, ly, wl, dropna, nan_at=None):
    """the same twelve observations as two (3, 4) columns lying in memory as lx / ly, weights as wl (None: unweighted)"""
    xs, ys = list(EXH_COL_X), list(EXH_COL_Y)
    if nan_at is not None:
        xs[nan_at] = gen1.NAN
    rows = [[x, y] for x, y in zip(xs, ys)]
    axes = [gen1.binning_json([[0.0, 1.0], [1.0, 2.0], [2.0, 3.0], [3.0, 4.0]], ire=True, form="static_obj"),
            gen1.binning_json([[0.0, 1.0], [1.0, 2.0], [2.0, 3.0]], ire=False, form="static_obj")]
    op = {"op": "construct", "out": 0, "d": 2, "axes": axes, "rows": gennd.enc_rows(rows), "names": ["n0", "n1"], "entry": "h2",
          "weights": None, "wkind": None, "expect": "ok", "cols": {"shape": list(EXH_COL_SHAPE), "lays": [dict(lx), dict(ly)]}}
    if wl is not None:
        op["weights"] = [rs(w) for w in EXH_COL_W]
        op["wkind"] = "float64"
        op["cols"]["wlay"] = dict(wl)
        if dropna and not wl.get("flat") and not EXPECT_ND_WEIGHTS_WITH_DROPNA:
            op["expect"] = "any"
    if not dropna:
        op["dropna"] = False
    return {"kind": "histn", "ops": [op], "tags": ["exhaustive:columns_nd", "collay:%s+%s" % (lx["k"], ly["k"])]}


# ------------------------------------------------------------------------------------------------ exhaustive small scopes
def case_same_edges(d, flags, form):
    """d axes over the SAME bins [0, 1), [1, 2) declaring `flags`; rows on / one ulp beside the last edge of each axis in turn"""
    pairs = [[0.0, 1.0], [1.0, 2.0]]
    if form in ("objs_fixed", "fixed_kw"):
        axes = [gen1.fixed_json(1.0, 0, 2, 0.0, ire=f) for f in flags]
    else:
        axes = [gen1.binning_json(pairs, ire=f, form="numpy_obj" if form == "objs_numpy" else "static_obj") for f in flags]
    rows = [[0.5] * d, [2.0] * d, [1.5] * d, [2.5] + [0.5] * (d - 1)]
    for a in range(d):
        rows.append([2.0 if i == a else 0.5 for i in range(d)])
        rows.append([gen1.nxt(2.0, False) if i == a else 1.5 for i in range(d)])
        rows.append([gen1.nxt(2.0, True) if i == a else 0.5 for i in range(d)])
        rows.append([2.0 if i != a else 1.0 for i in range(d)])
    op = {"op": "construct", "out": 0, "d": d, "axes": axes, "rows": gennd.enc_rows(rows), "names": None, "entry": "h",
          "weights": None, "wkind": None, "expect": "ok"}
    item = {"k": "edges", "e": ["0", "1", "2"]}
    if form == "kw_single":
        op["call"] = {"bins": item, "kw": {"includes_right_edge": enc(list(flags))}}
    elif form == "kw_list":
        op["call"] = {"bins": {"axes": [item] * d}, "kw": {"includes_right_edge": enc(list(flags))}}
    elif form == "fixed_kw":
        op["call"] = {"bins": {"k": "name", "s": "fixed_width"},
                      "kw": {"bin_width": enc(1.0), "range": enc((0.0, 2.0)), "includes_right_edge": enc(list(flags))}}
    return {"kind": "histn", "ops": [op], "tags": ["exhaustive:flags", "form:" + form]}


EXH_COLUMNS = [[1, 9, 4, 7, 2, 8, 5, 3], [6, 2, 9, 1, 8, 3, 7, 4], [9, 5, 1, 3, 6, 2, 4, 8]]     # distinct values, extent 1..9 each
EXH_LAYOUTS = ([{"k": k} for k in LAYOUTS_COLUMN_CONTIGUOUS + LAYOUTS_OTHER]
               + [{"k": "F", "ro": True}, {"k": "T", "ro": True}, {"k": "F", "dtype": "int64"}, {"k": "T", "dtype": "int32"},
                  {"k": "Frows", "dtype": "int16"}, {"k": "F", "dtype": "float32"}, {"k": "C", "dtype": "int64"}])
EXH_KW = {"quantile": [{"bin_count": 2}, {"q": (0.0, 0.5, 1.0)}, {"bin_count": 3, "qrange": (0.0, 0.75)}], "numpy": [{"bin_count": 3}],
          "fixed_width": [{"bin_width": 4.0}], "exponential": [{"bin_count": 2}], "pretty": [{"bin_count": 3}], "human": [{"bin_count": 3}]}


def case_layout(lay, name, kw, one_axis, weighted):
    """the same eight rows (d = 3) in the given layout, binned by the named method on all axes / on the middle axis only"""
    rows = [[float(c[i]) for c in EXH_COLUMNS] for i in range(8)]
    if one_axis:
        bins = {"axes": [{"k": "int", "n": 2}, {"k": "name", "s": name}, {"k": "edges", "e": ["1", "5", "9"]}]}
        kwj = {k: enc([None, v, None]) for k, v in kw.items()}
    else:
        bins = {"k": "name", "s": name}
        kwj = {k: enc(v) for k, v in kw.items()}
    op = {"op": "construct", "out": 0, "d": 3, "axes": [None] * 3, "call": {"bins": bins, "kw": kwj}, "rows": gennd.enc_rows(rows),
          "names": None, "entry": "h", "layout": dict(lay), "weights": None, "wkind": None,
          "expect": "ok" if (name in METHODS_CONFIDENT or name == "quantile") else "any"}
    if weighted:
        op["weights"] = [rs(x) for x in [1, 0.5, 2, 1.5, 0.25, 3, 1, 2.5]]
        op["wkind"] = "float64"
        op["wlayout"] = {"k": "step"}
    return {"kind": "histn", "ops": [op], "tags": ["exhaustive:layout", "method:" + name]}


class C02(HistNProp):
    ID = "C02"
    N_QUICK = 740
    N_THOROUGH = 19000
    RULE = ("h / h2 / h3 calls with d = 2..4 explicit per-axis binnings (static right-closed, static right-open, fixed-width "
            "right-open, gapped, tiny gaps, 1-4 bins per axis, different counts per axis; as edges / pairs / binning objects) x "
            "rows (n = 0..30; coordinates on / one ulp beside every edge, in gaps, outside, NaN) x weights (absent, int, dyadic, "
            "all-equal non-unit, zeros, signed with every cell total >= 0) x row-wise, list, column-wise (h2, h3 lists) entry x axis names; "
            "stream same_edges: axes with element-wise identical bins of one class whose right-edge declaration / adaptivity "
            "differ per axis (objects, includes_right_edge=[..] with arrays of edges, 'fixed_width' with range and per-axis flag "
            "lists), rows exactly on / one ulp beside the last edge of each axis in turn; stream per_axis_args: per-axis lists "
            "of method names, ints, edges and keywords (bin_count, bin_width, range, q, qrange, includes_right_edge, adaptive) on "
            "columns of equal extent; stream layout: row-wise input C / F-ordered / transposed / strided / reversed / read-only / "
            "integer / float32 x every binning method name x weights (strided, read-only) x dropna; stream columns_nd: h2(x, y) / "
            "h3([x, y, z]) with columns of one multi-dimensional shape (2-D, 3-D, thin, 1-D, empty) each in a memory layout of its "
            "own (C, F, transposed, strided, reversed, DataFrame.values, nested lists, int / float32, read-only), weights of that "
            "shape or flat in a third layout, dropna on / off, NaN or not: observation k is (x.flat[k], y.flat[k]) with "
            "weights.flat[k]; exhaustively layout of x x layout of y x layout of the weights x dropna on twelve fixed "
            "observations; every case: the arrays handed "
            "over are bit-for-bit unchanged afterwards. non-trivial = at least one row inside a cell and one missed; distinct = op-list hash")
    FIELDS = {"bins", "shape", "freq", "err2", "missed", "total", "dtype", "names", "ndim"}

    def fields_for(self, case):
        return self.FIELDS

    # ------------------------------------------------------------------------------------------------ implementation / model
    def run_impl(self, case):
        log: list = []
        outs = [run_construct(op, log) for op in case["ops"]]
        return {"outs": outs, "log": log}

    def model_case(self, case, io):
        """the model knows explicit binnings only. A call that names methods is given to the model with the bins and the
        right-edge declarations the returned histogram reports (which bins a method chooses is C07's subject), except on the
        axes whose bins the specification fixes; a refused call of that kind has no model counterpart."""
        op = case["ops"][0]
        out = io["outs"][0]
        if op.get("cols") and op.get("expect") == "any" and out["ret"] != "ok":
            # (multi-dimensional weights with dropna on, h3 with multi-dimensional columns: whether the facade takes the call
            # is not pinned and the model, which sees rows and weights only, cannot say)
            return None
        if op.get("call") is None:
            return case
        if out["ret"] != "ok" or not out["regs"] or out["regs"][0] is None:
            return None
        snap = out["regs"][0]
        axes = []
        for a in range(op["d"]):
            spec = op["axes"][a]
            if spec is not None:
                axes.append(dict(spec, adaptive=False) if spec["t"] == "fixed" else spec)
                continue
            if not snap["bins"][a]:
                return None
            axes.append({"t": "static", "bins": snap["bins"][a], "ire": snap["_ire"][a], "form": "static_obj"})
        c = copy.deepcopy(case)
        c["ops"][0]["axes"] = axes
        del c["ops"][0]["call"]
        return c

    # ------------------------------------------------------------------------------------------------------------ generator
    def gen_case(self, rng, k, tier):
        r = rng.random()
        t = 0.0
        for on, share, gen in ((ENABLE_SAME_EDGES, SHARE_SAME_EDGES, gen_same_edges),
                               (ENABLE_PER_AXIS_ARGS, SHARE_PER_AXIS_ARGS, gen_per_axis_args),
                               (ENABLE_LAYOUT, SHARE_LAYOUT, gen_layout),
                               (ENABLE_COLUMNS_ND, SHARE_COLUMNS_ND, gen_columns_nd)):
            t += share
            if on and t - share <= r < t:
                return gen(rng)
        c = self.gen_classic(rng)
        c["tags"].append("stream:classic")
        return c

    def gen_classic(self, rng):
        d = rng.choice([2, 2, 2, 3, 3, 4])
        axes = [gennd.axis_binning(rng, maxbins=4 if d < 4 else 3) for _ in range(d)]
        n = rng.choice([0, 1, 2, 4, 8, 15, 30])
        rows = gennd.rows_for(rng, [a[1] for a in axes], n)
        ws, wk = gen1.weights_for(rng, n, kinds=["none", "none", "int", "dyadic", "equal", "zeros"])
        signed = False
        if n and rng.random() < 0.15:
            # signed weights (signal minus sideband): some rows are entered a second time with a negative weight that does not
            # outweigh the first entry, so every cell content stays >= 0 while squared errors add up
            signed = True
            kind = rng.choice(["int64", "int64", "float64", "int32"])
            pool = rng.choice([[1], [1], [1, 1, 2, 3], [1, 2]])       # plain +1 / -1 weights are the commonest signed form
            base = [rng.choice(pool) for _ in range(n)]
            extra_rows, extra_ws = [], []
            for i in range(n):
                if rng.random() < 0.5:
                    extra_rows.append(list(rows[i]))
                    extra_ws.append(-rng.randint(1, base[i]))
            rows = rows + extra_rows
            ws = base + extra_ws
            order = list(range(len(rows))); rng.shuffle(order)
            rows, ws = [rows[i] for i in order], [ws[i] for i in order]
            if kind == "float64":
                ws = [w / 2 for w in ws]
            wk = kind
            n = len(rows)
        entry = rng.choice(["h", "h", "list"] + (["h2"] if d == 2 else []) + (["h3", "h3cols"] if d == 3 else []))
        names = None
        if rng.random() < 0.4 or entry in ("h2", "h3cols"):
            # (h2 / h3 with bare columns and no names record the names as (None, None): not part of this property)
            names = [f"n{i}" for i in range(d)]
        tags = ["d:%d" % d, "entry:" + entry] + (["signed_weights"] if signed else [])
        if any(gen1.is_consecutive_exact(a[1]) is False for a in axes):
            tags.append("gapped")
        op = {"op": "construct", "out": 0, "axes": [a[0] for a in axes], "rows": gennd.enc_rows(rows),
              "weights": None if ws is None else [rs(w) for w in ws], "wkind": wk, "names": names, "entry": entry}
        if rng.random() < 0.1:
            op["dropna"] = False
        if rng.random() < 0.08 and ws is not None:
            op["weights"] = op["weights"] + ["1"]
            tags.append("malformed:wshape")
        return {"kind": "histn", "ops": [op], "tags": tags}

    def exhaustive_cases(self, tier):
        """(1) every vector of right-edge declarations over identical edges (d = 2, 3) x every way of stating it; (2) every
        memory layout of the row-wise input x every binning method name (thorough: also on one axis only, and weighted)"""
        out = []
        if ENABLE_SAME_EDGES:
            for d in (2, 3):
                for flags in itertools.product([True, False], repeat=d):
                    for form in ("objs_static", "objs_numpy", "objs_fixed", "kw_list", "kw_single", "fixed_kw"):
                        out.append(case_same_edges(d, flags, form))
        if ENABLE_LAYOUT:
            for lay in EXH_LAYOUTS:
                for name in METHODS_ANY_DATA + METHODS_POSITIVE:
                    for kw in EXH_KW.get(name, [{}]):
                        for one_axis in ([False, True] if tier == "thorough" else [False]):
                            for weighted in ([False, True] if tier == "thorough" else [False]):
                                out.append(case_layout(lay, name, kw, one_axis, weighted))
        if ENABLE_COLUMNS_ND:
            kinds = COL_LAYOUTS if tier == "thorough" else COL_LAYOUTS_CORE
            for lx in kinds:
                for ly in kinds:
                    for wl in (EXH_COL_WLAYS if tier == "thorough" else EXH_COL_WLAYS_QUICK):
                        for dropna in (True, False):
                            out.append(case_columns({"k": lx}, {"k": ly}, wl, dropna))
                    if tier == "thorough":
                        for wl in (None, {"flat": True, "k": "rev"}, {"k": "F"}):
                            for dropna in (True, False):
                                out.append(case_columns({"k": lx}, {"k": ly}, wl, dropna, nan_at=5))
            for lx, ly in (("C", "F"), ("F", "C"), ("T", "df"), ("F", "F")):            # other element types / read-only
                for extra in ({"dtype": "float32"}, {"ro": True}):
                    out.append(case_columns(dict({"k": lx}, **extra), {"k": ly}, {"k": "C"}, False))
                    out.append(case_columns({"k": lx}, dict({"k": ly}, **extra), None, True))
        return out

    # ------------------------------------------------------------------------------------------- shrinking / neighbourhood
    @staticmethod
    def _recheck(case):
        """what the generator vouched for must still be true of a reduced case: a call naming data-dependent methods needs at
        least two rows without NaN and two different values in every column, else its refusal is legitimate"""
        op = case["ops"][0]
        if op.get("call") is not None and any(x is None for x in op["axes"]) and op.get("expect") == "ok":
            if not _cols_distinct(op["rows"]):
                op["expect"] = "any"
        return case

    def _shrink_columns(self, case):
        """a multi-dimensional column-wise case stays rectangular: drop the last slab along one axis (rows and weights with
        it), drop the weights, simplify one layout at a time"""
        op = case["ops"][0]
        cols = op["cols"]
        shape = [int(x) for x in cols["shape"]]
        n = len(op["rows"])
        weighted = op.get("weights") is not None
        if n and weighted and len(op["weights"]) != n:
            return
        idx = np.arange(n).reshape(shape)
        for ax in range(len(shape)):
            for cut in ([shape[ax] - 1, 0] if shape[ax] > 1 else []):
                keep = np.delete(idx, cut, axis=ax).reshape(-1).tolist()
                c = copy.deepcopy(case)
                o = c["ops"][0]
                o["rows"] = [op["rows"][i] for i in keep]
                if weighted:
                    o["weights"] = [op["weights"][i] for i in keep]
                o["cols"]["shape"][ax] = shape[ax] - 1
                yield self._recheck(c)
        if weighted:
            c = copy.deepcopy(case)
            c["ops"][0]["weights"] = None; c["ops"][0]["wkind"] = None; c["ops"][0]["cols"].pop("wlay", None)
            yield c
        where = [("lays", j) for j in range(len(cols["lays"]))] + ([("wlay", None)] if cols.get("wlay") else [])
        for key, j in where:
            lay = cols[key] if j is None else cols[key][j]

            def put(**changes):
                c = copy.deepcopy(case)
                tgt = c["ops"][0]["cols"][key] if j is None else c["ops"][0]["cols"][key][j]
                for k, v in changes.items():
                    if v is None:
                        tgt.pop(k, None)
                    else:
                        tgt[k] = v
                return c
            if lay.get("ro"):
                yield put(ro=None)
            if "dtype" in lay:
                yield put(dtype=None)
            if lay.get("flat"):
                if lay.get("k", "C") != "C":
                    yield put(k="C")
            elif lay.get("k", "C") not in ("C", "F"):
                yield put(k="C")
                yield put(k="F")
            elif lay.get("k", "C") == "F" and sum(1 for l in cols["lays"] if l.get("k", "C") != "C") > 1:
                yield put(k="C")

    def shrink_candidates(self, case):
        op = case["ops"][0]
        if op.get("cols"):
            yield from self._shrink_columns(case)
            return
        for j in range(len(op["rows"])):
            c = copy.deepcopy(case)
            del c["ops"][0]["rows"][j]
            if c["ops"][0]["weights"] is not None and len(c["ops"][0]["weights"]) > j:
                del c["ops"][0]["weights"][j]
            yield self._recheck(c)
        if op.get("weights") is not None and len(op["weights"]) == len(op["rows"]):
            c = copy.deepcopy(case)
            c["ops"][0]["weights"] = None; c["ops"][0]["wkind"] = None; c["ops"][0].pop("wlayout", None)
            yield c
        for key in ("wlayout", "layout"):
            lay = op.get(key)
            if lay and lay.get("ro"):
                c = copy.deepcopy(case); del c["ops"][0][key]["ro"]; yield c
            if lay and "dtype" in lay:
                c = copy.deepcopy(case); del c["ops"][0][key]["dtype"]; yield c
            if lay and lay.get("k", "C") not in ("C", "F"):
                for k2 in (["C", "F"] if key == "layout" else ["C"]):
                    c = copy.deepcopy(case); c["ops"][0][key]["k"] = k2; yield c

    def neighbours(self, case):
        """around a case on which model and implementation disagree: the same call with each axis' right-edge declaration
        flipped, with rows put exactly on / beside the last edge of each axis in turn, with all axes sharing the bins of axis
        0, and in the column-contiguous layouts"""
        op = case["ops"][0]
        d = int(op["d"]) if "d" in op else len(op["axes"])
        if op.get("cols"):
            # the same observations with the columns (and weights) lying in memory in every combination of C / F / transposed
            ndim = len(op["cols"]["shape"])
            flat = (op["cols"].get("wlay") or {}).get("flat")
            for kinds in itertools.product(["C", "F", "T"], repeat=d):
                for wk in ([None] if (op.get("weights") is None or flat) else ["C", "F"]):
                    c = copy.deepcopy(case)
                    c["ops"][0]["cols"]["lays"] = [{"k": k} for k in kinds]
                    if wk is not None:
                        c["ops"][0]["cols"]["wlay"] = {"k": wk}
                    yield c
            return
        specs = op.get("axes") or []
        if op.get("call") is None and all(s is not None for s in specs):
            pairs = [[(float(l), float(r)) for l, r in _spec_pairs(s)] for s in specs]
            extra = []
            for a in range(d):
                last = pairs[a][-1][1]
                for x in (last, gen1.nxt(last, False), gen1.nxt(last, True)):
                    extra.append([x if i == a else (pairs[i][0][0] + pairs[i][0][1]) / 2 for i in range(d)])
            for variant in range(2 * d + 2):
                c = copy.deepcopy(case)
                o = c["ops"][0]
                o["rows"] = o["rows"] + gennd.enc_rows(extra)
                if o.get("weights") is not None:
                    o["weights"] = o["weights"] + ["1"] * len(extra)
                if variant < d:
                    o["axes"][variant]["ire"] = not _spec_ire(o["axes"][variant])
                    if o["axes"][variant].get("adaptive"):
                        o["axes"][variant]["adaptive"] = False
                elif variant < 2 * d:
                    a = variant - d
                    for i in range(d):              # every axis gets the bins of axis a; the declarations alternate
                        o["axes"][i] = dict(copy.deepcopy(specs[a]), ire=(i % 2 == 0), adaptive=False)
                        if o["axes"][i]["t"] == "static":
                            o["axes"][i]["form"] = "static_obj"
                    rows2 = []
                    for i in range(d):
                        last = pairs[a][-1][1]
                        rows2.append([last if j == i else (pairs[a][0][0] + pairs[a][0][1]) / 2 for j in range(d)])
                    o["rows"] = gennd.enc_rows(rows2) + [r for r in o["rows"] if all(v is not None for v in r)][:4]
                    if o.get("weights") is not None:
                        o["weights"] = ["1"] * len(o["rows"])
                    o["dropna"] = True
                elif variant == 2 * d:
                    o["layout"] = {"k": "F"}
                else:
                    o["layout"] = {"k": "T"}
                    o["entry"] = "h"
                yield c
        else:
            for k2 in LAYOUTS_COLUMN_CONTIGUOUS + ["C"]:
                c = copy.deepcopy(case)
                c["ops"][0]["layout"] = {"k": k2}
                c["ops"][0]["entry"] = "h"
                yield c

    # --------------------------------------------------------------------------------------------------------------- oracle
    def oracle(self, case, io):
        op = case["ops"][0]
        out = io["outs"][0]
        fails = self._oracle_counts(op, out, io)
        if fails and op.get("cols"):
            cols = op["cols"]
            note = (f" [column-wise input: {len(cols['lays'])} columns of shape {tuple(cols['shape'])}, memory layouts "
                    f"{[l.get('k', 'C') + ('/' + l['dtype'] if 'dtype' in l else '') for l in cols['lays']]}"
                    + (f", weights {'flat ' if cols['wlay'].get('flat') else ''}{cols['wlay'].get('k', 'C')}" if cols.get("wlay") else "")
                    + f", dropna={op.get('dropna', True)}; observation k is (x.flat[k], y.flat[k], ...) with weights.flat[k] = "
                      "row k of `rows`]")
            fails = [f + note for f in fails]
        inp = out.get("_input")
        if inp is not None:
            # the rows the caller passed are the rows counted -- and still the caller's rows afterwards
            if not inp["data_intact"]:
                fails.append("input_modified: the data array handed to the facade was modified by the call: rows afterwards "
                             f"{inp.get('rows_after')}, rows passed {op['rows']}")
            if not inp["weights_intact"]:
                fails.append("weights_modified: the weights array handed to the facade was modified by the call: afterwards "
                             f"{inp.get('weights_after')}, passed {op['weights']}")
        return fails

    def _oracle_counts(self, op, out, io):
        fails = []
        rows, ws = op["rows"], op["weights"]
        specs = op.get("axes") or [None] * int(op.get("d", 0))
        has_nan = any(v is None for r in rows for v in r)
        must_refuse = (ws is not None and len(ws) != len(rows)) or (has_nan and not op.get("dropna", True))
        if not must_refuse and ws is not None and any(Fraction(w) < 0 for w in ws):
            # signed weights: a cell whose total would be negative is refused by physt (C18's clause, not this property's)
            try:
                ax0 = [([(Fraction(l), Fraction(r)) for l, r in b["bins"]], b.get("ire", True)) for b in specs
                       if b is not None and b["t"] == "static"]
                if len(ax0) == len(specs):
                    cells0, _ = gennd.brute_cells(ax0, rows, ws)
                    if any(f < 0 for f, _ in cells0.values()):
                        return []
                elif out["ret"] == "REFUSED":
                    return []
            except Exception:
                return []
        if out["ret"] == "REFUSED":
            if not must_refuse and op.get("expect", "ok") == "ok":
                fails.append("refused_valid: a valid call was refused: " + "; ".join(io["log"][:2]))
            return fails
        if must_refuse:
            return ["accepted_invalid: invalid weights / NaN specification accepted"]
        snap = out["regs"][0]
        declared = snap.get("_ire")
        if len(snap["bins"]) != len(specs):
            return [f"ndim: {len(snap['bins'])} axes reported, {len(specs)} columns given"]
        axes = []
        for a, (b, rep) in enumerate(zip(specs, snap["bins"])):
            pairs = [(Fraction(l), Fraction(r)) for l, r in rep]
            ire = declared[a] if declared is not None else _spec_ire(b)
            if b is not None:
                if b["t"] == "static" and _spec_pairs(b) != pairs:
                    fails.append("bins_changed: reported bins differ from the specification")
                if (b["t"] == "fixed" and op.get("call") is not None and Fraction(b["w"]).denominator <= 8
                        and Fraction(b["shift"]).denominator <= 16 and _spec_pairs(b) != pairs):
                    # (dyadic widths: the edges (tmin + i) * w are exact in floating point too)
                    fails.append(f"bins_changed: axis {a}: reported bins {rep} differ from the requested width / range")
                if ire != _spec_ire(b):
                    fails.append(f"flag_changed: axis {a} declares includes_right_edge={ire}, the specification says {_spec_ire(b)}")
            axes.append((pairs, ire))
        shape = [len(a[0]) for a in axes]
        if snap["shape"] != shape:
            return fails + [f"shape: {snap['shape']} != {shape}"]
        cells, tot = gennd.brute_cells(axes, rows, ws)
        for pos, idx in enumerate(gennd.unravel(shape)):
            f, e = cells.get(idx, (Fraction(0), Fraction(0)))
            if Fraction(snap["freq"][pos]) != f:
                fails.append(f"content: cell {idx} holds {snap['freq'][pos]}, the rows give {f}" + self._where(axes, idx))
                break
            if Fraction(snap["err2"][pos]) != e:
                fails.append(f"errors2: cell {idx} has {snap['err2'][pos]}, sum of squared weights is {e}")
                break
        inside = sum((f for f, _ in cells.values()), Fraction(0))
        if snap["missed"] is None or Fraction(snap["missed"]) != tot - inside:
            fails.append(f"missed: reported {snap['missed']}, weight outside every cell is {tot - inside}")
        if op.get("names") is not None and snap["names"] != op["names"]:
            fails.append(f"names: {snap['names']} != {op['names']}")
        if snap["_freq_dtype"] != snap["dtype"] or snap["_err2_dtype"] != snap["dtype"]:
            fails.append("dtype: reported dtype differs from the arrays'")
        return fails

    @staticmethod
    def _where(axes, idx):
        parts = []
        for a, i in enumerate(idx):
            (l, r), (pairs, ire) = axes[a][0][i], axes[a]
            closed = ire and i == len(pairs) - 1
            parts.append(f"axis {a}: [{l}, {r}{']' if closed else ')'}")
        return " (" + "; ".join(parts) + "; last bins closed on the axes declaring includes_right_edge = " + str([x[1] for x in axes]) + ")"

    def nontrivial(self, case, io):
        out = io["outs"][0]
        if out["ret"] != "ok":
            return False
        s = out["regs"][0]
        return any(Fraction(x) != 0 for x in s["freq"]) and s["missed"] not in (None, "0")


PROP = C02()

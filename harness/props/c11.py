"""C11 — indexing and slicing follow numpy semantics on the bin grid (1-D here; ND in c11nd ops)."""
from __future__ import annotations

from fractions import Fraction

import numpy as np

from .. import gen1
from ..core import rs
from .base1 import Hist1Prop
from .c10 import rand_hist_op


class C11(Hist1Prop):
    ID = "C11"
    N_QUICK = 500
    N_THOROUGH = 12000
    RULE = ("1-D histograms with 1-8 bins (gaps allowed, fixed-width binnings too), arbitrary contents / errors / under- / "
            "overflow, keep_missed on/off x index expression: int (incl. negative, out of range), slice with start/stop in "
            "[-n-2, n+2] or None (and steps 1, 2, -1, 0: refused), boolean mask (right / wrong length), integer index array or "
            "list (negative, unsorted, duplicated, out of range). Thorough tier enumerates all slices for n <= 5 exhaustively. "
            "non-trivial = the selection is a proper non-empty subset; distinct = hash of the op list")
    FIELDS = {"bins", "freq", "err2", "under", "over", "total", "dtype", "keep"}

    def gen_case(self, rng, k, tier):
        if rng.random() < 0.45:
            from . import nd_parts
            return nd_parts.c11_gen(rng)
        pairs, t = gen1.rising_bins(rng)
        init = rand_hist_op(rng, pairs)
        if rng.random() < 0.15:
            w = rng.choice([1.0, 0.5, 0.1])
            init["binning"] = gen1.fixed_json(w, rng.randint(-3, 3), len(pairs))
        n = len(pairs)
        kind = rng.choice(["int", "slice", "slice", "slice", "mask", "array", "array", "badslice"])
        if kind == "int":
            op = {"op": "item", "h": 0, "i": rng.randint(-n - 1, n)}
        elif kind == "slice":
            c = [None] + list(range(-n - 2, n + 3))
            op = {"op": "slice", "h": 0, "start": rng.choice(c), "stop": rng.choice(c), "out": 1}
        elif kind == "badslice":
            op = {"op": "invalid", "what": "slice_step", "h": 0, "step": rng.choice([1, 2, -1, 0]),
                  "start": rng.choice([None, 0, 1]), "stop": rng.choice([None, n, -1])}
        elif kind == "mask":
            m = n if rng.random() < 0.8 else n + rng.choice([-1, 1])
            op = {"op": "mask", "h": 0, "mask": [rng.random() < 0.5 for _ in range(max(m, 0))], "out": 1}
        else:
            m = rng.randint(0, n + 1)
            lo, hi = (-n, n - 1) if rng.random() < 0.85 else (-n - 2, n + 1)
            op = {"op": "index_array", "h": 0, "idx": [rng.randint(lo, hi) for _ in range(m)], "out": 1,
                  "as_list": rng.random() < 0.3}
            if m == 0:
                op["as_list"] = False
        return {"kind": "hist1", "ops": [init, op], "tags": ["kind:" + kind]}

    def exhaustive_cases(self, tier):
        if tier != "thorough":
            return
        import random
        rng = random.Random(11)
        for n in range(1, 6):
            pairs = [[float(i), float(i + 1)] for i in range(n)]
            init = rand_hist_op(rng, pairs, keep=True)
            c = [None] + list(range(-n - 2, n + 3))
            for a in c:
                for b in c:
                    yield {"kind": "hist1", "ops": [init, {"op": "slice", "h": 0, "start": a, "stop": b, "out": 1}],
                           "tags": ["exhaustive_slices"]}

    def run_impl(self, case):
        from .. import impl1
        op = case["ops"][1]
        if op["op"] != "invalid" or case.get("kind") == "histn":
            return super().run_impl(case)
        s = impl1.Store()
        log = []
        outs = [{"ret": impl1.step(s, case["ops"][0], log), "regs": [impl1.snap1(h) for h in s.regs]}]
        h = s.get(0)
        try:
            h[slice(op["start"], op["stop"], op["step"])]
            ret = "accepted"
        except Exception as e:
            log.append(f"{type(e).__name__}: {e}"[:200])
            ret = "REFUSED"
        outs.append({"ret": ret, "regs": [impl1.snap1(h) for h in s.regs]})
        return {"outs": outs, "log": log}

    def shrink_candidates(self, case):
        return []

    def oracle(self, case, io):
        if case.get("kind") == "histn":
            from . import nd_parts
            return nd_parts.c11_oracle(case, io)
        outs, ops = io["outs"], case["ops"]
        fails = []
        if outs[0]["ret"] == "REFUSED":
            return ["refused_valid: setup refused: " + "; ".join(io["log"][:2])]
        op = ops[1]
        src = outs[0]["regs"][0]
        n = len(src["bins"])
        if outs[1]["regs"][0] != src:
            fails.append("source_modified: indexing modified the source histogram")
        from ..impl1 import edges_consistent
        for i, r in enumerate(outs[1]["regs"]):
            if r is not None and not edges_consistent(r["bins"], r.get("_numpy_bins")):
                fails.append(f"edges_differ: register {i}: numpy_bins {r['_numpy_bins']} are not the edges of its bins {r['bins']}")
        ret = outs[1]["ret"]
        arr = np.arange(n)
        if op["op"] == "invalid":
            # an explicit step: reversed / strided slices are refused (step 1 is also refused by physt; only
            # "reversed slices are refused" is pinned by the property)
            if op["step"] is not None and op["step"] < 0 and ret != "REFUSED":
                fails.append("accepted_reversed: a reversed slice was accepted")
            return fails
        if op["op"] == "item":
            i = op["i"]
            if -n <= i < n:
                if ret == "REFUSED":
                    fails.append(f"refused_valid: h[{i}] refused")
                elif ret["bin"] != src["bins"][i] or Fraction(ret["value"]) != Fraction(src["freq"][i]):
                    fails.append(f"item: h[{i}] = {ret}, expected {src['bins'][i]}, {src['freq'][i]}")
            elif ret != "REFUSED":
                fails.append(f"accepted_invalid: h[{i}] out of range accepted")
            return fails
        if op["op"] == "slice":
            sel = list(arr[slice(op["start"], op["stop"])])
        elif op["op"] == "mask":
            if len(op["mask"]) != n:
                if ret != "REFUSED":
                    fails.append("accepted_invalid: mask of the wrong size accepted")
                return fails
            sel = [i for i in range(n) if op["mask"][i]]
        else:
            if any(not (-n <= i < n) for i in op["idx"]):
                if ret != "REFUSED":
                    fails.append("accepted_invalid: out-of-range index array accepted")
                return fails
            sel = sorted({i % n for i in op["idx"]}) if n else []
        if ret == "REFUSED":
            fails.append(f"refused_valid: {op} refused: " + "; ".join(io["log"][:2]))
            return fails
        res = outs[1]["regs"][1]
        if res["bins"] != [src["bins"][i] for i in sel]:
            fails.append(f"sel_bins: bins {res['bins']} are not bins {sel} of the source")
        if [Fraction(x) for x in res["freq"]] != [Fraction(src["freq"][i]) for i in sel]:
            fails.append(f"sel_content: contents {res['freq']} are not contents {sel} of {src['freq']}")
        if [Fraction(x) for x in res["err2"]] != [Fraction(src["err2"][i]) for i in sel]:
            fails.append(f"sel_err2: squared errors {res['err2']} are not entries {sel} of {src['err2']}")
        if res["dtype"] != src["dtype"]:
            fails.append("sel_dtype: dtype changed")
        if op["op"] == "slice":
            if sel and src["keep"] and src["under"] is not None and src["over"] is not None:
                left = sum((Fraction(src["freq"][i]) for i in range(0, sel[0])), Fraction(0))
                right = sum((Fraction(src["freq"][i]) for i in range(sel[-1] + 1, n)), Fraction(0))
                if res["under"] is None or Fraction(res["under"]) != Fraction(src["under"]) + left:
                    fails.append(f"slice_underflow: underflow {res['under']}, expected {Fraction(src['under']) + left}")
                if res["over"] is None or Fraction(res["over"]) != Fraction(src["over"]) + right:
                    fails.append(f"slice_overflow: overflow {res['over']}, expected {Fraction(src['over']) + right}")
                if res["under"] is not None and res["over"] is not None:
                    if Fraction(res["total"]) + Fraction(res["under"]) + Fraction(res["over"]) != \
                       Fraction(src["total"]) + Fraction(src["under"]) + Fraction(src["over"]):
                        fails.append("slice_conservation: total + underflow + overflow not conserved")
        else:
            if res["under"] is not None or res["over"] is not None:
                fails.append(f"noncontiguous_known: under/overflow read {res['under']}/{res['over']} after a mask / index-array selection")
        return fails[:6]

    def nontrivial(self, case, io):
        o = io["outs"]
        if case.get("kind") == "histn":
            return o[1]["ret"] == "ok" and len(o[1]["regs"]) > 0 and o[1]["regs"][-1] is not None and o[1]["regs"][-1]["shape"] != o[0]["regs"][0]["shape"]
        try:
            return o[1]["ret"] == "ok" and 0 < len(o[1]["regs"][1]["bins"]) < len(o[0]["regs"][0]["bins"])
        except Exception:
            return False


PROP = C11()

"""C11 — indexing and slicing follow numpy semantics on the bin grid (1-D here; ND in c11nd ops)."""
from __future__ import annotations

import copy
from fractions import Fraction

import numpy as np

from .. import gen1
from ..core import rs
from .base1 import Hist1Prop
from .c10 import rand_hist_op


class C11(Hist1Prop):
    ID = "C11"
    N_QUICK = 560
    N_THOROUGH = 13500
    RULE = ("1-D histograms with 1-8 bins (gaps allowed, fixed-width binnings too), arbitrary contents / errors / under- / "
            "overflow, keep_missed on/off x index expression: int (incl. negative, out of range), slice with start/stop in "
            "[-n-2, n+2] or None (and steps 1, 2, -1, 0: refused), boolean mask (right / wrong length), integer index array or "
            "list (negative, unsorted, duplicated, out of range). Thorough tier enumerates all slices for n <= 5 exhaustively. "
            "History stream (every 8th case, oracle only): one 1-D / 2-3-d histogram object (adaptive fixed-width, fixed-width "
            "made adaptive later, static) is indexed (slice / mask / index array / int / reversed slice; per-axis ints and "
            "slices, select, too many indices), then changed in place keeping its identity (fill / fill_n inside, left and "
            "right of the range, merge_bins, *=, /=, += / -= another (adaptive) histogram, set_dtype, set_adaptive, "
            "normalize), then indexed again with the same and with other expressions (sizes follow the current bin count), "
            "1-3 rounds: every selection is compared with numpy indexing of the bins / contents / errors the object has at "
            "that moment. For a full tuple of integers on an N-d histogram (both streams) the returned edges are compared with the "
            "bin's edges as well. After-the-selection stream (every 8th case; model too when the history stays in the driver's op "
            "language, oracle only otherwise): a 1-D / 2-4-d source with at least one adaptive fixed-width axis (adaptive from the "
            "start, switched on later for the whole histogram or axis by axis, mixed with static axes; also a projection or "
            "transposition of such a histogram, and Polar / Cylindrical / Spherical(-Surface) histograms and their Radial / "
            "Azimuthal projections) -> a chain of 1-3 selections (integer, slice, tuple of integers / slices / `:`, `:`-only "
            "tuples, select(axis | name), Ellipsis, mask, index array / list; slice of a slice, slice then integer, several "
            "axes at once) -> in-place calls on a result and / or on a source, each repeated on an independently built equal "
            "histogram (rebuilt from the public arrays, or parsed from JSON): fill / fill_n beyond each axis in turn (adaptive "
            "axes grow, also those the last selection did not slice), on the last edge, inside; merge_bins, *=, set_dtype, "
            "normalize, set_adaptive in place.  After every call: every other live histogram reads exactly as before (bins of "
            "every axis, contents, errors2, missed, shape, dtype, names, meta), the changed one is well formed and equals its "
            "independent twin after the same call; every selection of the chain is judged like a single one. "
            "non-trivial = the selection is a proper non-empty subset (history: after a change; after-stream: a selection "
            "succeeded and an in-place call changed its target); distinct = hash of the op list")
    FIELDS = {"bins", "freq", "err2", "under", "over", "total", "dtype", "keep"}

    def gen_case(self, rng, k, tier):
        if k % 8 == 3:
            return history_gen_nd(rng) if rng.random() < 0.35 else history_gen_1d(rng)
        if k % 8 == 6:
            return after_gen_nd(rng) if rng.random() < 0.7 else after_gen_1d(rng)
        if rng.random() < 0.45:
            from . import nd_parts
            return nd_parts.c11_gen(rng)
        pairs, t = gen1.rising_bins(rng)
        init = rand_hist_op(rng, pairs)
        if rng.random() < 0.15:
            w = rng.choice([1.0, 0.5, 0.1])
            init["binning"] = gen1.fixed_json(w, rng.randint(-3, 3), len(pairs))
        n = len(pairs)
        kind = rng.choice(["int", "slice", "slice", "slice", "mask", "array", "array", "badslice"])
        if kind == "int":
            op = {"op": "item", "h": 0, "i": rng.randint(-n - 1, n)}
            if rng.random() < 0.4:
                op["ik"] = rng.choice(["int64", "int32", "intp", "int16"])     # a numpy integer is an integer index too
        elif kind == "slice":
            c = [None] + list(range(-n - 2, n + 3))
            op = {"op": "slice", "h": 0, "start": rng.choice(c), "stop": rng.choice(c), "out": 1}
        elif kind == "badslice":
            op = {"op": "invalid", "what": "slice_step", "h": 0, "step": rng.choice([1, 2, -1, 0]),
                  "start": rng.choice([None, 0, 1]), "stop": rng.choice([None, n, -1])}
        elif kind == "mask":
            m = n if rng.random() < 0.8 else n + rng.choice([-1, 1])
            op = {"op": "mask", "h": 0, "mask": [rng.random() < 0.5 for _ in range(max(m, 0))], "out": 1}
        else:
            m = rng.randint(0, n + 1)
            lo, hi = (-n, n - 1) if rng.random() < 0.85 else (-n - 2, n + 1)
            op = {"op": "index_array", "h": 0, "idx": [rng.randint(lo, hi) for _ in range(m)], "out": 1,
                  "as_list": rng.random() < 0.3}
            if m == 0:
                op["as_list"] = False
        return {"kind": "hist1", "ops": [init, op], "tags": ["kind:" + kind]}

    def exhaustive_cases(self, tier):
        if tier != "thorough":
            return
        import random
        rng = random.Random(11)
        for n in range(1, 6):
            pairs = [[float(i), float(i + 1)] for i in range(n)]
            init = rand_hist_op(rng, pairs, keep=True)
            c = [None] + list(range(-n - 2, n + 3))
            for a in c:
                for b in c:
                    yield {"kind": "hist1", "ops": [init, {"op": "slice", "h": 0, "start": a, "stop": b, "out": 1}],
                           "tags": ["exhaustive_slices"]}

    def run_impl(self, case):
        from .. import impl1
        if case.get("history"):
            return history_run(case)
        if case.get("after"):
            return after_run(case)
        op = case["ops"][1]
        if op["op"] != "invalid" or case.get("kind") == "histn":
            io = super().run_impl(case)
            if case.get("kind") == "histn" and isinstance(io["outs"][1]["ret"], dict):
                # a full tuple of integers: the generic N-d runner reports the content only; the edges of the bin are read
                # here, from the same call on an identically built histogram (a private key: not part of the model diff)
                from .. import implnd
                s = impl1.Store()
                implnd.step(s, case["ops"][0], [])
                io["outs"][1]["ret"]["_bin"] = nd_item_bin(s.get(op["h"]), op["index"])
            return io
        s = impl1.Store()
        log = []
        outs = [{"ret": impl1.step(s, case["ops"][0], log), "regs": [impl1.snap1(h) for h in s.regs]}]
        h = s.get(0)
        try:
            h[slice(op["start"], op["stop"], op["step"])]
            ret = "accepted"
        except Exception as e:
            log.append(f"{type(e).__name__}: {e}"[:200])
            ret = "REFUSED"
        outs.append({"ret": ret, "regs": [impl1.snap1(h) for h in s.regs]})
        return {"outs": outs, "log": log}

    def shrink_candidates(self, case):
        if case.get("after"):
            yield from after_shrink(case)
            return
        if not case.get("history"):
            return
        ops, ns = case["ops"], case["nsetup"]
        for k in range(len(ops) - 1, ns - 1, -1):          # any operation after the setup
            c = copy.deepcopy(case)
            del c["ops"][k]
            yield c
        if not any(o.get("o") == 1 for o in ops[ns:]):      # the operand of += / -= when it is not used any more
            keep = [o for o in ops[:ns] if o.get("out") != 1 and o.get("h") != 1]
            if len(keep) < ns:
                c = copy.deepcopy(case)
                c["ops"] = copy.deepcopy(keep) + c["ops"][ns:]
                c["nsetup"] = len(keep)
                yield c
        for k, op in enumerate(ops):                        # single values of a batch
            for key in ("vs", "rows"):
                if k >= 1 and len(op.get(key) or []) > 1 and op.get("ws") is None:
                    for j in range(len(op[key])):
                        c = copy.deepcopy(case)
                        del c["ops"][k][key][j]
                        yield c

    def model_case(self, case, io):
        # histories are outside the model's two-op language for this property: oracle only
        if case.get("after"):
            return after_model_case(case, io)
        return None if case.get("history") else case

    def fields_for(self, case):
        if case.get("after"):
            return AFTER_FIELDS_ND if case.get("kind") == "histn" else AFTER_FIELDS_1D
        return self.FIELDS

    def neighbours(self, case):
        if case.get("after"):
            yield from after_neighbours(case)

    def tags(self, case, io):
        t = super().tags(case, io)
        if case.get("after"):
            return t + after_tags(case, io)
        if case.get("history"):
            seen = [o["before"]["bins"] for o in io["outs"] if "before" in o]
            if any(a != b for a, b in zip(seen, seen[1:])):
                t.append("history:indexed_again_after_the_bins_changed")
            counts = [[len(ax) for ax in b] if case["kind"] == "histn" else len(b) for b in seen]
            if any(a != b for a, b in zip(counts, counts[1:])):
                t.append("history:indexed_again_after_the_bin_count_changed")
        return t

    def oracle(self, case, io):
        if case.get("history"):
            return self.oracle_history(case, io)
        if case.get("after"):
            return self.oracle_after(case, io)
        if case.get("kind") == "histn":
            from . import nd_parts
            fails = nd_parts.c11_oracle(case, io)
            ret, src = io["outs"][1]["ret"], io["outs"][0]["regs"][0]
            if isinstance(ret, dict) and "_bin" in ret:
                # "an integer index returns that bin's edges and content": the edges, per axis
                want = [src["bins"][a][i] for a, i in enumerate(case["ops"][1]["index"])]
                if ret["_bin"] != want:
                    fails.append(f"item_bin: h{case['ops'][1]['index']} returned the edges {ret['_bin']}, the bin is {want}")
            return fails
        outs, ops = io["outs"], case["ops"]
        fails = []
        if outs[0]["ret"] == "REFUSED":
            return ["refused_valid: setup refused: " + "; ".join(io["log"][:2])]
        op = ops[1]
        src = outs[0]["regs"][0]
        n = len(src["bins"])
        if outs[1]["regs"][0] != src:
            fails.append("source_modified: indexing modified the source histogram")
        from ..impl1 import edges_consistent
        for i, r in enumerate(outs[1]["regs"]):
            if r is not None and not edges_consistent(r["bins"], r.get("_numpy_bins")):
                fails.append(f"edges_differ: register {i}: numpy_bins {r['_numpy_bins']} are not the edges of its bins {r['bins']}")
        ret = outs[1]["ret"]
        arr = np.arange(n)
        if op["op"] == "invalid":
            # an explicit step: reversed / strided slices are refused (step 1 is also refused by physt; only
            # "reversed slices are refused" is pinned by the property)
            if op["step"] is not None and op["step"] < 0 and ret != "REFUSED":
                fails.append("accepted_reversed: a reversed slice was accepted")
            return fails
        if op["op"] == "item":
            i = op["i"]
            if -n <= i < n:
                if ret == "REFUSED":
                    fails.append(f"refused_valid: h[{i}] refused")
                elif ret["bin"] != src["bins"][i] or Fraction(ret["value"]) != Fraction(src["freq"][i]):
                    fails.append(f"item: h[{i}] = {ret}, expected {src['bins'][i]}, {src['freq'][i]}")
            elif ret != "REFUSED":
                fails.append(f"accepted_invalid: h[{i}] out of range accepted")
            return fails
        if op["op"] == "slice":
            sel = list(arr[slice(op["start"], op["stop"])])
        elif op["op"] == "mask":
            if len(op["mask"]) != n:
                if ret != "REFUSED":
                    fails.append("accepted_invalid: mask of the wrong size accepted")
                return fails
            sel = [i for i in range(n) if op["mask"][i]]
        else:
            if any(not (-n <= i < n) for i in op["idx"]):
                if ret != "REFUSED":
                    fails.append("accepted_invalid: out-of-range index array accepted")
                return fails
            sel = sorted({i % n for i in op["idx"]}) if n else []
        if ret == "REFUSED":
            fails.append(f"refused_valid: {op} refused: " + "; ".join(io["log"][:2]))
            return fails
        res = outs[1]["regs"][1]
        if res["bins"] != [src["bins"][i] for i in sel]:
            fails.append(f"sel_bins: bins {res['bins']} are not bins {sel} of the source")
        if [Fraction(x) for x in res["freq"]] != [Fraction(src["freq"][i]) for i in sel]:
            fails.append(f"sel_content: contents {res['freq']} are not contents {sel} of {src['freq']}")
        if [Fraction(x) for x in res["err2"]] != [Fraction(src["err2"][i]) for i in sel]:
            fails.append(f"sel_err2: squared errors {res['err2']} are not entries {sel} of {src['err2']}")
        if res["dtype"] != src["dtype"]:
            fails.append("sel_dtype: dtype changed")
        if op["op"] == "slice":
            if sel and src["keep"] and src["under"] is not None and src["over"] is not None:
                left = sum((Fraction(src["freq"][i]) for i in range(0, sel[0])), Fraction(0))
                right = sum((Fraction(src["freq"][i]) for i in range(sel[-1] + 1, n)), Fraction(0))
                # exact, except after an in-place normalisation in a history: the contents are rounded quotients then, and
                # the implementation's sums of them are rounded again (float64 there: narrow types are not asked for)
                slack = Fraction(1, 10**12) if case.get("rounded") else 0

                def same(a, b):
                    return abs(a - b) <= slack * (1 + abs(b))
                if res["under"] is None or not same(Fraction(res["under"]), Fraction(src["under"]) + left):
                    fails.append(f"slice_underflow: underflow {res['under']}, expected {Fraction(src['under']) + left}")
                if res["over"] is None or not same(Fraction(res["over"]), Fraction(src["over"]) + right):
                    fails.append(f"slice_overflow: overflow {res['over']}, expected {Fraction(src['over']) + right}")
                if res["under"] is not None and res["over"] is not None:
                    if not same(Fraction(res["total"]) + Fraction(res["under"]) + Fraction(res["over"]),
                                Fraction(src["total"]) + Fraction(src["under"]) + Fraction(src["over"])):
                        fails.append("slice_conservation: total + underflow + overflow not conserved")
        else:
            if res["under"] is not None or res["over"] is not None:
                fails.append(f"noncontiguous_known: under/overflow read {res['under']}/{res['over']} after a mask / index-array selection")
        return fails[:6]

    def oracle_history(self, case, io):
        """every index step of a history is judged like a single selection, against the snapshot of the object taken
        through the public properties immediately before that step"""
        fails = []
        changes = 0
        rounded = False
        for j, (op, o) in enumerate(zip(case["ops"], io["outs"])):
            rounded = rounded or op["op"] == "normalize"
            if "before" not in o:
                if j < case["nsetup"] and o["ret"] == "REFUSED":
                    return ["refused_valid: setup refused: " + "; ".join(io["log"][:2])]
                changes += j >= case["nsetup"] and o["ret"] != "REFUSED"
                continue
            one = {"kind": case["kind"], "ops": [None, o["op"]], "rounded": rounded}
            one_io = {"outs": [{"ret": "ok", "regs": [o["before"]]},
                               {"ret": o["ret"], "regs": [o["after"], o["res"]]}], "log": o["log"]}
            for f in self.oracle(one, one_io):
                sig, _, rest = f.partition(":")
                expr = "" if str(o["op"]) in rest else f"{o['op']}, "
                fails.append(f"{sig}: op {j} ({expr}after {changes} in-place changes of the same object):{rest}")
        return fails[:6]

    def oracle_after(self, case, io):
        """what happens AFTER the selection.  Every step of the (resolved) history is judged:
        * a selection like a single selection, against the snapshot of its source taken immediately before it;
        * every step: each live histogram the step does not write to reads exactly as before it (bins of every axis,
          contents, errors2, missed, shape, dtype, names, meta) -- the source after the RESULT was changed in place, the
          result (and every earlier selection of a chain) after the SOURCE was changed in place;
        * the object that was changed is a well-formed histogram, and reads like an independently built equal histogram
          (the twin: rebuilt from the public arrays / through JSON, so it cannot share anything) after the same call."""
        outs, ops = io["outs"], io["resolved"]
        fails = []
        twin_ok = {}
        rounded = False
        for k, (op, o) in enumerate(zip(ops, outs)):
            name = op["op"]
            prev = outs[k - 1]["regs"] if k else []
            cur = o["regs"]
            what = after_text(op)
            if k < io["_nsetup"]:
                if o["ret"] == "REFUSED":
                    return [f"refused_valid: setup refused ({what}): " + "; ".join(io["log"][:2])]
                continue
            rounded = rounded or name == "normalize"
            writes = after_writes(op)
            is_sel = name in AFTER_SEL_OPS
            hreg = op.get("h")
            src = prev[hreg] if hreg is not None and hreg < len(prev) else None
            if src is None:
                continue                # (a shrunk case: the register was never made -- nothing to judge)
            # ---- (a) everything the step does not write to is what it was
            for i, (x, y) in enumerate(zip(prev, cur)):
                if i in writes or x is None or y is None or x is y or x == y:
                    continue
                ch = sorted(f for f in set(x) | set(y) if x.get(f) != y.get(f))
                sig = "source_modified" if is_sel and i == hreg else "after_other_changed"
                fails.append(f"{sig}: step {k} ({what}) changed register {i} ({io['_roles'].get(str(i), '?')}), which it does not "
                             f"write to: fields {ch}; bins per axis {after_counts(x)} -> {after_counts(y)}, contents shape "
                             f"{x.get('shape')} -> {y.get('shape')}")
            # ---- well-formedness of whatever changed
            for i, y in enumerate(cur):
                x = prev[i] if i < len(prev) else None
                if y is None or y is x:
                    continue
                for w in after_wellformed(y):
                    fails.append(f"after_illformed: register {i} ({io['_roles'].get(str(i), '?')}) after step {k} ({what}): {w}")
            # ---- the selection itself
            if is_sel and name != "raw":
                res = cur[op["out"]] if o["ret"] == "ok" and op.get("out") is not None and op["out"] < len(cur) else None
                if o["ret"] == "ok" and res is None:
                    continue
                nd_src = "under" not in src
                one = {"kind": "histn" if nd_src else "hist1", "ops": [None, op], "rounded": rounded}
                ret = o["ret"]
                if nd_src and res is not None and "under" in res:
                    res = after_as_nd(res)          # a 1-D result of an N-d selection, read like the N-d ones
                one_io = {"outs": [{"ret": "ok", "regs": [src]}, {"ret": ret, "regs": [cur[hreg], res]}], "log": o.get("_log", [])}
                for f in self.oracle(one, one_io):
                    sig, _, rest = f.partition(":")
                    fails.append(f"{sig}: step {k} ({what}):{rest}")
            # ---- (b) the twin
            if name == "twin" and o["ret"] == "ok":
                a, b = after_view(cur[hreg]), after_view(cur[op["out"]])
                twin_ok[op["out"]] = a == b          # (an unequal twin is the twin builder's business: nothing is compared)
            if "_twin_of" in op:
                j = op["_twin_of"]
                t = ops[j]["h"]
                if twin_ok.get(hreg) and t < len(cur) and cur[t] is not None and cur[hreg] is not None:
                    a, b = after_view(cur[t]), after_view(cur[hreg])
                    if outs[j]["ret"] != o["ret"]:
                        fails.append(f"after_differs_from_twin: step {j} ({after_text(ops[j])}) on register {t} "
                                     f"({io['_roles'].get(str(t), '?')}) returned {outs[j]['ret']}, the same call on an independently "
                                     f"built equal histogram {o['ret']}: " + "; ".join(o.get("_log", [])[:1] + outs[j].get("_log", [])[:1]))
                        twin_ok[hreg] = False
                    elif a != b:
                        ch = sorted(f for f in a if a[f] != b[f])
                        f0 = ch[0]
                        fails.append(f"after_differs_from_twin: after step {j} ({after_text(ops[j])}) register {t} "
                                     f"({io['_roles'].get(str(t), '?')}) differs from an independently built equal histogram after "
                                     f"the same call in {ch}: {f0} {str(a[f0])[:160]} != {str(b[f0])[:160]}")
                        twin_ok[hreg] = False
            if len(fails) > 5:
                break
        return fails[:6]

    def nontrivial(self, case, io):
        o = io["outs"]
        if case.get("after"):
            return after_nontrivial(case, io)
        if case.get("history"):
            changed = False
            for j, x in enumerate(o):
                if "before" not in x:
                    changed = changed or (j >= case["nsetup"] and x["ret"] != "REFUSED")
                elif changed and x["ret"] == "ok" and x["res"] is not None:
                    if case["kind"] == "histn":
                        if x["res"]["shape"] != x["before"]["shape"]:
                            return True
                    elif 0 < len(x["res"]["bins"]) < len(x["before"]["bins"]):
                        return True
            return False
        if case.get("kind") == "histn":
            return o[1]["ret"] == "ok" and len(o[1]["regs"]) > 0 and o[1]["regs"][-1] is not None and o[1]["regs"][-1]["shape"] != o[0]["regs"][0]["shape"]
        try:
            return o[1]["ret"] == "ok" and 0 < len(o[1]["regs"][1]["bins"]) < len(o[0]["regs"][0]["bins"])
        except Exception:
            return False


# ------------------------------------------------------------------------------------------ histories
# The same object is indexed, changed in place (identity kept), and indexed again. Index expressions are stored relative to
# the bin count the object has when they are evaluated (it is not known to the generator: an adaptive histogram grows) and
# are made concrete by `concrete_1d` / `concrete_nd` from the public bin count; the concrete expression is kept in the
# output of the step, where the oracle (and the reader of a replay) finds it.
INDEX_OPS = {"slice", "mask", "index_array", "item", "rev_slice", "getitem", "select", "invalid"}
W_POOL = [1.0, 1.0, 0.5, 2.0, 0.25, 0.1]


def _pos(raw, neg, oob, n):
    """an index for an axis of n bins: in range (counted from the left or the right), or just outside"""
    if oob:
        return n + raw % 2 if not neg else -n - 1 - raw % 2
    if n == 0:
        return 0
    return raw % n - (n if neg else 0)


def _rel_pos(rng):
    return {"i": rng.randint(0, 59), "neg": rng.random() < 0.3, "oob": rng.random() < 0.06}


def _slice_ends(rng):
    c = [None, None] + list(range(-7, 9))
    return rng.choice(c), rng.choice(c)


def index_op_1d(rng):
    kind = rng.choice(["slice"] * 4 + ["mask"] * 2 + ["array"] * 2 + ["int", "rev"])
    if kind == "slice":
        a, b = _slice_ends(rng)
        return {"op": "slice", "h": 0, "start": a, "stop": b, "out": 2}
    if kind == "mask":
        return {"op": "mask", "h": 0, "pat": [rng.random() < 0.5 for _ in range(rng.randint(1, 5))],
                "dn": 0 if rng.random() < 0.85 else rng.choice([-1, 1]), "out": 2}
    if kind == "array":
        m = rng.randint(0, 4)
        return {"op": "index_array", "h": 0, "rel": [_rel_pos(rng) for _ in range(m)], "as_list": m > 0 and rng.random() < 0.3,
                "out": 2}
    if kind == "int":
        return {"op": "item", "h": 0, "rel": _rel_pos(rng)}
    return {"op": "rev_slice", "h": 0, "start": rng.choice([None, 0, 1, -1]), "stop": rng.choice([None, 0, -1]),
            "step": rng.choice([-1, -1, -2])}


def concrete_1d(op, n):
    o = {k: v for k, v in op.items() if k not in ("rel", "pat", "dn")}
    if op["op"] == "mask":
        o["mask"] = [op["pat"][i % len(op["pat"])] for i in range(max(n + op["dn"], 0))]
    elif op["op"] == "index_array":
        o["idx"] = [_pos(r["i"], r["neg"], r["oob"], n) for r in op["rel"]]
    elif op["op"] == "item":
        o["i"] = _pos(op["rel"]["i"], op["rel"]["neg"], op["rel"]["oob"], n)
    elif op["op"] == "rev_slice":
        o.update({"op": "invalid", "what": "slice_step"})
    return o


def index_op_nd(rng, d, names):
    kind = rng.choice(["tuple"] * 4 + ["select", "select", "bare", "bad"])

    def sub():
        if rng.random() < 0.5:
            return _rel_pos(rng)
        c = [None, None] + list(range(-5, 7))
        return {"s": [rng.choice(c), rng.choice(c)]}
    if kind == "tuple":
        return {"op": "getitem", "h": 0, "rel": [sub() for _ in range(rng.randint(1, d))], "out": 2}
    if kind == "bare":
        return {"op": "getitem", "h": 0, "rel": [sub()], "out": 2, "bare": True}
    if kind == "select":
        ax = rng.randrange(d)
        return {"op": "select", "h": 0, "axis": names[ax] if names and rng.random() < 0.3 else ax, "_axis": ax,
                "rel": sub(), "out": 2}
    return {"op": "invalid", "what": rng.choice(["too_many_indices", "neg_step"]), "h": 0}


def concrete_nd(op, shape):
    o = {k: v for k, v in op.items() if k != "rel"}

    def sub(r, n):
        return r if "s" in r else _pos(r["i"], r["neg"], r["oob"], n)
    if op["op"] == "getitem":
        o["index"] = [sub(r, shape[i]) for i, r in enumerate(op["rel"])]
    elif op["op"] == "select":
        o["index"] = sub(op["rel"], shape[op["_axis"]])
    return o


def _vals(rng, lo, hi, w, where):
    """a value inside [lo, hi) or up to three bin widths to the left / right of it (on a grid of w / 4)"""
    q = w / 4
    if where == "in":
        return lo + q * rng.randint(0, max(int(round((hi - lo) / q)) - 1, 0))
    if where == "left":
        return lo - q * rng.randint(1, 12)
    return hi + q * rng.randint(0, 11)


def _scalar_change(rng, state):
    kind = rng.choice(["imul", "imul", "idiv", "set_dtype", "normalize"])
    if kind == "imul":
        c, k = rng.choice([("2", "pyint"), ("3", "pyint"), ("1/2", "pyfloat"), ("2", "float32"), ("1/4", "float64")])
        return {"op": "imul", "h": 0, "c": c, "k": k}
    if kind == "idiv":
        c, k = rng.choice([("2", "pyint"), ("4", "pyint"), ("1/2", "pyfloat")])
        return {"op": "idiv", "h": 0, "c": c, "k": k}
    if kind == "set_dtype":
        # after a normalisation the contents are rounded quotients: no narrow float types from there on (their sums would
        # be rounded at that type's precision)
        return {"op": "set_dtype", "h": 0, "via_property": rng.random() < 0.5,
                "dtype": rng.choice(["int64", "float64"] if state.get("rounded") else ["int64", "float64", "float32", "int32", "float16"])}
    state["rounded"] = True
    return {"op": "normalize", "h": 0, "inplace": True, "percent": rng.random() < 0.3}


def _rounds(rng, index_op, change_op):
    """index - change - index - ...; the first expression is evaluated again at the end"""
    ops = []
    first = index_op()
    ops.append(first)
    if rng.random() < 0.5:
        ops.append(index_op())
    for _ in range(rng.randint(1, 3)):
        for _ in range(rng.choice([1, 1, 2])):
            ops.append(change_op())
        for _ in range(rng.choice([1, 2, 2])):
            ops.append(copy.deepcopy(first) if rng.random() < 0.35 else index_op())
    ops.append(copy.deepcopy(first))
    return ops


def history_gen_1d(rng):
    style = rng.choice(["adaptive"] * 3 + ["fixed", "static"])
    ops = []
    if style == "static":
        pairs, _ = gen1.rising_bins(rng)
        ops.append(rand_hist_op(rng, pairs, out=0))
        ops.append(rand_hist_op(rng, pairs, out=1))
        ops[1]["binning"] = ops[0]["binning"]
        w = (pairs[-1][1] - pairs[0][0]) / len(pairs)
        rng_ = [pairs[0][0], pairs[-1][1]]
    else:
        w = rng.choice(W_POOL)
        tmin, cnt = rng.randint(-3, 3), rng.randint(1, 4)
        rng_ = [tmin * w, (tmin + cnt) * w]
        for reg in (0, 1):
            t, c = (tmin, cnt) if reg == 0 else (tmin + rng.randint(-3, 3), rng.randint(1, 3))
            if reg == 1 and rng.random() < 0.25:
                t, c = tmin, cnt
            ops.append({"op": "empty", "out": reg, "keep": rng.random() < 0.85, "dtype": rng.choice([None, None, "float64", "int32"]),
                        "binning": gen1.fixed_json(w, t, c, adaptive=(style == "adaptive") if reg == 0 else rng.random() < 0.6)})
            vs = [_vals(rng, t * w, (t + c) * w, w, "in") for _ in range(rng.randint(0, 4))]
            ops.append({"op": "fill_n", "h": reg, "vs": gen1.enc_vals(vs), "ws": None})
    ns = len(ops)
    state = {}

    def change():
        grow = 0.6 if style != "static" else 0.3
        r = rng.random()
        if r < grow:
            where = rng.choice(["left", "right", "left", "right", "in"])
            if rng.random() < 0.5:
                v = _vals(rng, rng_[0], rng_[1], w, where)
                wt, wk = rng.choice([(1, "pyint"), (1, "pyint"), (2, "pyint"), (0.5, "pyfloat")])
                op = {"op": "fill", "h": 0, "v": rs(v), "w": rs(wt), "wk": wk, "default_w": wt == 1 and rng.random() < 0.5}
                vs = [v]
            else:
                vs = [_vals(rng, rng_[0], rng_[1], w, rng.choice([where, "in"])) for _ in range(rng.randint(1, 4))]
                ws = None if rng.random() < 0.6 else [rs(rng.randint(0, 8) / 2) for _ in vs]
                op = {"op": "fill_n", "h": 0, "vs": gen1.enc_vals(vs), "ws": ws, "wkind": None if ws is None else "float64"}
            if style != "static":
                rng_[0], rng_[1] = min([rng_[0]] + vs), max([rng_[1]] + vs)
            return op
        if r < grow + 0.1:
            return {"op": "merge", "h": 0, "amount": rng.randint(1, 3), "inplace": True}
        if r < grow + 0.2:
            return {"op": rng.choice(["iadd", "iadd", "iadd", "isub"]), "h": 0, "o": 1}
        if r < grow + 0.27 and style == "fixed":
            return {"op": "set_adaptive", "h": 0, "value": True}
        if r < grow + 0.3:
            return {"op": "set_adaptive", "h": 0, "value": rng.random() < 0.7}
        return _scalar_change(rng, state)

    ops += _rounds(rng, lambda: index_op_1d(rng), change)
    return {"kind": "hist1", "history": True, "nsetup": ns, "ops": ops, "tags": ["stream:history", "history:1d", "style:" + style]}


def history_gen_nd(rng):
    d = rng.choice([2, 2, 3])
    style = rng.choice(["adaptive"] * 3 + ["mixed", "static"])
    from .. import gennd
    axes, axes1, spans, widths = [], [], [], []
    for a in range(d):
        if style == "adaptive" or (style == "mixed" and (a == 0 or rng.random() < 0.5)):
            w = rng.choice(W_POOL)
            tmin, cnt = rng.randint(-3, 3), rng.randint(1, 3)
            axes.append(gen1.fixed_json(w, tmin, cnt, adaptive=True))
            axes1.append(gen1.fixed_json(w, tmin + rng.randint(-2, 2), rng.randint(1, 3), adaptive=True) if rng.random() < 0.75 else axes[-1])
            spans.append([tmin * w, (tmin + cnt) * w, True])
        else:
            b, pairs, _ = gennd.axis_binning(rng, maxbins=3, allow_fixed=style == "static")
            w = (pairs[-1][1] - pairs[0][0]) / len(pairs)
            axes.append(b)
            axes1.append(b)
            spans.append([pairs[0][0], pairs[-1][1], False])
        widths.append(w)
    names = [f"ax{i}" for i in range(d)] if rng.random() < 0.5 else None

    def row(where=None):
        return [_vals(rng, spans[a][0], spans[a][1], widths[a], where or rng.choice(["in", "in", "in", "left", "right"])) for a in range(d)]

    def note(rows):
        for r in rows:
            for a in range(d):
                if spans[a][2]:
                    spans[a][0], spans[a][1] = min(spans[a][0], r[a]), max(spans[a][1], r[a])

    ops = []
    for reg, ax in ((0, axes), (1, axes1)):
        ops.append({"op": "empty", "out": reg, "axes": ax, "names": names, "keep": rng.random() < 0.85,
                    "dtype": rng.choice([None, None, "float64", "int32"])})
        if reg == 0:
            rows = [row("in") for _ in range(rng.randint(0, 4))]
        else:       # inside its own axes, so that it has no missed values
            rows = [[_vals(rng, fl_(b, 0), fl_(b, 1), widths[a], "in") for a, b in enumerate(ax)] for _ in range(rng.randint(0, 3))]
        ops.append({"op": "fill_n", "h": reg, "rows": gennd.enc_rows(rows), "ws": None})
    ns = len(ops)
    state = {}

    def change():
        r = rng.random()
        if r < 0.6:
            if rng.random() < 0.5:
                rows = [row()]
                wt, wk = rng.choice([(1, "pyint"), (1, "pyint"), (2, "pyint"), (0.5, "pyfloat")])
                op = {"op": "fill", "h": 0, "v": gennd.enc_rows(rows)[0], "w": rs(wt), "wk": wk, "default_w": wt == 1 and rng.random() < 0.5}
            else:
                rows = [row() for _ in range(rng.randint(1, 4))]
                ws = None if rng.random() < 0.6 else [rs(rng.randint(0, 8) / 2) for _ in rows]
                op = {"op": "fill_n", "h": 0, "rows": gennd.enc_rows(rows), "ws": ws, "wkind": None if ws is None else "float64"}
            note(rows)
            return op
        if r < 0.7:
            return {"op": "merge", "h": 0, "amount": rng.randint(1, 2), "inplace": True, "axis": rng.choice([None] + list(range(d)))}
        if r < 0.8:
            return {"op": rng.choice(["iadd", "iadd", "iadd", "isub"]), "h": 0, "o": 1}
        if r < 0.84:
            return {"op": "set_adaptive", "h": 0, "value": rng.random() < 0.7}
        return _scalar_change(rng, state)

    ops += _rounds(rng, lambda: index_op_nd(rng, d, names), change)
    return {"kind": "histn", "history": True, "nsetup": ns, "ops": ops,
            "tags": ["stream:history", "history:nd", "nd", f"d:{d}", "style:" + style]}


def fl_(b, side):
    """left / right end of a binning json (as a float)"""
    if b["t"] == "fixed":
        w, s = float(Fraction(b["w"])), float(Fraction(b["shift"]))
        return (b["tmin"] + (b["count"] if side else 0)) * w + s
    return float(Fraction(b["bins"][-1][1] if side else b["bins"][0][0]))


def nd_item_bin(h, index):
    """the edges h[i, j, ...] reports for a full tuple of integers: [[left, right] per axis], or the refusal"""
    try:
        edges, _ = h[tuple(int(i) for i in index)]
        return [[rs(l), rs(r)] for l, r in edges]
    except Exception as e:
        return f"REFUSED ({type(e).__name__})"


def fingerprint(h):
    """everything a snapshot shows, read through the same public properties, in a form that is cheap to compare"""
    def raw(a):
        a = np.asarray(a)
        return (a.shape, str(a.dtype), a.tobytes())
    binnings = [h.binning] if h.ndim == 1 else list(h.binnings)
    edges = []
    for b in binnings:
        try:
            edges.append(raw(b.numpy_bins))
        except Exception:
            edges.append(None)
    missed = (repr(h.underflow), repr(h.overflow), repr(h.inner_missed)) if h.ndim == 1 else repr(h.missed)
    return ([raw(b) for b in ([h.bins] if h.ndim == 1 else h.bins)], edges, raw(h.frequencies), raw(h.errors2), missed,
            bool(h.keep_missed), str(h.dtype), repr(h.total), bool(h.is_adaptive()), tuple(h.axis_names),
            [(type(b).__name__, bool(b.is_adaptive()), bool(b.includes_right_edge)) for b in binnings],
            repr(getattr(h, "statistics", None)))


def history_run(case):
    from .. import impl1, implnd
    nd = case["kind"] == "histn"
    step, snap = (implnd.step, implnd.snapn) if nd else (impl1.step, impl1.snap1)
    s = impl1.Store()
    log, outs = [], []
    last = None
    for op in case["ops"]:
        mark = len(log)
        if op["op"] == "set_adaptive":
            try:
                s.get(op["h"]).set_adaptive(op["value"])
                ret = "ok"
            except Exception as e:
                log.append(f"set_adaptive: {type(e).__name__}: {e}"[:200])
                ret = "REFUSED"
            outs.append({"ret": ret})
            continue
        if op["op"] not in INDEX_OPS:
            outs.append({"ret": step(s, op, log)})
            continue
        h = s.get(op["h"])
        mark_fp = fingerprint(h)
        if last is None or last[0] != mark_fp:      # (unchanged since the last selection: the same snapshot serves)
            last = (mark_fp, snap(h))
        before = last[1]
        cop = concrete_nd(op, [int(x) for x in h.shape]) if nd else concrete_1d(op, int(h.shape[0]))
        if cop["op"] == "invalid" and not nd:
            try:
                h[slice(cop["start"], cop["stop"], cop["step"])]
                ret = "accepted"
            except Exception as e:
                log.append(f"{type(e).__name__}: {e}"[:200])
                ret = "REFUSED"
        else:
            ret = step(s, cop, log)
            if nd and isinstance(ret, dict):
                ret["_bin"] = nd_item_bin(h, cop["index"])
        res = None
        if ret == "ok":
            res = snap(s.get(cop["out"]))
            s.set(cop["out"], None)
        # the source after the selection: the snapshot taken before it when nothing observable changed, a new one otherwise
        after = before if fingerprint(h) == mark_fp else snap(h)
        outs.append({"ret": ret, "op": cop, "before": before, "after": after, "res": res, "log": log[mark:]})
    return {"outs": outs, "log": log}


# ------------------------------------------------------------------------------------------ after the selection
# stream:after_selection.  The property says the source is never modified and the selection is a histogram (with exactly the
# indexed bins / contents / errors): both have to stay true when the two objects are USED.  A case is
#     setup (register 0; optionally a projection / transposition of it as the source)
#     -> a chain of 1-3 selections (each into a register of its own; relative expressions, made concrete at run time)
#     -> 1-2 phases: {"op": "twin"} builds an independent equal of the target (a result of the chain or a source), then
#        in-place operations follow, each applied to the target and, with the same arguments, to the twin.
# Values of fill / fill_n are placed relative to the bins the target has at that moment (outside one axis in turn, so that
# adaptive axes must grow; inside; exactly on the last edge).  `after_run` writes the concrete ("resolved") op list, one
# entry per call, with a snapshot of every register after every call; the oracle (C11.oracle_after) works on that list.
# Cases that stay inside the op language of the Lean driver (plain Histogram1D only, or plain N-d only) are run on the model
# too (the twin is `copy` there: an equal value).
#
# H[:] / H.select(axis, slice(None)) of an N-d histogram and h.select(0, slice(None)) of a 1-D one return the source OBJECT
# itself (HistogramND.select / Histogram1D.select: `if index == slice(None) and not force_copy: return self`), so an in-place
# operation on "the selection" changes the source.  Reported; these bare `:` forms are kept out of the stream until triaged
# (the tuple forms H[:, :], H[:,] copy and are generated).
ENABLE_IDENTITY_SELECTION = False

AFTER_W = [1.0, 1.0, 1.0, 0.5, 2.0, 0.25, 0.1]
AFTER_SEL_OPS = {"slice", "mask", "index_array", "item", "getitem", "select", "raw"}
AFTER_INPLACE = {"fill", "fill_n", "merge", "imul", "idiv", "set_dtype", "normalize", "set_adaptive", "iadd", "isub"}
AFTER_FIELDS_1D = {"bins", "freq", "err2", "under", "over", "inner", "total", "dtype", "keep", "adaptive"}
AFTER_FIELDS_ND = {"bins", "shape", "freq", "err2", "missed", "total", "dtype", "keep", "names", "adaptive", "ndim"}
# (b): what "equals" means between the changed object and its twin -- everything read through the public properties
# except sums over all bins (`total`: a rounded sum after a normalisation) and the statistics record (not this property's)
AFTER_NOT_COMPARED = {"total", "stats"}
T_CLASSES = {"PolarHistogram": 2, "CylindricalHistogram": 3, "SphericalHistogram": 3, "SphericalSurfaceHistogram": 2,
             "CylindricalSurfaceHistogram": 2}
MODEL_CLASSES = {"hist1": {"Histogram1D"}, "histn": {"Histogram2D", "HistogramND"}}


def after_view(snap):
    return {k: v for k, v in snap.items() if k not in AFTER_NOT_COMPARED}


def after_as_nd(snap):
    """a 1-D snapshot in the layout of the N-d ones (bins / edges per axis)"""
    return dict(snap, bins=[snap["bins"]], _numpy_bins=[snap.get("_numpy_bins")], ndim=1)


def after_counts(snap):
    b = snap.get("bins") or []
    return [len(x) for x in b] if "under" not in snap else len(b)


def after_writes(op):
    name = op["op"]
    if name in AFTER_INPLACE and (name not in ("merge", "normalize") or op.get("inplace")):
        return {op["h"]}
    return {op["out"]} if op.get("out") is not None else set()


def after_text(op):
    """the call of a resolved op, for the reader of a failure"""
    try:
        return _after_text(op)
    except (KeyError, TypeError):        # (an op that could not be made concrete: its register was missing)
        return f"{op['op']} on r{op.get('h')}"


def _after_text(op):
    name, h = op["op"], op.get("h")

    def sl(a, b):
        return f"{'' if a is None else a}:{'' if b is None else b}"

    def sub(j):
        return sl(*j["s"]) if isinstance(j, dict) else str(j)
    if name == "slice":
        return f"r{op['out']} = r{h}[{sl(op.get('start'), op.get('stop'))}]"
    if name == "mask":
        return f"r{op['out']} = r{h}[mask {''.join('1' if m else '0' for m in op['mask'])}]"
    if name == "index_array":
        return f"r{op['out']} = r{h}[{'list' if op.get('as_list') else 'array'} {op['idx']}]"
    if name == "item":
        return f"r{h}[{op['i']}]"
    if name == "getitem":
        body = ", ".join(sub(j) for j in op["index"])
        return f"r{op.get('out')} = r{h}[{body}{'' if op.get('bare') or len(op['index']) > 1 else ','}]"
    if name == "select":
        return f"r{op['out']} = r{h}.select({op['axis']!r}, {sub(op['index'])})"
    if name == "raw":
        return f"r{op['out']} = r{h}[{op['what']}]"
    if name == "twin":
        return f"r{op['out']} = independent equal of r{h} ({op.get('_via', op.get('via'))})"
    if name == "fill":
        v = op["v"]
        vv = [float(Fraction(x)) for x in v] if isinstance(v, list) else float(Fraction(v))
        return f"r{h}.fill({vv}, {float(Fraction(op['w']))}{', transformed=True' if op.get('transformed') else ''})"
    if name == "fill_n":
        rows = op.get("rows") if "rows" in op else op.get("vs")
        vv = [[float(Fraction(x)) for x in r] if isinstance(r, list) else float(Fraction(r)) for r in rows]
        return f"r{h}.fill_n({vv}{'' if op.get('ws') is None else ', weights'}{', transformed=True' if op.get('transformed') else ''})"
    if name == "merge":
        return f"r{h}.merge_bins({op.get('amount')}, axis={op.get('axis')}, inplace=True)"
    if name == "imul":
        return f"r{h} *= {op['c']}"
    if name == "set_dtype":
        return f"r{h}.set_dtype({op['dtype']})"
    if name == "normalize":
        return f"r{h}.normalize(inplace=True{', percent=True' if op.get('percent') else ''})"
    if name == "set_adaptive":
        return f"r{h}.set_adaptive({op.get('value', True)}" + (f", axis {op['axis']})" if op.get("axis") is not None else ")")
    return f"{name} -> r{op.get('out', h)}"


def after_wellformed(snap):
    """a histogram: one content and one squared error per bin (cell), arrays of the histogram's dtype, rising bins"""
    if "under" not in snap:
        from . import nd_parts
        return [w for w in nd_parts.c18_wellformed(snap) if not w.startswith("negative_")]
    out = []
    n = len(snap["bins"])
    if not snap["_shape_ok"] or len(snap["freq"]) != n or len(snap["err2"]) != n:
        out.append(f"shape: {n} bins, {len(snap['freq'])} contents, {len(snap['err2'])} squared errors")
    bins = [(Fraction(l), Fraction(r)) for l, r in snap["bins"]]
    if any(l >= r for l, r in bins) or any(bins[i][1] > bins[i + 1][0] for i in range(len(bins) - 1)):
        out.append("bins_not_rising")
    if snap["_freq_dtype"] != snap["dtype"] or snap["_err2_dtype"] != snap["dtype"]:
        out.append(f"dtype_mismatch: dtype {snap['dtype']} over {snap['_freq_dtype']}/{snap['_err2_dtype']} arrays")
    if not edges_ok(snap["bins"], snap.get("_numpy_bins")):
        out.append(f"edges_differ: numpy_bins {snap['_numpy_bins']} are not the edges of the bins {snap['bins']}")
    return out


def edges_ok(bins, numpy_bins):
    from ..impl1 import edges_consistent
    return edges_consistent(bins, numpy_bins)


def after_snap(x):
    """snap1 for 1-D objects, snapn for N-d ones, plus what the two leave out"""
    from .. import impl1, implnd
    if x.ndim == 1 and hasattr(x, "underflow"):
        s = impl1.snap1(x)
        s["names"] = [str(n) for n in x.axis_names]
        s["shape"] = [int(v) for v in x.shape]
        s["_class"] = type(x).__name__
    else:
        s = implnd.snapn(x)
        s["_axes"] = [impl1.binning_meta(b) for b in x.binnings]
    return s


# ---- generators

def _after_slice(rng):
    """a slice relative to the bin count n the axis has when it is evaluated: non-empty (start = p mod n, at least one bin),
    an end that coincides with the end of the axis left open on request, ends counted from the right on request; one in
    eight with arbitrary small ends (empty selections among them)"""
    if rng.random() < 0.125:
        c = [None, None] + list(range(-5, 7))
        a, b = rng.choice(c), rng.choice(c)
        if a is None and b is None:
            b = rng.choice([1, 2, -1])
        return {"wild": [a, b]}
    return {"p": rng.randint(0, 59), "q": rng.randint(0, 59), "np": rng.random() < 0.25, "nq": rng.random() < 0.25,
            "open": rng.choice(["", "", "a", "b", "ab"])}


def _after_slice_ends(sr, n):
    if "wild" in sr:
        return list(sr["wild"])
    if n == 0:
        return [0, None]
    a = sr["p"] % n
    b = a + 1 + sr["q"] % (n - a)
    ra = None if (a == 0 and "a" in sr["open"]) else (a - n if sr["np"] else a)
    rb = None if (b == n and "b" in sr["open"]) else (b - n if sr["nq"] and b < n else b)
    if ra is None and rb is None:
        rb = n          # (the bare `:` is a form of its own: ENABLE_IDENTITY_SELECTION)
    return [ra, rb]


def _after_sub(rng, colon=0.2):
    r = rng.random()
    if r < colon:
        return {"s": [None, None]}
    if r < colon + 0.3:
        return {"i": rng.randint(0, 59), "neg": rng.random() < 0.3, "oob": False}
    return {"sr": _after_slice(rng)}


def after_sel_1d(rng):
    kind = rng.choice(["slice"] * 5 + ["mask"] * 2 + ["array"] * 2 + ["int", "ellipsis"])
    if kind == "slice":
        return {"op": "slice", "sr": _after_slice(rng)}
    if kind == "mask":
        return {"op": "mask", "pat": [True] + [rng.random() < 0.6 for _ in range(rng.randint(0, 4))], "dn": 0}
    if kind == "array":
        m = rng.randint(1, 4)
        return {"op": "index_array", "rel": [{"i": rng.randint(0, 59), "neg": rng.random() < 0.3, "oob": False} for _ in range(m)],
                "as_list": rng.random() < 0.3}
    if kind == "int":
        return {"op": "item", "rel": {"i": rng.randint(0, 59), "neg": rng.random() < 0.3, "oob": False}}
    return {"op": "raw", "what": "..."}


def after_sel_nd(rng, d):
    kind = rng.choice(["tuple"] * 6 + ["bare"] * 2 + ["select"] * 2 + ["colons", "ellipsis"])
    if kind == "tuple":
        m = rng.randint(1, d)
        rel = [_after_sub(rng) for _ in range(m)]
        if all(r.get("s") == [None, None] for r in rel):
            rel[rng.randrange(m)] = _after_sub(rng, colon=0)
        return {"op": "getitem", "rel": rel}
    if kind == "bare":
        return {"op": "getitem", "rel": [_after_sub(rng, colon=0.15 if ENABLE_IDENTITY_SELECTION else 0)], "bare": True}
    if kind == "select":
        return {"op": "select", "_axis": rng.randrange(4), "by_name": rng.random() < 0.3,
                "rel": _after_sub(rng, colon=0.15 if ENABLE_IDENTITY_SELECTION else 0)}
    if kind == "colons":
        return {"op": "getitem", "rel": [{"s": [None, None]} for _ in range(rng.randint(1, d))]}
    return {"op": "raw", "what": rng.choice(["...", "..., 0:1", "0:1, ..."])}


def after_result_dim(op, d):
    """number of axes of the histogram a selection from a d-dimensional one gives (0: a value; None: N-d Ellipsis, refused)"""
    if d == 1:
        return 0 if op["one"]["op"] == "item" else 1
    nd = op["nd"]
    if nd["op"] == "raw":
        return None
    subs = [nd["rel"]] if nd["op"] == "select" else nd["rel"][:d]
    return d - sum(1 for r in subs if "i" in r)


def after_sel(rng, h, out, d):
    """one selection, relative: `one` is used when the register holds a 1-D histogram at that moment, `nd` otherwise"""
    op = {"op": "sel", "h": h, "out": out, "one": after_sel_1d(rng)}
    if d is not None:
        op["nd"] = after_sel_nd(rng, d)
    return op


def _after_place(rng, out_share=0.75):
    """where a filled value lies relative to the bins the target has when it is filled: outside of (at most two) axes --
    `j` quarter bin widths to the left of the first / beyond the last edge (right, j = 0: exactly on the last edge) -- and
    in the middle of some bin of every other axis"""
    out = []
    if rng.random() < out_share:
        for _ in range(rng.choice([1, 1, 1, 1, 2])):
            side = rng.choice(["left", "right"])
            out.append({"axis": rng.randrange(12), "side": side, "j": rng.randint(1, 8) if side == "left" else rng.randint(0, 7)})
    return {"out": out, "in": [rng.randint(0, 59) for _ in range(4)]}


def after_mutation(rng, t, tw, state):
    r = rng.random()
    if r < 0.42:
        wt, wk = rng.choice([(1, "pyint"), (1, "pyint"), (2, "pyint"), (0.5, "pyfloat")])
        state["fractional"] = state.get("fractional") or wt == 0.5
        return {"op": "fill", "h": t, "tw": tw, "place": _after_place(rng), "w": rs(wt), "wk": wk,
                "default_w": wt == 1 and rng.random() < 0.5}
    if r < 0.64:
        n = rng.randint(1, 3)
        ws = None if rng.random() < 0.6 else [rs(rng.randint(0, 8) / 2) for _ in range(n)]
        state["fractional"] = state.get("fractional") or ws is not None
        return {"op": "fill_n", "h": t, "tw": tw, "places": [_after_place(rng, 0.6) for _ in range(n)], "ws": ws,
                "wkind": None if ws is None else "float64"}
    if r < 0.74:
        return {"op": "merge", "h": t, "tw": tw, "amount": rng.randint(1, 3), "inplace": True, "axis": rng.choice([None, 0, 1, 2])}
    if r < 0.78:
        return {"op": "set_adaptive", "h": t, "tw": tw, "value": True, "axis": rng.choice([None, 0, 1, 2])}
    op = _scalar_change(rng, state)
    while op["op"] == "idiv":
        op = _scalar_change(rng, state)
    if op["op"] == "imul" and "/" in op["c"]:
        state["fractional"] = True
    if op["op"] == "set_dtype" and state.get("rounded"):
        op["dtype"] = "float64"      # (whether a rounded quotient is integral is not pinned: DESIGN 9.4)
    if op["op"] == "set_dtype" and state.get("fractional") and op["dtype"].startswith("int"):
        # contents / missed weights that may be fractional: what an integer type makes of them is C13's subject
        op["dtype"] = {"int64": "float64", "int32": "float32"}[op["dtype"]]
    op.update({"h": t, "tw": tw})
    return op


def after_phases(rng, ops, sources, results, first_free):
    """1-2 phases of in-place operations: on the last result of the chain, on a source, on an earlier result"""
    state = {"fractional": any(o.get("ws") is not None or o.get("dtype") in ("float32", "float64") and o["op"] == "of_arrays"
                               for o in ops)}
    plan = rng.choice([["R"], ["R"], ["S"], ["S"], ["R", "S"], ["S", "R"], ["M"]])
    reg = first_free
    for who in plan:
        if who == "R":
            t = results[-1] if results else sources[-1]
        elif who == "S":
            t = sources[-1] if rng.random() < 0.8 else sources[0]
        else:
            t = rng.choice(results[:-1]) if len(results) > 1 else (results[-1] if results else sources[-1])
        ops.append({"op": "twin", "h": t, "out": reg, "via": rng.choice(["arrays", "arrays", "json"])})
        if rng.random() < 0.25:
            # every axis in turn: one value beyond each axis of the target
            side = rng.choice(["left", "right"])
            for a in range(3):
                ops.append({"op": "fill", "h": t, "tw": reg, "w": "1", "wk": "pyint", "default_w": True, "sweep": True,
                            "place": {"out": [{"axis": a, "side": side, "j": rng.randint(1, 6)}], "in": [rng.randint(0, 59) for _ in range(4)]}})
        for _ in range(rng.randint(1, 3)):
            ops.append(after_mutation(rng, t, reg, state))
        reg += 1


def after_gen_1d(rng):
    style = rng.choice(["adaptive"] * 5 + ["later"] * 3 + ["fixed", "static"])
    ops = []
    if style == "static":
        pairs, t = gen1.rising_bins(rng)
        while t["tiny_gap"]:             # (gaps below the allclose tolerance of is_consecutive: DESIGN 9.4)
            pairs, t = gen1.rising_bins(rng)
        ops.append(rand_hist_op(rng, pairs, out=0))
    else:
        w = rng.choice(AFTER_W)
        tmin, cnt = rng.randint(-3, 3), rng.randint(1, 4)
        ops.append({"op": "empty", "out": 0, "keep": rng.random() < 0.85, "dtype": rng.choice([None, None, "float64", "int32"]),
                    "binning": gen1.fixed_json(w, tmin, cnt, adaptive=style == "adaptive")})
        where = ["in"] * 5 + ["left", "right"]
        vs = [_vals(rng, tmin * w, (tmin + cnt) * w, w, rng.choice(where)) for _ in range(rng.randint(0, 5))]
        ws = None if rng.random() < 0.6 else [rs(rng.randint(0, 8) / 2) for _ in vs]
        ops.append({"op": "fill_n", "h": 0, "vs": gen1.enc_vals(vs), "ws": ws, "wkind": None if ws is None else "float64"})
        if style == "later":
            ops.append({"op": "set_adaptive", "h": 0, "value": True})
    ns = len(ops)
    results, reg = [], 1
    for step_no in range(rng.choice([1, 1, 1, 2, 2, 3])):
        op = after_sel(rng, results[-1] if results else 0, reg, None)
        if op["one"]["op"] == "item" and step_no == 0 and rng.random() < 0.7:
            op["one"] = {"op": "slice", "sr": _after_slice(rng)}
        ops.append(op)
        if op["one"]["op"] == "item":
            break                               # (bin edges and a content: no histogram to go on with)
        results.append(reg)
        reg += 1
    after_phases(rng, ops, [0], results, reg)
    return {"kind": "hist1", "after": True, "nsetup": ns, "ops": ops, "tolerance": True,
            "tags": ["stream:after_selection", "stream:after_selection/1d", "after:1d", "style:" + style]}


def after_gen_nd(rng):
    from .. import gennd
    style = rng.choice(["adaptive"] * 5 + ["mixed"] * 3 + ["later"] * 2 + ["static"])
    klass = rng.choice(sorted(T_CLASSES)) if rng.random() < 0.2 else None
    derived = None if klass or rng.random() < 0.7 else rng.choice(["projection", "projection", "T"])
    d = T_CLASSES[klass] if klass else rng.choice([2, 2, 2, 3])
    d0 = d + 1 if derived == "projection" else (2 if derived == "T" else d)
    if derived == "T":
        d = 2
    axes, spans, widths = [], [], []
    for a in range(d0):
        fixed = style in ("adaptive", "later") or (style == "mixed" and (a == 0 or rng.random() < 0.5))
        if fixed:
            w = rng.choice(AFTER_W)
            tmin, cnt = rng.randint(-3, 3), rng.randint(1, 3)
            axes.append(gen1.fixed_json(w, tmin, cnt, adaptive=style != "later"))
            spans.append([tmin * w, (tmin + cnt) * w])
        else:
            b, pairs, _ = gennd.axis_binning(rng, maxbins=3, allow_fixed=True)
            w = (pairs[-1][1] - pairs[0][0]) / len(pairs)
            axes.append(b)
            spans.append([pairs[0][0], pairs[-1][1]])
        widths.append(w)
    names = [f"ax{i}" for i in range(d0)] if rng.random() < 0.5 and not klass else None
    ops = [{"op": "empty_t" if klass else "empty", "out": 0, "axes": axes, "names": names, "keep": rng.random() < 0.85,
            "dtype": rng.choice([None, None, "float64", "int32"])}]
    if klass:
        ops[0]["klass"] = klass
    rows = [[_vals(rng, spans[a][0], spans[a][1], widths[a], rng.choice(["in"] * 6 + ["left", "right"])) for a in range(d0)]
            for _ in range(rng.randint(0, 5))]
    ws = None if rng.random() < 0.6 else [rs(rng.randint(0, 8) / 2) for _ in rows]
    ops.append({"op": "fill_n", "h": 0, "rows": gennd.enc_rows(rows), "ws": ws, "wkind": None if ws is None else "float64"})
    if klass:
        ops[-1]["transformed"] = True
    if style == "later":
        # adaptivity switched on after the first values (the whole histogram, or axis by axis through the binning objects)
        if rng.random() < 0.5:
            ops.append({"op": "set_adaptive", "h": 0, "value": True})
        else:
            for a in rng.sample(range(d0), rng.randint(1, d0)):
                ops.append({"op": "set_adaptive", "h": 0, "value": True, "axis": a})
    sources = [0]
    if derived == "projection":
        keep = rng.sample(range(d0), d)
        if rng.random() < 0.6:
            keep.sort()
        ops.append({"op": "projection", "h": 0, "axes": keep, "out": 1})
        sources.append(1)
    elif derived == "T":
        ops.append({"op": "T", "h": 0, "out": 1})
        sources.append(1)
    elif klass and rng.random() < 0.3:
        keep = sorted(rng.sample(range(d0), rng.randint(1, d0 - 1)))     # RadialHistogram, AzimuthalHistogram, ... or plain
        ops.append({"op": "projection", "h": 0, "axes": keep, "out": 1})
        sources.append(1)
        derived = "projection"
    ns = len(ops)
    results, reg = [], len(sources)
    cur, dim = sources[-1], (len(ops[-1]["axes"]) if ops[-1]["op"] == "projection" else d)
    for _ in range(rng.choice([1, 1, 1, 2, 2, 3])):
        op = after_sel(rng, cur, reg, dim)
        ops.append(op)
        left = after_result_dim(op, dim)
        if left:                    # (otherwise a value or a refused form: a side branch, the chain goes on from `cur`)
            results.append(reg)
            cur, dim = reg, left
        reg += 1
    after_phases(rng, ops, sources, results, reg)
    tags = ["stream:after_selection", "stream:after_selection/nd", "after:nd", "nd", f"d:{d}", "style:" + style]
    if klass:
        tags += ["after:transformed", "stream:after_selection/transformed_class"]
    if derived:
        tags += ["after:source_is_" + derived, "stream:after_selection/source_is_projection_or_T"]
    return {"kind": "histn", "after": True, "nsetup": ns, "ops": ops, "tolerance": True, "tags": tags}


# ---- running

def _is_1d(x):
    return x.ndim == 1 and hasattr(x, "underflow")


def _is_transformed(x):
    return hasattr(x, "transform")


def after_concrete_sel(op, x):
    """the selection in the op language of the object the register holds now"""
    if _is_1d(x):
        rel = op["one"]
        if rel["op"] == "raw":
            return {"op": "raw", "h": op["h"], "out": op["out"], "what": "..."}
        n = int(x.shape[0])
        if "sr" in rel:
            a, b = _after_slice_ends(rel["sr"], n)
            rel = {"op": "slice", "start": a, "stop": b}
        cop = concrete_1d(dict(rel, h=op["h"], out=op["out"]), n)
        if cop["op"] == "item":
            cop.pop("out", None)
        return cop
    rel = op["nd"]
    shape = [int(v) for v in x.shape]

    def ends(r, n):
        return {"s": _after_slice_ends(r["sr"], n)} if "sr" in r else r
    if rel["op"] == "raw":
        return {"op": "raw", "h": op["h"], "out": op["out"], "what": rel["what"]}
    if rel["op"] == "select":
        ax = rel["_axis"] % len(shape)
        r = dict(rel, h=op["h"], out=op["out"], _axis=ax, axis=str(x.axis_names[ax]) if rel.get("by_name") else ax,
                 rel=ends(rel["rel"], shape[ax]))
        r.pop("by_name", None)
        return concrete_nd(r, shape)
    r = dict(rel, h=op["h"], out=op["out"], rel=[ends(q, shape[i]) for i, q in enumerate(rel["rel"][:len(shape)])])
    return concrete_nd(r, shape)


def _place_value(place, x):
    """the coordinates (in the space of the bins) of one value, relative to the bins of x now"""
    bins = [np.asarray(x.bins).reshape(-1, 2)] if _is_1d(x) else [np.asarray(b).reshape(-1, 2) for b in x.bins]
    d = len(bins)
    out = {}
    for e in place["out"]:
        out.setdefault(e["axis"] % d, e)
    v = []
    for a, b in enumerate(bins):
        if len(b) == 0:
            v.append(place["in"][a] % 7 / 4)
            continue
        q = (float(b[0][1]) - float(b[0][0])) / 4
        e = out.get(a)
        if e is None:
            l, r = b[place["in"][a] % len(b)]
            v.append((float(l) + float(r)) / 2)
        elif e["side"] == "left":
            v.append(float(b[0][0]) - q * e["j"])
        else:
            v.append(float(b[-1][1]) + q * e["j"])
    return v


def after_resolve(op, x):
    """the in-place operation with concrete arguments, in the op language of the object (1-D / N-d)"""
    name = op["op"]
    cop = {k: v for k, v in op.items() if k not in ("tw", "place", "places", "sweep")}
    one = _is_1d(x)
    if name == "fill":
        v = _place_value(op["place"], x)
        cop["v"] = rs(v[0]) if one else [rs(t) for t in v]
    elif name == "fill_n":
        rows = [_place_value(p, x) for p in op["places"]]
        if one:
            cop["vs"] = [rs(r[0]) for r in rows]
        else:
            cop["rows"] = [[rs(t) for t in r] for r in rows]
    elif name in ("merge", "set_adaptive"):
        ax = cop.pop("axis", None)
        if not one and ax is not None:
            cop["axis"] = ax % x.ndim
    if name in ("fill", "fill_n") and _is_transformed(x):
        cop["transformed"] = True
    return cop


def after_apply(s, cop, log):
    """one in-place call on the register cop['h'] (step functions of the 1-D / N-d op languages; transformed classes take
    the values in the space of their bins)"""
    from .. import impl1, implnd
    x = s.get(cop["h"]) if cop["h"] < len(s.regs) else None
    if x is None:
        log.append(f"{cop['op']}: no histogram in register {cop['h']}")
        return "REFUSED"
    if cop.get("transformed"):
        try:
            if cop["op"] == "fill":
                v = impl1.fl(cop["v"]) if _is_1d(x) else [impl1.fl(t) for t in cop["v"]]
                w = impl1.num_of(cop["w"], cop["wk"])
                ix = x.fill(v, transformed=True) if cop.get("default_w") and w == 1 else x.fill(v, w, transformed=True)
                if ix is None:
                    return None
                return impl1.fb_json(ix, x) if _is_1d(x) else [int(i) for i in ix]
            ws = None if cop.get("ws") is None else impl1.arr(cop["ws"], np.dtype(cop.get("wkind") or "float64"))
            if _is_1d(x):
                x.fill_n(impl1.arr(cop["vs"]), ws, transformed=True)
            else:
                x.fill_n(implnd.rows_arr(cop["rows"], x.ndim), ws, transformed=True)
            return "ok"
        except Exception as e:
            log.append(f"{cop['op']}: {type(e).__name__}: {e}"[:200])
            return "REFUSED"
    return (impl1.step if _is_1d(x) else implnd.step)(s, cop, log)


def twin_way(x, via):
    binnings = [x.binning] if _is_1d(x) else list(x.binnings)
    if via == "json" and all((b.includes_right_edge is False) if type(b).__name__ == "FixedWidthBinning" else
                             (b.includes_right_edge is True) for b in binnings):
        return "json"
    return "arrays"


def build_twin(x, via):
    """an equal histogram that cannot share anything with x: parsed back from its JSON document, or constructed anew from
    copies of the public arrays and binnings rebuilt from their public description.  (The JSON document does not carry
    `includes_right_edge`: that way is taken only when reading it back gives the same flags.)  Returns (twin, way taken)."""
    import copy as _copy
    from physt import io as _io
    from physt.binnings import FixedWidthBinning, NumpyBinning, StaticBinning
    binnings = [x.binning] if _is_1d(x) else list(x.binnings)
    if twin_way(x, via) == "json":
        return _io.parse_json(x.to_json()), "json"

    def nb(b):
        kind = type(b).__name__
        if kind == "FixedWidthBinning":
            d = b.to_dict()
            kw = dict(bin_width=d["bin_width"], bin_count=d["bin_count"], bin_shift=d["bin_shift"], adaptive=d["adaptive"],
                      includes_right_edge=b.includes_right_edge)
            if d["bin_count"] > 0:
                kw["bin_times_min"] = d["bin_times_min"]
            return FixedWidthBinning(**kw)
        if kind == "NumpyBinning":
            return NumpyBinning(np.array(b.numpy_bins, dtype=float, copy=True), includes_right_edge=b.includes_right_edge)
        return StaticBinning(np.array(b.bins, dtype=float, copy=True).reshape(-1, 2), includes_right_edge=b.includes_right_edge)
    meta = {str(k): _copy.deepcopy(v) for k, v in x.meta_data.items() if k != "axis_names"}
    f, e = np.array(x.frequencies, copy=True), np.array(x.errors2, copy=True)
    if _is_1d(x):
        t = type(x)(nb(binnings[0]), f, e, keep_missed=x.keep_missed, underflow=x.underflow, overflow=x.overflow,
                    inner_missed=x.inner_missed, dtype=x.dtype, axis_name=x.axis_name, **meta)
    else:
        t = type(x)([nb(b) for b in binnings], f, errors2=e, keep_missed=x.keep_missed, missed=x.missed, dtype=x.dtype,
                    axis_names=list(x.axis_names), **meta)
    return t, "arrays"


RAW_INDEX = {"...": Ellipsis, "..., 0:1": (Ellipsis, slice(0, 1)), "0:1, ...": (slice(0, 1), Ellipsis)}


def after_exec(s, cop, log, kind):
    """one resolved op on the registers; the value it returns in the op language"""
    from .. import impl1, implnd
    name = cop["op"]
    x = s.regs[cop["h"]] if cop.get("h") is not None and cop["h"] < len(s.regs) else None
    if name == "empty_t":
        try:
            from physt import special_histograms
            axes = [impl1.mk_binning(b) for b in cop["axes"]]
            s.set(cop["out"], getattr(special_histograms, cop["klass"])(axes, keep_missed=cop.get("keep", True),
                                                                         dtype=impl1.np_dtype(cop.get("dtype"))))
            return "ok"
        except Exception as e:
            log.append(f"{name}: {type(e).__name__}: {e}"[:200])
            return "REFUSED"
    if "h" in cop and x is None:
        log.append(f"{name}: no histogram in register {cop['h']}")
        return "REFUSED"
    if name == "raw":
        try:
            r = x[RAW_INDEX[cop["what"]]]
            if hasattr(r, "frequencies"):
                s.set(cop["out"], r)
                return "ok"
            return "value"
        except Exception as e:
            log.append(f"raw: {type(e).__name__}: {e}"[:200])
            return "REFUSED"
    if name == "twin":
        try:
            t, _ = build_twin(x, cop.get("_via") or cop.get("via", "arrays"))
            s.set(cop["out"], t)
            return "ok"
        except Exception as e:       # the builder could not make one: nothing is compared with it
            log.append(f"twin: {type(e).__name__}: {e}"[:200])
            return "REFUSED"
    if name in AFTER_SEL_OPS:
        ret = (impl1.step if _is_1d(x) else implnd.step)(s, cop, log)
        if isinstance(ret, dict) and not _is_1d(x):
            ret["_bin"] = nd_item_bin(x, cop["index"])
        return ret
    if name in AFTER_INPLACE and x is not None:
        return after_apply(s, cop, log)
    return (impl1.step if kind == "hist1" else implnd.step)(s, cop, log)


def after_unobserved(case, resolved):
    """the same (resolved) history on fresh objects WITHOUT reading anything between the calls: only the state after the last
    call is observed (reading a histogram must not be what keeps it, or a histogram derived from it, right)"""
    from .. import impl1
    s = impl1.Store()
    log: list = []
    ret = None
    for cop in resolved:
        mark = len(log)
        ret = after_exec(s, cop, log, case["kind"])
    return {"ret": ret, "regs": [None if x is None else after_snap(x) for x in s.regs], "_log": log[mark:] if resolved else []}


def after_run(case):
    from .. import impl1, implnd
    s = impl1.Store()
    log, outs, resolved = [], [], []
    cache = {}
    roles = {}
    classes = set()
    modelled = True

    def snaps():
        out = []
        for i, x in enumerate(s.regs):
            if x is None:
                out.append(None)
                continue
            classes.add(type(x).__name__)
            key = (id(x), type(x).__name__, fingerprint(x), impl1.meta_repr(x))
            if i not in cache or cache[i][0] != key:
                cache[i] = (key, after_snap(x))
            out.append(cache[i][1])
        return out

    def emit(cop, ret, mark, **extra):
        resolved.append(cop)
        outs.append({"ret": ret, "regs": snaps(), "_log": log[mark:], **extra})

    nsetup = None
    kind = case["kind"]
    for k, op in enumerate(case["ops"]):
        if k == case["nsetup"]:
            nsetup = len(resolved)
        name = op["op"]
        mark = len(log)
        x = s.regs[op["h"]] if op.get("h") is not None and op["h"] < len(s.regs) else None
        if "h" in op and x is None:
            # (only in shrunk cases / after a refused selection: the register was never made)
            modelled = False
            cop = {"op": "getitem", "h": op["h"], "out": op["out"], "index": [0]} if name == "sel" else \
                {k2: v for k2, v in op.items() if k2 not in ("tw", "place", "places", "sweep")}
            emit(cop, after_exec(s, cop, log, kind), mark)
            continue
        if name == "sel":
            cop = after_concrete_sel(op, x)
            if cop["op"] == "raw":
                modelled = False
            ret = after_exec(s, cop, log, kind)
            extra = {"_same_object": True} if ret == "ok" and s.get(cop["out"]) is x else {}
            if cop.get("out") is not None:
                roles[str(cop["out"])] = "the selection " + after_text(cop).split(" = ", 1)[-1]
            emit(cop, ret, mark, **extra)
        elif name == "twin":
            cop = dict(op, _via=twin_way(x, op.get("via", "arrays")))
            roles[str(op["out"])] = f"an independently built equal of register {op['h']}"
            emit(cop, after_exec(s, cop, log, kind), mark)
        elif "tw" in op:
            cop = after_resolve(op, x)
            if name == "set_adaptive" or cop.get("transformed"):
                modelled = False
            j = len(resolved)
            emit(cop, after_exec(s, cop, log, kind), mark)
            mark = len(log)
            cop2 = dict(cop, h=op["tw"], _twin_of=j)
            emit(cop2, after_exec(s, cop2, log, kind), mark)
        else:
            if name in ("set_adaptive", "empty_t") or op.get("transformed"):
                modelled = False
            ret = after_exec(s, op, log, kind)
            if op.get("out") is not None:
                roles[str(op["out"])] = (f"a {op['klass']}" if name == "empty_t" else
                                          "the source" if name in ("empty", "of_arrays") else
                                          f"the {name} of register {op.get('h')}" + (f" on axes {op['axes']}" if "axes" in op else ""))
            emit(op, ret, mark)
    if nsetup is None:
        nsetup = len(resolved)
    if not classes <= MODEL_CLASSES[case["kind"]]:
        modelled = False
    if any(r is not None and 0 in r["shape"] for o in outs for r in o["regs"]):
        modelled = False            # histograms without bins on some axis: how calls on them end is nobody's clause
    io = {"outs": outs, "log": log, "resolved": resolved, "_nsetup": nsetup, "_roles": roles, "_modelled": modelled,
          "_classes": sorted(classes)}
    if len(resolved) >= 2:
        io["unobserved_outs"] = outs[:-1] + [after_unobserved(case, resolved)]
    return io


def after_model_case(case, io):
    """the resolved history in the driver's op language (the twin is an equal value there: `copy`); None when the history
    leaves that language (transformed classes, 1-D results of N-d selections, set_adaptive, Ellipsis)"""
    if not io.get("_modelled"):
        return None
    ops = []
    for op in io["resolved"]:
        if op["op"] == "twin":
            ops.append({"op": "copy", "h": op["h"], "out": op["out"]})
        else:
            ops.append({k: v for k, v in op.items() if not k.startswith("_") or k == "_axis"})
    return {"kind": case["kind"], "ops": ops}


def after_tags(case, io):
    t = []
    ops, outs = io["resolved"], io["outs"]
    t.append("after:modelled" if io.get("_modelled") else "after:oracle_only")
    nsel = sum(1 for op in ops[io["_nsetup"]:] if op["op"] in AFTER_SEL_OPS)
    if nsel > 1:
        t.append("after:chain")
    twins = {}
    for k, (op, o) in enumerate(zip(ops, outs)):
        if k and op["op"] == "twin" and o["ret"] == "ok":
            a, b = o["regs"][op["h"]], o["regs"][op["out"]]
            twins[op["out"]] = op["h"]
            t.append(f"after:twin_{op.get('_via')}")
            if after_view(a) != after_view(b):
                t.append("after:twin_unequal_at_creation")
            t.append("after:target_is_selection" if "selection" in io["_roles"].get(str(op["h"]), "") else "after:target_is_source")
        if "tw" not in op and "_twin_of" not in op and op["op"] in AFTER_INPLACE and k >= io["_nsetup"]:
            h = op["h"]
            x = outs[k - 1]["regs"][h] if h < len(outs[k - 1]["regs"]) else None
            y = o["regs"][h] if h < len(o["regs"]) else None
            if x is not None and y is not None:
                if after_counts(x) != after_counts(y) and op["op"] in ("fill", "fill_n"):
                    t.append("after:target_grew")
                if o["ret"] == "REFUSED":
                    t.append("after:inplace_refused")
        if o.get("_same_object"):
            t.append("after:selection_is_the_source_object")
    return sorted(set(t))


def after_nontrivial(case, io):
    """a selection produced a histogram and an in-place operation really changed its target afterwards"""
    ops, outs = io["resolved"], io["outs"]
    sel = any(op["op"] in AFTER_SEL_OPS and o["ret"] == "ok" for op, o in zip(ops, outs))
    changed = False
    for k in range(max(io["_nsetup"], 1), len(ops)):
        op = ops[k]
        if op["op"] in AFTER_INPLACE and "_twin_of" not in op:
            h = op["h"]
            a, b = outs[k - 1]["regs"], outs[k]["regs"]
            if h < len(a) and h < len(b) and a[h] is not None and a[h] != b[h]:
                changed = True
    return sel and changed


def after_shrink(case):
    ops, ns = case["ops"], case["nsetup"]
    used = lambda r, frm: any(o.get("h") == r or o.get("tw") == r for o in ops[frm:])      # noqa: E731
    # a whole phase (the twin and the calls made on it and on its target)
    for k in range(len(ops) - 1, ns - 1, -1):
        if ops[k]["op"] == "twin":
            c = copy.deepcopy(case)
            c["ops"] = [o for j, o in enumerate(c["ops"]) if j != k and o.get("tw") != ops[k]["out"]]
            yield c
    # one in-place call
    for k in range(len(ops) - 1, ns - 1, -1):
        if "tw" in ops[k]:
            c = copy.deepcopy(case)
            del c["ops"][k]
            yield c
    # a selection nothing refers to any more / a link of the chain (its successor then selects from its source)
    for k in range(len(ops) - 1, ns - 1, -1):
        if ops[k]["op"] == "sel":
            if not used(ops[k]["out"], k + 1):
                c = copy.deepcopy(case)
                del c["ops"][k]
                yield c
            else:
                nxt = [j for j in range(k + 1, len(ops)) if ops[j]["op"] == "sel" and ops[j]["h"] == ops[k]["out"]]
                others = [j for j in range(k + 1, len(ops)) if ops[j]["op"] != "sel" and (ops[j].get("h") == ops[k]["out"])]
                if nxt and not others:
                    c = copy.deepcopy(case)
                    for j in nxt:
                        c["ops"][j]["h"] = ops[k]["h"]
                    del c["ops"][k]
                    yield c
    # single values: of a fill_n after the selection, of the data the source was built from
    for k, op in enumerate(ops):
        if len(op.get("places") or []) > 1:
            for j in range(len(op["places"])):
                c = copy.deepcopy(case)
                del c["ops"][k]["places"][j]
                if c["ops"][k].get("ws") is not None:
                    del c["ops"][k]["ws"][j]
                yield c
        for key in ("vs", "rows"):
            if k < ns and len(op.get(key) or []) > 0 and "places" not in op:
                for j in range(len(op[key])):
                    c = copy.deepcopy(case)
                    del c["ops"][k][key][j]
                    if c["ops"][k].get("ws") is not None:
                        del c["ops"][k]["ws"][j]
                    yield c
    # a second value outside in one fill
    for k, op in enumerate(ops):
        if len((op.get("place") or {}).get("out") or []) > 1:
            for j in range(len(op["place"]["out"])):
                c = copy.deepcopy(case)
                del c["ops"][k]["place"]["out"][j]
                yield c


def after_neighbours(case):
    """after a difference between model and implementation: the same history followed, for every register in turn, by
    values beyond each axis (and a few other in-place calls), each against a fresh twin"""
    ops = case["ops"]
    regs = sorted({o["out"] for o in ops if o.get("out") is not None and o["op"] != "twin"})
    free = 1 + max([o.get("out") or 0 for o in ops] + [o.get("h") or 0 for o in ops])
    for r in regs:
        for a in range(3):
            for side in ("right", "left"):
                c = copy.deepcopy(case)
                c["ops"].append({"op": "twin", "h": r, "out": free, "via": "arrays"})
                c["ops"].append({"op": "fill", "h": r, "tw": free, "w": "1", "wk": "pyint", "default_w": True,
                                 "place": {"out": [{"axis": a, "side": side, "j": 5}], "in": [0, 0, 0, 0]}})
                yield c
        for extra in ({"op": "imul", "c": "3", "k": "pyint"}, {"op": "merge", "amount": 2, "inplace": True, "axis": None},
                      {"op": "set_dtype", "dtype": "float64"}):
            c = copy.deepcopy(case)
            c["ops"].append({"op": "twin", "h": r, "out": free, "via": "arrays"})
            c["ops"].append(dict(extra, h=r, tw=free))
            yield c


PROP = C11()

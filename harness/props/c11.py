"""C11 — indexing and slicing follow numpy semantics on the bin grid (1-D here; ND in c11nd ops)."""
from __future__ import annotations

import copy
from fractions import Fraction

import numpy as np

from .. import gen1
from ..core import rs
from .base1 import Hist1Prop
from .c10 import rand_hist_op


class C11(Hist1Prop):
    ID = "C11"
    N_QUICK = 500
    N_THOROUGH = 12000
    RULE = ("1-D histograms with 1-8 bins (gaps allowed, fixed-width binnings too), arbitrary contents / errors / under- / "
            "overflow, keep_missed on/off x index expression: int (incl. negative, out of range), slice with start/stop in "
            "[-n-2, n+2] or None (and steps 1, 2, -1, 0: refused), boolean mask (right / wrong length), integer index array or "
            "list (negative, unsorted, duplicated, out of range). Thorough tier enumerates all slices for n <= 5 exhaustively. "
            "History stream (every 8th case, oracle only): one 1-D / 2-3-d histogram object (adaptive fixed-width, fixed-width "
            "made adaptive later, static) is indexed (slice / mask / index array / int / reversed slice; per-axis ints and "
            "slices, select, too many indices), then changed in place keeping its identity (fill / fill_n inside, left and "
            "right of the range, merge_bins, *=, /=, += / -= another (adaptive) histogram, set_dtype, set_adaptive, "
            "normalize), then indexed again with the same and with other expressions (sizes follow the current bin count), "
            "1-3 rounds: every selection is compared with numpy indexing of the bins / contents / errors the object has at "
            "that moment. For a full tuple of integers on an N-d histogram (both streams) the returned edges are compared with the "
            "bin's edges as well. non-trivial = the selection is a proper non-empty subset (history: after a change); distinct = "
            "hash of the op list")
    FIELDS = {"bins", "freq", "err2", "under", "over", "total", "dtype", "keep"}

    def gen_case(self, rng, k, tier):
        if k % 8 == 3:
            return history_gen_nd(rng) if rng.random() < 0.35 else history_gen_1d(rng)
        if rng.random() < 0.45:
            from . import nd_parts
            return nd_parts.c11_gen(rng)
        pairs, t = gen1.rising_bins(rng)
        init = rand_hist_op(rng, pairs)
        if rng.random() < 0.15:
            w = rng.choice([1.0, 0.5, 0.1])
            init["binning"] = gen1.fixed_json(w, rng.randint(-3, 3), len(pairs))
        n = len(pairs)
        kind = rng.choice(["int", "slice", "slice", "slice", "mask", "array", "array", "badslice"])
        if kind == "int":
            op = {"op": "item", "h": 0, "i": rng.randint(-n - 1, n)}
            if rng.random() < 0.4:
                op["ik"] = rng.choice(["int64", "int32", "intp", "int16"])     # a numpy integer is an integer index too
        elif kind == "slice":
            c = [None] + list(range(-n - 2, n + 3))
            op = {"op": "slice", "h": 0, "start": rng.choice(c), "stop": rng.choice(c), "out": 1}
        elif kind == "badslice":
            op = {"op": "invalid", "what": "slice_step", "h": 0, "step": rng.choice([1, 2, -1, 0]),
                  "start": rng.choice([None, 0, 1]), "stop": rng.choice([None, n, -1])}
        elif kind == "mask":
            m = n if rng.random() < 0.8 else n + rng.choice([-1, 1])
            op = {"op": "mask", "h": 0, "mask": [rng.random() < 0.5 for _ in range(max(m, 0))], "out": 1}
        else:
            m = rng.randint(0, n + 1)
            lo, hi = (-n, n - 1) if rng.random() < 0.85 else (-n - 2, n + 1)
            op = {"op": "index_array", "h": 0, "idx": [rng.randint(lo, hi) for _ in range(m)], "out": 1,
                  "as_list": rng.random() < 0.3}
            if m == 0:
                op["as_list"] = False
        return {"kind": "hist1", "ops": [init, op], "tags": ["kind:" + kind]}

    def exhaustive_cases(self, tier):
        if tier != "thorough":
            return
        import random
        rng = random.Random(11)
        for n in range(1, 6):
            pairs = [[float(i), float(i + 1)] for i in range(n)]
            init = rand_hist_op(rng, pairs, keep=True)
            c = [None] + list(range(-n - 2, n + 3))
            for a in c:
                for b in c:
                    yield {"kind": "hist1", "ops": [init, {"op": "slice", "h": 0, "start": a, "stop": b, "out": 1}],
                           "tags": ["exhaustive_slices"]}

    def run_impl(self, case):
        from .. import impl1
        if case.get("history"):
            return history_run(case)
        op = case["ops"][1]
        if op["op"] != "invalid" or case.get("kind") == "histn":
            io = super().run_impl(case)
            if case.get("kind") == "histn" and isinstance(io["outs"][1]["ret"], dict):
                # a full tuple of integers: the generic N-d runner reports the content only; the edges of the bin are read
                # here, from the same call on an identically built histogram (a private key: not part of the model diff)
                from .. import implnd
                s = impl1.Store()
                implnd.step(s, case["ops"][0], [])
                io["outs"][1]["ret"]["_bin"] = nd_item_bin(s.get(op["h"]), op["index"])
            return io
        s = impl1.Store()
        log = []
        outs = [{"ret": impl1.step(s, case["ops"][0], log), "regs": [impl1.snap1(h) for h in s.regs]}]
        h = s.get(0)
        try:
            h[slice(op["start"], op["stop"], op["step"])]
            ret = "accepted"
        except Exception as e:
            log.append(f"{type(e).__name__}: {e}"[:200])
            ret = "REFUSED"
        outs.append({"ret": ret, "regs": [impl1.snap1(h) for h in s.regs]})
        return {"outs": outs, "log": log}

    def shrink_candidates(self, case):
        if not case.get("history"):
            return
        ops, ns = case["ops"], case["nsetup"]
        for k in range(len(ops) - 1, ns - 1, -1):          # any operation after the setup
            c = copy.deepcopy(case)
            del c["ops"][k]
            yield c
        if not any(o.get("o") == 1 for o in ops[ns:]):      # the operand of += / -= when it is not used any more
            keep = [o for o in ops[:ns] if o.get("out") != 1 and o.get("h") != 1]
            if len(keep) < ns:
                c = copy.deepcopy(case)
                c["ops"] = copy.deepcopy(keep) + c["ops"][ns:]
                c["nsetup"] = len(keep)
                yield c
        for k, op in enumerate(ops):                        # single values of a batch
            for key in ("vs", "rows"):
                if k >= 1 and len(op.get(key) or []) > 1 and op.get("ws") is None:
                    for j in range(len(op[key])):
                        c = copy.deepcopy(case)
                        del c["ops"][k][key][j]
                        yield c

    def model_case(self, case, io):
        # histories are outside the model's two-op language for this property: oracle only
        return None if case.get("history") else case

    def tags(self, case, io):
        t = super().tags(case, io)
        if case.get("history"):
            seen = [o["before"]["bins"] for o in io["outs"] if "before" in o]
            if any(a != b for a, b in zip(seen, seen[1:])):
                t.append("history:indexed_again_after_the_bins_changed")
            counts = [[len(ax) for ax in b] if case["kind"] == "histn" else len(b) for b in seen]
            if any(a != b for a, b in zip(counts, counts[1:])):
                t.append("history:indexed_again_after_the_bin_count_changed")
        return t

    def oracle(self, case, io):
        if case.get("history"):
            return self.oracle_history(case, io)
        if case.get("kind") == "histn":
            from . import nd_parts
            fails = nd_parts.c11_oracle(case, io)
            ret, src = io["outs"][1]["ret"], io["outs"][0]["regs"][0]
            if isinstance(ret, dict) and "_bin" in ret:
                # "an integer index returns that bin's edges and content": the edges, per axis
                want = [src["bins"][a][i] for a, i in enumerate(case["ops"][1]["index"])]
                if ret["_bin"] != want:
                    fails.append(f"item_bin: h{case['ops'][1]['index']} returned the edges {ret['_bin']}, the bin is {want}")
            return fails
        outs, ops = io["outs"], case["ops"]
        fails = []
        if outs[0]["ret"] == "REFUSED":
            return ["refused_valid: setup refused: " + "; ".join(io["log"][:2])]
        op = ops[1]
        src = outs[0]["regs"][0]
        n = len(src["bins"])
        if outs[1]["regs"][0] != src:
            fails.append("source_modified: indexing modified the source histogram")
        from ..impl1 import edges_consistent
        for i, r in enumerate(outs[1]["regs"]):
            if r is not None and not edges_consistent(r["bins"], r.get("_numpy_bins")):
                fails.append(f"edges_differ: register {i}: numpy_bins {r['_numpy_bins']} are not the edges of its bins {r['bins']}")
        ret = outs[1]["ret"]
        arr = np.arange(n)
        if op["op"] == "invalid":
            # an explicit step: reversed / strided slices are refused (step 1 is also refused by physt; only
            # "reversed slices are refused" is pinned by the property)
            if op["step"] is not None and op["step"] < 0 and ret != "REFUSED":
                fails.append("accepted_reversed: a reversed slice was accepted")
            return fails
        if op["op"] == "item":
            i = op["i"]
            if -n <= i < n:
                if ret == "REFUSED":
                    fails.append(f"refused_valid: h[{i}] refused")
                elif ret["bin"] != src["bins"][i] or Fraction(ret["value"]) != Fraction(src["freq"][i]):
                    fails.append(f"item: h[{i}] = {ret}, expected {src['bins'][i]}, {src['freq'][i]}")
            elif ret != "REFUSED":
                fails.append(f"accepted_invalid: h[{i}] out of range accepted")
            return fails
        if op["op"] == "slice":
            sel = list(arr[slice(op["start"], op["stop"])])
        elif op["op"] == "mask":
            if len(op["mask"]) != n:
                if ret != "REFUSED":
                    fails.append("accepted_invalid: mask of the wrong size accepted")
                return fails
            sel = [i for i in range(n) if op["mask"][i]]
        else:
            if any(not (-n <= i < n) for i in op["idx"]):
                if ret != "REFUSED":
                    fails.append("accepted_invalid: out-of-range index array accepted")
                return fails
            sel = sorted({i % n for i in op["idx"]}) if n else []
        if ret == "REFUSED":
            fails.append(f"refused_valid: {op} refused: " + "; ".join(io["log"][:2]))
            return fails
        res = outs[1]["regs"][1]
        if res["bins"] != [src["bins"][i] for i in sel]:
            fails.append(f"sel_bins: bins {res['bins']} are not bins {sel} of the source")
        if [Fraction(x) for x in res["freq"]] != [Fraction(src["freq"][i]) for i in sel]:
            fails.append(f"sel_content: contents {res['freq']} are not contents {sel} of {src['freq']}")
        if [Fraction(x) for x in res["err2"]] != [Fraction(src["err2"][i]) for i in sel]:
            fails.append(f"sel_err2: squared errors {res['err2']} are not entries {sel} of {src['err2']}")
        if res["dtype"] != src["dtype"]:
            fails.append("sel_dtype: dtype changed")
        if op["op"] == "slice":
            if sel and src["keep"] and src["under"] is not None and src["over"] is not None:
                left = sum((Fraction(src["freq"][i]) for i in range(0, sel[0])), Fraction(0))
                right = sum((Fraction(src["freq"][i]) for i in range(sel[-1] + 1, n)), Fraction(0))
                # exact, except after an in-place normalisation in a history: the contents are rounded quotients then, and
                # the implementation's sums of them are rounded again (float64 there: narrow types are not asked for)
                slack = Fraction(1, 10**12) if case.get("rounded") else 0

                def same(a, b):
                    return abs(a - b) <= slack * (1 + abs(b))
                if res["under"] is None or not same(Fraction(res["under"]), Fraction(src["under"]) + left):
                    fails.append(f"slice_underflow: underflow {res['under']}, expected {Fraction(src['under']) + left}")
                if res["over"] is None or not same(Fraction(res["over"]), Fraction(src["over"]) + right):
                    fails.append(f"slice_overflow: overflow {res['over']}, expected {Fraction(src['over']) + right}")
                if res["under"] is not None and res["over"] is not None:
                    if not same(Fraction(res["total"]) + Fraction(res["under"]) + Fraction(res["over"]),
                                Fraction(src["total"]) + Fraction(src["under"]) + Fraction(src["over"])):
                        fails.append("slice_conservation: total + underflow + overflow not conserved")
        else:
            if res["under"] is not None or res["over"] is not None:
                fails.append(f"noncontiguous_known: under/overflow read {res['under']}/{res['over']} after a mask / index-array selection")
        return fails[:6]

    def oracle_history(self, case, io):
        """every index step of a history is judged like a single selection, against the snapshot of the object taken
        through the public properties immediately before that step"""
        fails = []
        changes = 0
        rounded = False
        for j, (op, o) in enumerate(zip(case["ops"], io["outs"])):
            rounded = rounded or op["op"] == "normalize"
            if "before" not in o:
                if j < case["nsetup"] and o["ret"] == "REFUSED":
                    return ["refused_valid: setup refused: " + "; ".join(io["log"][:2])]
                changes += j >= case["nsetup"] and o["ret"] != "REFUSED"
                continue
            one = {"kind": case["kind"], "ops": [None, o["op"]], "rounded": rounded}
            one_io = {"outs": [{"ret": "ok", "regs": [o["before"]]},
                               {"ret": o["ret"], "regs": [o["after"], o["res"]]}], "log": o["log"]}
            for f in self.oracle(one, one_io):
                sig, _, rest = f.partition(":")
                expr = "" if str(o["op"]) in rest else f"{o['op']}, "
                fails.append(f"{sig}: op {j} ({expr}after {changes} in-place changes of the same object):{rest}")
        return fails[:6]

    def nontrivial(self, case, io):
        o = io["outs"]
        if case.get("history"):
            changed = False
            for j, x in enumerate(o):
                if "before" not in x:
                    changed = changed or (j >= case["nsetup"] and x["ret"] != "REFUSED")
                elif changed and x["ret"] == "ok" and x["res"] is not None:
                    if case["kind"] == "histn":
                        if x["res"]["shape"] != x["before"]["shape"]:
                            return True
                    elif 0 < len(x["res"]["bins"]) < len(x["before"]["bins"]):
                        return True
            return False
        if case.get("kind") == "histn":
            return o[1]["ret"] == "ok" and len(o[1]["regs"]) > 0 and o[1]["regs"][-1] is not None and o[1]["regs"][-1]["shape"] != o[0]["regs"][0]["shape"]
        try:
            return o[1]["ret"] == "ok" and 0 < len(o[1]["regs"][1]["bins"]) < len(o[0]["regs"][0]["bins"])
        except Exception:
            return False


# ------------------------------------------------------------------------------------------ histories
# The same object is indexed, changed in place (identity kept), and indexed again. Index expressions are stored relative to
# the bin count the object has when they are evaluated (it is not known to the generator: an adaptive histogram grows) and
# are made concrete by `concrete_1d` / `concrete_nd` from the public bin count; the concrete expression is kept in the
# output of the step, where the oracle (and the reader of a replay) finds it.
INDEX_OPS = {"slice", "mask", "index_array", "item", "rev_slice", "getitem", "select", "invalid"}
W_POOL = [1.0, 1.0, 0.5, 2.0, 0.25, 0.1]


def _pos(raw, neg, oob, n):
    """an index for an axis of n bins: in range (counted from the left or the right), or just outside"""
    if oob:
        return n + raw % 2 if not neg else -n - 1 - raw % 2
    if n == 0:
        return 0
    return raw % n - (n if neg else 0)


def _rel_pos(rng):
    return {"i": rng.randint(0, 59), "neg": rng.random() < 0.3, "oob": rng.random() < 0.06}


def _slice_ends(rng):
    c = [None, None] + list(range(-7, 9))
    return rng.choice(c), rng.choice(c)


def index_op_1d(rng):
    kind = rng.choice(["slice"] * 4 + ["mask"] * 2 + ["array"] * 2 + ["int", "rev"])
    if kind == "slice":
        a, b = _slice_ends(rng)
        return {"op": "slice", "h": 0, "start": a, "stop": b, "out": 2}
    if kind == "mask":
        return {"op": "mask", "h": 0, "pat": [rng.random() < 0.5 for _ in range(rng.randint(1, 5))],
                "dn": 0 if rng.random() < 0.85 else rng.choice([-1, 1]), "out": 2}
    if kind == "array":
        m = rng.randint(0, 4)
        return {"op": "index_array", "h": 0, "rel": [_rel_pos(rng) for _ in range(m)], "as_list": m > 0 and rng.random() < 0.3,
                "out": 2}
    if kind == "int":
        return {"op": "item", "h": 0, "rel": _rel_pos(rng)}
    return {"op": "rev_slice", "h": 0, "start": rng.choice([None, 0, 1, -1]), "stop": rng.choice([None, 0, -1]),
            "step": rng.choice([-1, -1, -2])}


def concrete_1d(op, n):
    o = {k: v for k, v in op.items() if k not in ("rel", "pat", "dn")}
    if op["op"] == "mask":
        o["mask"] = [op["pat"][i % len(op["pat"])] for i in range(max(n + op["dn"], 0))]
    elif op["op"] == "index_array":
        o["idx"] = [_pos(r["i"], r["neg"], r["oob"], n) for r in op["rel"]]
    elif op["op"] == "item":
        o["i"] = _pos(op["rel"]["i"], op["rel"]["neg"], op["rel"]["oob"], n)
    elif op["op"] == "rev_slice":
        o.update({"op": "invalid", "what": "slice_step"})
    return o


def index_op_nd(rng, d, names):
    kind = rng.choice(["tuple"] * 4 + ["select", "select", "bare", "bad"])

    def sub():
        if rng.random() < 0.5:
            return _rel_pos(rng)
        c = [None, None] + list(range(-5, 7))
        return {"s": [rng.choice(c), rng.choice(c)]}
    if kind == "tuple":
        return {"op": "getitem", "h": 0, "rel": [sub() for _ in range(rng.randint(1, d))], "out": 2}
    if kind == "bare":
        return {"op": "getitem", "h": 0, "rel": [sub()], "out": 2, "bare": True}
    if kind == "select":
        ax = rng.randrange(d)
        return {"op": "select", "h": 0, "axis": names[ax] if names and rng.random() < 0.3 else ax, "_axis": ax,
                "rel": sub(), "out": 2}
    return {"op": "invalid", "what": rng.choice(["too_many_indices", "neg_step"]), "h": 0}


def concrete_nd(op, shape):
    o = {k: v for k, v in op.items() if k != "rel"}

    def sub(r, n):
        return r if "s" in r else _pos(r["i"], r["neg"], r["oob"], n)
    if op["op"] == "getitem":
        o["index"] = [sub(r, shape[i]) for i, r in enumerate(op["rel"])]
    elif op["op"] == "select":
        o["index"] = sub(op["rel"], shape[op["_axis"]])
    return o


def _vals(rng, lo, hi, w, where):
    """a value inside [lo, hi) or up to three bin widths to the left / right of it (on a grid of w / 4)"""
    q = w / 4
    if where == "in":
        return lo + q * rng.randint(0, max(int(round((hi - lo) / q)) - 1, 0))
    if where == "left":
        return lo - q * rng.randint(1, 12)
    return hi + q * rng.randint(0, 11)


def _scalar_change(rng, state):
    kind = rng.choice(["imul", "imul", "idiv", "set_dtype", "normalize"])
    if kind == "imul":
        c, k = rng.choice([("2", "pyint"), ("3", "pyint"), ("1/2", "pyfloat"), ("2", "float32"), ("1/4", "float64")])
        return {"op": "imul", "h": 0, "c": c, "k": k}
    if kind == "idiv":
        c, k = rng.choice([("2", "pyint"), ("4", "pyint"), ("1/2", "pyfloat")])
        return {"op": "idiv", "h": 0, "c": c, "k": k}
    if kind == "set_dtype":
        # after a normalisation the contents are rounded quotients: no narrow float types from there on (their sums would
        # be rounded at that type's precision)
        return {"op": "set_dtype", "h": 0, "via_property": rng.random() < 0.5,
                "dtype": rng.choice(["int64", "float64"] if state.get("rounded") else ["int64", "float64", "float32", "int32", "float16"])}
    state["rounded"] = True
    return {"op": "normalize", "h": 0, "inplace": True, "percent": rng.random() < 0.3}


def _rounds(rng, index_op, change_op):
    """index - change - index - ...; the first expression is evaluated again at the end"""
    ops = []
    first = index_op()
    ops.append(first)
    if rng.random() < 0.5:
        ops.append(index_op())
    for _ in range(rng.randint(1, 3)):
        for _ in range(rng.choice([1, 1, 2])):
            ops.append(change_op())
        for _ in range(rng.choice([1, 2, 2])):
            ops.append(copy.deepcopy(first) if rng.random() < 0.35 else index_op())
    ops.append(copy.deepcopy(first))
    return ops


def history_gen_1d(rng):
    style = rng.choice(["adaptive"] * 3 + ["fixed", "static"])
    ops = []
    if style == "static":
        pairs, _ = gen1.rising_bins(rng)
        ops.append(rand_hist_op(rng, pairs, out=0))
        ops.append(rand_hist_op(rng, pairs, out=1))
        ops[1]["binning"] = ops[0]["binning"]
        w = (pairs[-1][1] - pairs[0][0]) / len(pairs)
        rng_ = [pairs[0][0], pairs[-1][1]]
    else:
        w = rng.choice(W_POOL)
        tmin, cnt = rng.randint(-3, 3), rng.randint(1, 4)
        rng_ = [tmin * w, (tmin + cnt) * w]
        for reg in (0, 1):
            t, c = (tmin, cnt) if reg == 0 else (tmin + rng.randint(-3, 3), rng.randint(1, 3))
            if reg == 1 and rng.random() < 0.25:
                t, c = tmin, cnt
            ops.append({"op": "empty", "out": reg, "keep": rng.random() < 0.85, "dtype": rng.choice([None, None, "float64", "int32"]),
                        "binning": gen1.fixed_json(w, t, c, adaptive=(style == "adaptive") if reg == 0 else rng.random() < 0.6)})
            vs = [_vals(rng, t * w, (t + c) * w, w, "in") for _ in range(rng.randint(0, 4))]
            ops.append({"op": "fill_n", "h": reg, "vs": gen1.enc_vals(vs), "ws": None})
    ns = len(ops)
    state = {}

    def change():
        grow = 0.6 if style != "static" else 0.3
        r = rng.random()
        if r < grow:
            where = rng.choice(["left", "right", "left", "right", "in"])
            if rng.random() < 0.5:
                v = _vals(rng, rng_[0], rng_[1], w, where)
                wt, wk = rng.choice([(1, "pyint"), (1, "pyint"), (2, "pyint"), (0.5, "pyfloat")])
                op = {"op": "fill", "h": 0, "v": rs(v), "w": rs(wt), "wk": wk, "default_w": wt == 1 and rng.random() < 0.5}
                vs = [v]
            else:
                vs = [_vals(rng, rng_[0], rng_[1], w, rng.choice([where, "in"])) for _ in range(rng.randint(1, 4))]
                ws = None if rng.random() < 0.6 else [rs(rng.randint(0, 8) / 2) for _ in vs]
                op = {"op": "fill_n", "h": 0, "vs": gen1.enc_vals(vs), "ws": ws, "wkind": None if ws is None else "float64"}
            if style != "static":
                rng_[0], rng_[1] = min([rng_[0]] + vs), max([rng_[1]] + vs)
            return op
        if r < grow + 0.1:
            return {"op": "merge", "h": 0, "amount": rng.randint(1, 3), "inplace": True}
        if r < grow + 0.2:
            return {"op": rng.choice(["iadd", "iadd", "iadd", "isub"]), "h": 0, "o": 1}
        if r < grow + 0.27 and style == "fixed":
            return {"op": "set_adaptive", "h": 0, "value": True}
        if r < grow + 0.3:
            return {"op": "set_adaptive", "h": 0, "value": rng.random() < 0.7}
        return _scalar_change(rng, state)

    ops += _rounds(rng, lambda: index_op_1d(rng), change)
    return {"kind": "hist1", "history": True, "nsetup": ns, "ops": ops, "tags": ["stream:history", "history:1d", "style:" + style]}


def history_gen_nd(rng):
    d = rng.choice([2, 2, 3])
    style = rng.choice(["adaptive"] * 3 + ["mixed", "static"])
    from .. import gennd
    axes, axes1, spans, widths = [], [], [], []
    for a in range(d):
        if style == "adaptive" or (style == "mixed" and (a == 0 or rng.random() < 0.5)):
            w = rng.choice(W_POOL)
            tmin, cnt = rng.randint(-3, 3), rng.randint(1, 3)
            axes.append(gen1.fixed_json(w, tmin, cnt, adaptive=True))
            axes1.append(gen1.fixed_json(w, tmin + rng.randint(-2, 2), rng.randint(1, 3), adaptive=True) if rng.random() < 0.75 else axes[-1])
            spans.append([tmin * w, (tmin + cnt) * w, True])
        else:
            b, pairs, _ = gennd.axis_binning(rng, maxbins=3, allow_fixed=style == "static")
            w = (pairs[-1][1] - pairs[0][0]) / len(pairs)
            axes.append(b)
            axes1.append(b)
            spans.append([pairs[0][0], pairs[-1][1], False])
        widths.append(w)
    names = [f"ax{i}" for i in range(d)] if rng.random() < 0.5 else None

    def row(where=None):
        return [_vals(rng, spans[a][0], spans[a][1], widths[a], where or rng.choice(["in", "in", "in", "left", "right"])) for a in range(d)]

    def note(rows):
        for r in rows:
            for a in range(d):
                if spans[a][2]:
                    spans[a][0], spans[a][1] = min(spans[a][0], r[a]), max(spans[a][1], r[a])

    ops = []
    for reg, ax in ((0, axes), (1, axes1)):
        ops.append({"op": "empty", "out": reg, "axes": ax, "names": names, "keep": rng.random() < 0.85,
                    "dtype": rng.choice([None, None, "float64", "int32"])})
        if reg == 0:
            rows = [row("in") for _ in range(rng.randint(0, 4))]
        else:       # inside its own axes, so that it has no missed values
            rows = [[_vals(rng, fl_(b, 0), fl_(b, 1), widths[a], "in") for a, b in enumerate(ax)] for _ in range(rng.randint(0, 3))]
        ops.append({"op": "fill_n", "h": reg, "rows": gennd.enc_rows(rows), "ws": None})
    ns = len(ops)
    state = {}

    def change():
        r = rng.random()
        if r < 0.6:
            if rng.random() < 0.5:
                rows = [row()]
                wt, wk = rng.choice([(1, "pyint"), (1, "pyint"), (2, "pyint"), (0.5, "pyfloat")])
                op = {"op": "fill", "h": 0, "v": gennd.enc_rows(rows)[0], "w": rs(wt), "wk": wk, "default_w": wt == 1 and rng.random() < 0.5}
            else:
                rows = [row() for _ in range(rng.randint(1, 4))]
                ws = None if rng.random() < 0.6 else [rs(rng.randint(0, 8) / 2) for _ in rows]
                op = {"op": "fill_n", "h": 0, "rows": gennd.enc_rows(rows), "ws": ws, "wkind": None if ws is None else "float64"}
            note(rows)
            return op
        if r < 0.7:
            return {"op": "merge", "h": 0, "amount": rng.randint(1, 2), "inplace": True, "axis": rng.choice([None] + list(range(d)))}
        if r < 0.8:
            return {"op": rng.choice(["iadd", "iadd", "iadd", "isub"]), "h": 0, "o": 1}
        if r < 0.84:
            return {"op": "set_adaptive", "h": 0, "value": rng.random() < 0.7}
        return _scalar_change(rng, state)

    ops += _rounds(rng, lambda: index_op_nd(rng, d, names), change)
    return {"kind": "histn", "history": True, "nsetup": ns, "ops": ops,
            "tags": ["stream:history", "history:nd", "nd", f"d:{d}", "style:" + style]}


def fl_(b, side):
    """left / right end of a binning json (as a float)"""
    if b["t"] == "fixed":
        w, s = float(Fraction(b["w"])), float(Fraction(b["shift"]))
        return (b["tmin"] + (b["count"] if side else 0)) * w + s
    return float(Fraction(b["bins"][-1][1] if side else b["bins"][0][0]))


def nd_item_bin(h, index):
    """the edges h[i, j, ...] reports for a full tuple of integers: [[left, right] per axis], or the refusal"""
    try:
        edges, _ = h[tuple(int(i) for i in index)]
        return [[rs(l), rs(r)] for l, r in edges]
    except Exception as e:
        return f"REFUSED ({type(e).__name__})"


def fingerprint(h):
    """everything a snapshot shows, read through the same public properties, in a form that is cheap to compare"""
    def raw(a):
        a = np.asarray(a)
        return (a.shape, str(a.dtype), a.tobytes())
    binnings = [h.binning] if h.ndim == 1 else list(h.binnings)
    edges = []
    for b in binnings:
        try:
            edges.append(raw(b.numpy_bins))
        except Exception:
            edges.append(None)
    missed = (repr(h.underflow), repr(h.overflow), repr(h.inner_missed)) if h.ndim == 1 else repr(h.missed)
    return ([raw(b) for b in ([h.bins] if h.ndim == 1 else h.bins)], edges, raw(h.frequencies), raw(h.errors2), missed,
            bool(h.keep_missed), str(h.dtype), repr(h.total), bool(h.is_adaptive()), tuple(h.axis_names),
            [(type(b).__name__, bool(b.is_adaptive()), bool(b.includes_right_edge)) for b in binnings],
            repr(getattr(h, "statistics", None)))


def history_run(case):
    from .. import impl1, implnd
    nd = case["kind"] == "histn"
    step, snap = (implnd.step, implnd.snapn) if nd else (impl1.step, impl1.snap1)
    s = impl1.Store()
    log, outs = [], []
    last = None
    for op in case["ops"]:
        mark = len(log)
        if op["op"] == "set_adaptive":
            try:
                s.get(op["h"]).set_adaptive(op["value"])
                ret = "ok"
            except Exception as e:
                log.append(f"set_adaptive: {type(e).__name__}: {e}"[:200])
                ret = "REFUSED"
            outs.append({"ret": ret})
            continue
        if op["op"] not in INDEX_OPS:
            outs.append({"ret": step(s, op, log)})
            continue
        h = s.get(op["h"])
        mark_fp = fingerprint(h)
        if last is None or last[0] != mark_fp:      # (unchanged since the last selection: the same snapshot serves)
            last = (mark_fp, snap(h))
        before = last[1]
        cop = concrete_nd(op, [int(x) for x in h.shape]) if nd else concrete_1d(op, int(h.shape[0]))
        if cop["op"] == "invalid" and not nd:
            try:
                h[slice(cop["start"], cop["stop"], cop["step"])]
                ret = "accepted"
            except Exception as e:
                log.append(f"{type(e).__name__}: {e}"[:200])
                ret = "REFUSED"
        else:
            ret = step(s, cop, log)
            if nd and isinstance(ret, dict):
                ret["_bin"] = nd_item_bin(h, cop["index"])
        res = None
        if ret == "ok":
            res = snap(s.get(cop["out"]))
            s.set(cop["out"], None)
        # the source after the selection: the snapshot taken before it when nothing observable changed, a new one otherwise
        after = before if fingerprint(h) == mark_fp else snap(h)
        outs.append({"ret": ret, "op": cop, "before": before, "after": after, "res": res, "log": log[mark:]})
    return {"outs": outs, "log": log}


PROP = C11()

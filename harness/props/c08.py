"""C08 — JSON round trip reproduces the histogram exactly."""
from __future__ import annotations

import copy
import json
import math
import os
import re
import tempfile
import warnings
from fractions import Fraction

import numpy as np

from .. import gen1, gennd, impl1, implnd
from ..core import nrs, rs
from ..runner import diff_outputs
from .c09 import rand_nd_op
from .c16 import KIND, axis_edges

warnings.simplefilter("ignore")

SPECIAL = ["RadialHistogram", "AzimuthalHistogram", "PolarHistogram", "SphericalSurfaceHistogram", "SphericalHistogram",
           "CylindricalHistogram", "CylindricalSurfaceHistogram"]


def pub(h):
    """public snapshot of the fields the property pins"""
    from physt.histogram1d import Histogram1D
    from physt.binnings import FixedWidthBinning
    one = isinstance(h, Histogram1D)
    binnings = [h.binning] if one else list(h.binnings)
    bins = [h.bins] if one else h.bins
    d = {"class": type(h).__name__,
         "binning_types": [type(b).__name__ for b in binnings],
         "bins": [[[rs(l), rs(r)] for l, r in np.asarray(b).reshape(-1, 2)] for b in bins],
         "freq": [nrs(x) for x in np.asarray(h.frequencies).ravel()],
         "err2": [nrs(x) for x in np.asarray(h.errors2).ravel()],
         "shape": list(np.asarray(h.frequencies).shape),
         "dtype": str(h.dtype), "keep_missed": bool(h.keep_missed), "adaptive": bool(h.is_adaptive()),
         "adaptive_axes": [bool(b.is_adaptive()) for b in binnings],
         "name": h.name, "title": h.title, "axis_names": [None if n is None else str(n) for n in h.axis_names],
         "meta": {k: v for k, v in h.meta_data.items() if k not in ("name", "title", "axis_names")}}
    if one:
        d["missed"] = [nrs(h.underflow), nrs(h.overflow), nrs(h.inner_missed)]
    else:
        d["missed"] = [nrs(h.missed)]
    d["ire"] = [bool(b.includes_right_edge) for b in binnings]
    d["grid"] = [[rs(b.bin_width), rs(b._shift), int(b._times_min or 0), int(b.bin_count)] if isinstance(b, FixedWidthBinning) else None
                 for b in binnings]
    return d


def snap(obj):
    """pub() of a histogram, or name / title / pub() of every member of a collection"""
    from physt.histogram_collection import HistogramCollection
    if isinstance(obj, HistogramCollection):
        # a collection without a title of its own shows its name (the constructor's rule; when it is applied is not pinned)
        return {"class": type(obj).__name__, "name": obj.name, "title": obj.title or obj.name, "members": [pub(m) for m in obj.histograms]}
    return pub(obj)


def wellformed(obj):
    """contents and squared errors have the shape the binnings give (anything else is not a histogram C08 speaks about)"""
    from physt.histogram_collection import HistogramCollection
    from physt.histogram1d import Histogram1D
    if isinstance(obj, HistogramCollection) and not all(m.binning == obj.binning for m in obj.histograms):
        return False            # the class's own invariant (constructor, add): one binning for all members
    for h in (obj.histograms if isinstance(obj, HistogramCollection) else [obj]):
        bs = [h.binning] if isinstance(h, Histogram1D) else list(h.binnings)
        shape = tuple(int(b.bin_count) for b in bs)
        if tuple(np.shape(h.frequencies)) != shape or tuple(np.shape(h.errors2)) != shape:
            return False
        if any(len(np.asarray(b.bins).reshape(-1, 2)) != b.bin_count for b in bs):
            return False
    return True


FIELDS = ("class", "binning_types", "bins", "freq", "err2", "shape", "dtype", "missed", "keep_missed", "adaptive", "adaptive_axes",
          "name", "title", "axis_names", "meta", "grid")


def compare(a, b, where):
    """field by field: the property's list"""
    fails = []
    if "members" in a or "members" in b:
        if b.get("class") != "HistogramCollection" or "members" not in b:
            return [f"class: {where}: collection parsed as {b.get('class')}"]
        if a["name"] != b["name"] or a["title"] != b["title"]:
            fails.append(f"collection_meta: {where}: name/title {a['name']}/{a['title']} -> {b['name']}/{b['title']}")
        if len(a["members"]) != len(b["members"]):
            fails.append(f"collection_members: {where}: member count {len(a['members'])} -> {len(b['members'])}")
        pairs = [(f"{where}: member{i}", x, y) for i, (x, y) in enumerate(zip(a["members"], b["members"]))]
    else:
        pairs = [(where, a, b)]
    for name, x, y in pairs:
        for f in FIELDS:
            if x[f] != y[f]:
                if f == "missed" and not x["keep_missed"]:
                    continue
                fails.append(f"roundtrip_{f}: {name}: {x[f]} -> {y[f]}")
    return fails


def doc_diff(a, b, path=""):
    """entries (per histogram) in which two documents differ"""
    if isinstance(a, dict) and isinstance(b, dict) and "histograms" in a and "histograms" in b and len(a["histograms"]) == len(b["histograms"]):
        out = [k for k in sorted(set(a) | set(b)) if k != "histograms" and a.get(k) != b.get(k)]
        for i, (x, y) in enumerate(zip(a["histograms"], b["histograms"])):
            out += doc_diff(x, y, f"histograms[{i}].")
        return out
    if isinstance(a, dict) and isinstance(b, dict):
        stale = (a.get("missed_keep") is False and b.get("missed_keep") is False and len(a.get("binnings") or []) == 1
                 and isinstance(a.get("missed"), list) and any(x != 0 for x in a["missed"])
                 and isinstance(b.get("missed"), list) and all(x == 0 for x in b["missed"]))
        return [path + k + ("(missed_keep off)" if k == "missed" and stale else "")
                for k in sorted(set(a) | set(b)) if a.get(k) != b.get(k)]
    return [path or "document"]


def canon(text):
    """a document as a JSON value: objects are unordered; NaN tokens compare equal; the missed counts are numbers (0.0 = 0: the
    type of the array that holds them is not observable, it turns float when a NaN marker has been stored in it once)"""
    def walk(x):
        if isinstance(x, dict) and x.get("histogram_type") == "histogram_collection" and not x.get("title"):
            x = {**x, "title": x.get("name")}           # a collection without a title of its own shows its name
        if isinstance(x, dict):
            return {k: ([int(y) if isinstance(y, float) and y == int(y) else y for y in v]
                        if k == "missed" and isinstance(v, list) and all(isinstance(y, (int, float, str)) for y in v) and
                        not any(isinstance(y, float) and (math.isinf(y)) for y in v) else walk(v)) for k, v in x.items()}
        if isinstance(x, list):
            return [walk(y) for y in x]
        return x
    return json.dumps(walk(json.loads(text, parse_constant=lambda c: "<" + c + ">")), sort_keys=True)


def parse_version(s):
    m = re.match(r"^(\d+(?:\.\d+)*)(?:(a|b|rc)(\d+))?$", s)
    rel = [int(x) for x in m.group(1).split(".")]
    pre = None if m.group(2) is None else [{"a": 0, "b": 1, "rc": 2}[m.group(2)], int(m.group(3))]
    return {"release": rel, "pre": pre}


class C08:
    ID = "C08"
    GEN_TIE = ["version"]     # definitions regenerated from version.py, io/json.py, io/version.py (harness/gen_tie.py)
    N_QUICK = 344           # 7/8 of them the older streams (as many as before), 1/8 the flag streams
    N_THOROUGH = 6880
    N_SEARCH = 300
    RULE = ("histograms of every class (1-D, 2-D, ND, the seven transformed classes, collections of 1-3 members) x binning types "
            "(Static incl. gapped, Numpy, FixedWidth incl. adaptive and shifted, Exponential) x all seven dtypes x missed values "
            "(zero / non-zero / NaN markers) x keep_missed x custom squared errors (large counts with a few non-unit weights) x "
            "metadata (name, title, axis names, custom JSON-representable entries): parse_json(to_json()), load_json after "
            "saving to a file, a second serialisation; and documents declaring required versions (older, equal, newer in patch / "
            "minor / major, pre-releases) against the running version; every 8th case a serialise - mutate - serialise history on "
            "one object (1-D, N-d incl. all-fixed-width axes, transformed, collection and its members; in 1/4 of them next to a second "
            "object built separately): 2-4 steps of [to_json / to_dict / file / save_json / binning.to_dict / full round trip, result "
            "thrown away] then one public change (set_adaptive on / off by method, property or binning; fill / fill_n / << inside, "
            "outside and growing adaptive bins; *=, /=, +=, -=; set_dtype; name / title / axis names / meta_data entries; in-place "
            "merge_bins; keep_missed; missed slots; frequencies / errors2 setters; normalize; collection add / create), after each of "
            "which the round trip must reproduce the object as it is then, field by field, serialise again to the same document, and "
            "leave the untouched object's document as it was; every 8th case one of the flag streams: (col_state, 60 %) a collection "
            "over a fixed-width binning (facade / multi_h1 with 'fixed_width', 'pretty', 'human', 'integer'; binning + create; "
            "ready-made histograms with a binning object each) of 1-7 members with the same bins whose state differs after 1-6 public "
            "calls (adaptive flag toggled by method / property / binning on single members, add() of a histogram with the other flag "
            "or with the collection's own binning object, create(), keep_missed at creation or switched later, all members grown "
            "alike, weight beside the bins of non-adaptive members, set_dtype, float weights, name / title / axis_name / meta data, "
            "members without data), written with to_json and to a scratch file (to_json(path) / save_json) and read with parse_json / "
            "load_json: every member its own class, binning class, bins, flags, contents, errors, missed, dtype, meta data; == both "
            "ways; second serialisation; the version gate on that very document; then fill(value beside / inside the bins) on every "
            "member of the original and of both objects read: same result, and bins grown iff the member was adaptive when written, "
            "weight counted as missed otherwise; (nd_flags, 20 %) 2-4-d histograms over fixed-width and explicit axes with per-axis "
            "adaptive flags, 0-3 of them toggled after the construction (binning / histogram, method / property), then fill of a point "
            "beside the bins of one axis; (h1_flags, 20 %) 1-D histograms with 1-3 toggles after the construction and the same fill; "
            "plus, in every run, the 56 combinations of (way of building) x (collection flag) x (final flags of two members) x (way of "
            "toggling) and add() with either flag. non-trivial = non-zero contents; distinct = case hash")
    EXTRA_TRUST = ["CPython json and the shortest round-trip repr of doubles (the text layer) are trusted, not modelled"]
    ASSUMPTIONS = ["the model covers 1-D histograms over static / fixed-width binnings and the version order; the other classes and "
                   "binning types are covered by the round-trip oracle on the implementation",
                   "the serialise - mutate - serialise histories (kind jsonseq) have no counterpart in the model's op language: oracle only; "
                   "a history stops without a verdict when a change leaves an object that is no histogram (contents not of the binnings' "
                   "shape, collection members with different binnings) or a refused call changed something (C18's subject)",
                   "flag streams: the members of a collection go into the model one by one in the state observed when the collection is "
                   "written (fixed-width bins, the five modelled dtypes); the model answers what is read back and what the following fill "
                   "does to it. Kept out behind constants (see the docstrings): members whose bins grew apart (ENABLE_GROWN_MEMBER: "
                   "written but refused on reading by the unchanged library) and binnings with a non-default includes_right_edge "
                   "(ENABLE_RIGHT_EDGE_FLAG: the flag is not in the document; the property text does not list it)"]

    def gen_case(self, rng, k, tier):
        if k % 8 == 3:
            return self.gen_seq(rng)
        if k % 8 == 5:
            # per-member / per-axis state (flags reached by a sequence) and an operation that depends on the restored flags
            r = rng.random()
            if r < 0.6:
                return self.gen_colx(rng)
            return self.gen_ndflags(rng) if r < 0.8 else self.gen_h1flags(rng)
        kind = rng.choice(["h1", "h1", "h1", "nd", "special", "collection", "version"])
        return self.gen_plain(rng, kind)

    def gen_plain(self, rng, kind, bts=None, dts=None):
        if kind == "version":
            import physt
            cur = physt.__version__
            base = [int(x) for x in cur.split(".")[:3]]
            cands = [cur, "0.3.20", "0.4.5", f"{base[0]}.{base[1]}.{base[2]+1}", f"{base[0]}.{base[1]}.{base[2]+10}",
                     f"{base[0]}.{base[1]+1}.0", f"{base[0]+1}.0.0", f"{base[0]}.{base[1]}.{max(base[2]-1,0)}",
                     f"{base[0]}.{base[1]}", f"{base[0]}.{base[1]}.{base[2]}.0", f"{base[0]}.{base[1]}.{base[2]}.1",
                     f"{base[0]}.{base[1]}.{base[2]}rc1", f"{base[0]}.{base[1]}.{base[2]+1}a1", f"{base[0]}.{base[1]}.{base[2]+1}rc2",
                     f"{base[0]}.{base[1]+1}b1", "0.0.1", "10.0"]
            return {"kind": "version", "current": cur, "required": rng.sample(cands, rng.randint(3, 8)),
                    "collection": rng.random() < 0.3, "tags": ["version"]}
        meta = {}
        if rng.random() < 0.6:
            meta["name"] = rng.choice(["n1", "my hist", "ü"])
        if rng.random() < 0.4:
            meta["title"] = rng.choice(["A title", "t"])
        if rng.random() < 0.3:
            meta["custom"] = rng.choice([1, "text", [1, 2, 3], {"a": 1.5}, None, True])
        if kind == "h1":
            bt = rng.choice(bts or ["static", "static", "numpy", "fixed", "fixed_adaptive", "exponential"])
            dt = rng.choice(dts or ["int64", "int64", "float64", "int32", "int16", "float32", "float16", "float128"])
            pairs, t = gen1.rising_bins(rng)
            spec = {"bt": bt, "dtype": dt, "keep": rng.random() < 0.75, "meta": meta,
                    "axis_name": rng.choice([None, "x", "energy"])}
            if bt == "static":
                spec["pairs"] = [[rs(l), rs(r)] for l, r in pairs]
            elif bt == "numpy":
                e = gen1.edges_pool(rng)
                spec["edges"] = [rs(x) for x in e]
            elif bt in ("fixed", "fixed_adaptive"):
                spec["w"] = rs(rng.choice([1.0, 0.5, 0.1, 0.3, 2.5]))
                spec["tmin"] = rng.randint(-5, 5)
                spec["count"] = rng.randint(0 if bt == "fixed_adaptive" else 1, 6)
                spec["shift"] = rs(rng.choice([0.0, 0.0, 0.5, 0.05]))
            else:
                spec["log_min"] = rs(rng.choice([0.0, -1.0, 0.5]))
                spec["log_width"] = rs(rng.choice([0.5, 0.25, 1.0]))
                spec["count"] = rng.randint(1, 5)
            n = {"static": len(pairs), "numpy": len(spec.get("edges", [])) - 1}.get(bt, spec.get("count", 0))
            big = rng.random() < 0.35 and dt in ("int64", "float64", "int32", "float128")
            isint = dt.startswith("int")
            if big:
                # large counts with a few non-unit weights: squared errors close to, but not equal to, the contents
                f = [rng.choice([250000, 250003, 1000000]) for _ in range(n)]
            else:
                f = [rng.randint(0, 30) if isint or rng.random() < 0.5 else rng.randint(0, 120) / 4 for _ in range(n)]
            if dt == "float16":
                f = [min(x, 500) for x in f]
            spec["freq"] = [rs(x) for x in f]
            if big:
                spec["err2"] = [rs(x + rng.choice([0, 1, 2, 1.25 if not isint else 1])) for x in f]
            else:
                spec["err2"] = None if rng.random() < 0.4 else [rs(x + rng.choice([0, 0, 1.25 if not isint else 2, 7])) for x in f]
            m = rng.choice(["zero", "nonzero", "nan"])
            spec["missed"] = {"zero": ["0", "0", "0"], "nonzero": [rs(rng.randint(0, 9)), rs(rng.randint(0, 9)), rs(rng.randint(0, 3))],
                              "nan": [None, None, "0"]}[m]
            return {"kind": "json1", "spec": spec, "tags": ["h1", "binning:" + bt, "dtype:" + dt, "missed:" + m]}
        if kind == "nd":
            init, axes = rand_nd_op(rng, dtype=rng.choice(["int64", "float64", "int32", "float32"]))
            init["keep"] = rng.random() < 0.8
            return {"kind": "jsonnd", "init": init, "meta": meta, "tags": ["nd", f"d:{len(axes)}"]}
        if kind == "special":
            klass = rng.choice(SPECIAL)
            axes = [axis_edges(rng, kd, rng.random() < 0.5) for kd in KIND[klass]]
            shape = [len(e) - 1 for e in axes]
            f = [rng.randint(0, 9) for _ in range(int(np.prod(shape)))]
            return {"kind": "jsonsp", "class": klass, "axes": [[float(x) for x in e] for e in axes], "freq": f, "meta": meta,
                    "missed": rng.randint(0, 5), "radius": rng.choice([None, 2.5]), "tags": ["special", "class:" + klass]}
        pairs, _ = gen1.rising_bins(rng, allow_gaps=False)
        members = []
        for i in range(rng.randint(1, 3)):
            members.append({"name": f"m{i}", "freq": [rng.randint(0, 9) for _ in pairs], "under": rng.randint(0, 3)})
        return {"kind": "jsoncol", "pairs": [[rs(l), rs(r)] for l, r in pairs], "members": members,
                "name": rng.choice([None, "coll"]), "title": rng.choice([None, "Collection title"]), "tags": ["collection"]}

    # ------------------------------------------------------------------ serialise - mutate - serialise sequences
    SEQ_BTS = ["static", "numpy", "fixed", "fixed", "fixed", "fixed_adaptive", "fixed_adaptive", "exponential"]
    SEQ_DTS = ["int64", "int64", "float64", "float64", "int32", "int16", "float32", "float16"]
    SER = ["to_json", "to_json", "to_dict", "file", "save_json", "binning_to_dict", "parse", "twice", "none"]

    def gen_seq(self, rng):
        """one object (or two that share nothing), and a history  (serialise, mutate)*  on it; after every mutation the
        round trip must reproduce the object as it is then"""
        kind = rng.choice(["h1", "h1", "h1", "nd", "nd", "special", "collection"])
        base = self.gen_plain(rng, kind, bts=self.SEQ_BTS, dts=self.SEQ_DTS)
        if kind == "nd":
            if rng.random() < 0.6:            # every axis fixed-width, so that the adaptivity can be switched
                adaptive = rng.random() < 0.3
                axes = base["init"]["axes"]
                for i, a in enumerate(axes):
                    n = len(a["bins"]) if a["t"] == "static" else a["count"]
                    w = rng.choice([1.0, 0.5, 0.25, 2.0])
                    axes[i] = gen1.fixed_json(w, rng.randint(-3, 3), n, rng.choice([0.0, 0.0, 0.5 * w]), adaptive=adaptive)
            d = len(base["init"]["axes"])
        elif kind == "collection":
            if rng.random() < 0.6:            # a shared fixed-width binning instead of the static one
                n = len(base["pairs"])
                base["fixed"] = {"w": rs(rng.choice([1.0, 0.5, 2.0])), "tmin": rng.randint(-3, 3), "count": n,
                                 "shift": rs(rng.choice([0.0, 0.0, 0.25])), "adaptive": rng.random() < 0.3}
            d = 1
        elif kind == "special":
            d = len(base["axes"])
        else:
            d = 1
        one = kind in ("h1", "collection") or (kind == "special" and d == 1)
        # whether the adaptivity can be switched at all (fixed-width binnings only), and what it is at the start
        if kind == "h1":
            can, flag = base["spec"]["bt"] in ("fixed", "fixed_adaptive"), base["spec"]["bt"] == "fixed_adaptive"
        elif kind == "nd":
            can = all(a["t"] == "fixed" for a in base["init"]["axes"])
            flag = can and all(a["adaptive"] for a in base["init"]["axes"])
        elif kind == "collection":
            can, flag = "fixed" in base, bool(base.get("fixed", {}).get("adaptive"))
        else:
            can, flag = False, False
        twin = rng.random() < 0.25
        state = [flag, flag]
        steps = []
        for _ in range(rng.choice([2, 2, 3, 3, 4])):
            st = {"ser": rng.choice(self.SER), "on": rng.randint(0, 1) if twin else 0}
            st.update(self.rand_mutation(rng, kind, d, one, can, state[st["on"]]))
            if st["op"] == "set_adaptive":
                state[st["on"]] = st["v"]
            if kind == "collection":
                st["member"] = rng.choice([None, 0, 0, 1, 2]) if st["op"] in ("set_adaptive", "name", "title") else rng.choice([0, 0, 1, 2])
                if st["member"] is None and st["op"] == "title" and not st["v"]:
                    st["v"] = "new title"       # a collection's empty title means "use the name" (constructor), not a value

            steps.append(st)
        tags = ["seq", "seq:base:" + kind] + (["seq:twin"] if twin else [])
        return {"kind": "jsonseq", "base": base, "twin": twin, "steps": steps, "tags": tags}

    def rand_mutation(self, rng, kind, d, one, can_adapt=True, adaptive_now=False):
        """a public call that changes what has to be written"""
        ops = ["set_adaptive"] * (5 if can_adapt else 1) + ["fill"] * 3 + ["fill_n"] * 2 + ["imul", "itruediv", "iadd", "isub", "set_dtype", "set_dtype",
               "name", "title", "axis_names", "meta", "meta", "merge_bins", "keep_missed", "set_freq", "set_err2", "normalize"]
        if one:
            ops += ["missed_slot"] * 2
        if kind == "collection":
            ops = [o for o in ops if o != "merge_bins"] + ["col_add", "col_create"]      # members keep one common binning
        op = rng.choice(ops)
        m = {"op": op}
        upos = [-0.4, 0.0, 0.1, 0.5, 0.5, 0.77, 1.0, 1.3, 2.5]
        if op == "set_adaptive":
            m["v"] = (not adaptive_now) if rng.random() < 0.7 else adaptive_now
            m["via"] = rng.choice(["method", "method", "property", "binning"])
            m["axis"] = rng.randrange(d)
        elif op == "fill":
            m["u"] = [rng.choice(upos) for _ in range(d)]
            m["w"] = rng.choice([None, None, 1, 2, 0.5])
            m["via"] = rng.choice(["fill", "fill", "lshift"]) if m["w"] is None else "fill"
        elif op == "fill_n":
            n = rng.randint(0, 4)
            m["u"] = [[rng.choice(upos) for _ in range(d)] for _ in range(n)]
            m["w"] = None if rng.random() < 0.6 else [rng.choice([1, 2, 0.5]) for _ in range(n)]
        elif op in ("imul", "itruediv"):
            m["c"] = rng.choice([2, 2, 0.5, 4])
        elif op == "set_dtype":
            m["dtype"] = rng.choice(["int64", "float64", "int32", "float32", "int16", "float16", "int8", "uint16"])
            m["via"] = rng.choice(["method", "property"])
        elif op in ("name", "title"):
            m["v"] = rng.choice(["changed", "", "n2 \u00e9", None])
        elif op == "axis_names":
            m["v"] = rng.sample(["p", "q", "r", "s", "t t"], d)
        elif op == "meta":
            m["key"] = rng.choice(["custom", "custom", "unit", "run"])
            m["v"] = rng.choice([2, "other", [4, 5], {"b": [1, 2.5]}, None, False, 0.1, "__delete__"])
        elif op == "merge_bins":
            m["amount"] = rng.choice([1, 2, 2, 3])
            m["axis"] = rng.choice([None] + list(range(d)))
        elif op == "keep_missed":
            m["v"] = rng.random() < 0.5
        elif op in ("set_freq", "set_err2"):
            m["add"] = rng.choice([1, 3, 0.5])
        elif op == "missed_slot":
            m["slot"] = rng.choice(["underflow", "overflow", "inner_missed"])
            m["v"] = rng.choice([0, 1, 7, 2.5, None])
        elif op == "col_create":
            m["u"] = [rng.choice(upos) for _ in range(rng.randint(0, 3))]
        return m


    # ------------------------------------------------------------------ flag streams: state that differs per member / per axis
    COLX_DTS = ["int64", "float64", "int32", "float32", "int16", "float16"]
    MODEL_DTS = ("int64", "float64", "int32", "float32", "int16")
    VERSION_POOL = ["0.3.20", "0.4.5", "{cur}", "{patch+1}", "{minor+1}", "{major+1}", "{cur}rc1", "{patch+1}a1", "0.0.1", "10.0"]

    @staticmethod
    def version_strings(names):
        import physt
        cur = physt.__version__
        b = [int(x) for x in cur.split(".")[:3]]
        table = {"{cur}": cur, "{patch+1}": f"{b[0]}.{b[1]}.{b[2] + 1}", "{minor+1}": f"{b[0]}.{b[1] + 1}.0", "{major+1}": f"{b[0] + 1}.0.0",
                 "{cur}rc1": f"{cur}rc1", "{patch+1}a1": f"{b[0]}.{b[1]}.{b[2] + 1}a1"}
        return [table.get(n, n) for n in names]

    def rand_post(self, rng):
        """the operation after the round trip: one value beside the bins (k bins away) or inside them (k = 0)"""
        w, wk = rng.choice([("1", "pyint"), ("1", "pyint"), ("2", "pyint"), ("3", "pyint"), ("1/2", "pyfloat")])
        return {"side": rng.choice(["right", "right", "left"]), "k": rng.choice([0, 1, 1, 2, 3]), "w": w, "wk": wk}

    def gen_colx(self, rng):
        """a collection over a fixed-width (adaptive-capable) binning whose members reach different flags / dtype / meta data /
        missed weight by a sequence of public calls; same bins for all members at the time of writing"""
        ctor = rng.choice(["facade", "facade", "multi_h1", "binning", "binning", "binning", "hists", "hists"])
        adaptive0 = rng.random() < 0.5
        m = rng.choice([1, 2, 2, 2, 3, 3, 4])
        w = rng.choice([1.0, 1.0, 0.5, 2.0, 0.25])
        tmin, count = rng.randint(-4, 4), rng.randint(1, 6)
        shift = rng.choice([0.0, 0.0, 0.5 * w, 0.25])
        lo, hi = tmin * w + shift, (tmin + count) * w + shift
        case = {"kind": "jsoncolx", "ctor": ctor, "adaptive0": adaptive0, "name": rng.choice([None, "coll", "c ä"]),
                "title": rng.choice([None, None, "Collection title"])}
        flags = [adaptive0] * m
        clean = [True] * m              # no weight beside the bins so far (keep_missed may be switched off without leaving stale counts)
        integral = [True] * m
        members = []
        names = [f"m{j}" for j in range(m)]
        if ctor in ("facade", "multi_h1"):
            bk = rng.choice(["fixed_width", "fixed_width", "pretty", "human", "integer"])
            kw = {}
            if bk == "fixed_width":
                kw["bin_width"] = rs(w)
                if rng.random() < 0.3:
                    kw["bin_shift"] = rs(rng.choice([0.5 * w, 0.25 * w]))
            elif bk in ("pretty", "human") and rng.random() < 0.5:
                kw["bin_count"] = rng.choice([3, 5, 8])
            case["bk"], case["kw"] = bk, kw
            pool = [-3, -1, 0, 1, 2, 2, 4, 5, 7] if bk == "integer" else [-2.5, -1.0, -0.25, 0.0, 0.5, 0.75, 1.5, 2.0, 2.25, 3.5, 4.0, 6.5]
            skip = rng.randrange(m) if (m > 1 and rng.random() < 0.3) else None         # a member without data
            for j in range(m):
                vals = [] if j == skip else [rng.choice(pool) for _ in range(rng.choice([1, 2, 4, 7]))]
                members.append({"name": names[j], "vals": [rs(v) for v in vals]})
            if len({v for mm in members for v in mm["vals"]}) < 2:
                members[0 if skip != 0 else 1]["vals"] += [rs(pool[0]), rs(pool[-1])]
        else:
            case["grid"] = {"w": rs(w), "tmin": tmin, "count": count, "shift": rs(shift)}
            inside = [lo + i * w / 4 for i in range(4 * count)]
            outside = [lo - 1.25 * w, hi + 0.5 * w, hi + 3 * w]
            for j in range(m):
                mem = {"name": names[j]}
                if ctor == "binning":
                    n = rng.choice([0, 1, 3, 6])
                    mem["keep"] = rng.random() < 0.8
                    pool = inside if (adaptive0 or not mem["keep"]) else inside + outside       # an adaptive member must not grow alone
                    mem["vals"] = [rs(rng.choice(pool)) for _ in range(n)]
                    wkind = rng.choice([None, None, "int64", "float64"])
                    mem["ws"] = None if wkind is None else [rs(rng.choice([1, 2, 3]) if wkind == "int64" else rng.choice([0.5, 1.0, 1.5, 2.0])) for _ in range(n)]
                    mem["wkind"] = wkind
                    mem["dtype"] = rng.choice([None, None, None, "float64", "int32"]) if wkind != "float64" else None
                    integral[j] = wkind != "float64"
                    clean[j] = all(v in [rs(x) for x in inside] for v in mem["vals"])
                else:
                    dt = rng.choice(self.COLX_DTS)
                    isint = dt.startswith("int")
                    mem["flag"] = flags[j] = rng.random() < 0.5
                    mem["keep"] = rng.random() < 0.8
                    mem["dtype"] = dt
                    mem["freq"] = [rs(rng.randint(0, 9) if isint or rng.random() < 0.5 else rng.randint(0, 36) / 4) for _ in range(count)]
                    mem["err2"] = None if rng.random() < 0.5 else [rs(Fraction(x) + rng.choice([0, 1, 2])) for x in mem["freq"]]
                    mem["missed"] = ["0", "0", "0"] if (not mem["keep"] or rng.random() < 0.5) else [rs(rng.randint(0, 5)), rs(rng.randint(0, 5)), "0"]
                    integral[j] = all(Fraction(x).denominator == 1 for x in mem["freq"])
                    clean[j] = mem["missed"] == ["0", "0", "0"]
                    if rng.random() < 0.4:
                        mem["title"] = rng.choice(["T", "member title"])
                    if rng.random() < 0.3:
                        mem["axis_name"] = rng.choice(["x", "energy"])
                members.append(mem)
        case["members"] = members
        keeps = [mm.get("keep", True) for mm in members]
        # ---- the sequence
        ops = []
        grown = False
        if all(flags) and rng.random() < 0.3:
            ops.append({"op": "grow_all", "side": rng.choice(["right", "left"]), "k": rng.choice([1, 2, 3]),
                        "ws": [rng.choice([1, 1, 2]) for _ in range(m)]})
            grown = True
        differ = rng.random() < 0.8         # make sure most cases end with different flags
        for _ in range(rng.choice([1, 2, 3, 4, 5])):
            j = rng.randrange(len(flags))
            kind = rng.choice(["set_adaptive"] * 4 + ["fill"] * 3 + ["fill_n", "set_dtype", "keep_missed", "meta", "meta", "name", "title", "axis_name"] +
                              ([] if grown else ["col_add", "col_add", "col_create"]))
            op = {"op": kind, "m": j}
            if kind == "set_adaptive":
                op["v"] = not flags[j] if rng.random() < 0.8 else flags[j]
                op["via"] = rng.choice(["method", "method", "property", "binning"])
                flags[j] = op["v"]
            elif kind in ("fill", "fill_n"):
                # an adaptive member gets values inside its bins only (alone it would leave the common bins)
                upool = [0.0, 0.1, 0.5, 0.77] if (flags[j] and not self.ENABLE_GROWN_MEMBER) else [-0.4, 0.0, 0.1, 0.5, 0.77, 1.0, 1.3, 2.5]
                n = 1 if kind == "fill" else rng.randint(0, 3)
                op["u"] = [rng.choice(upool) for _ in range(n)]
                wt = rng.choice([None, None, 1, 2, 0.5])
                op["w"] = wt
                if any(u < 0 or u > 1 for u in op["u"]):
                    clean[j] = False
                if wt == 0.5:
                    integral[j] = False
            elif kind == "set_dtype":
                op["dtype"] = rng.choice(["float64", "float32", "float16"] + (["int64", "int32", "int16"] if integral[j] else []))
                op["via"] = rng.choice(["method", "property"])
            elif kind == "keep_missed":
                op["v"] = True if not clean[j] else rng.random() < 0.5
                keeps[j] = op["v"]
            elif kind == "meta":
                op["key"] = rng.choice(["custom", "unit", "run"])
                op["v"] = rng.choice([2, "other", [4, 5], {"b": [1, 2.5]}, None, False, 0.1])
            elif kind in ("name", "title"):
                op["v"] = rng.choice(["changed", "n2 é", f"x{j}"])
            elif kind == "axis_name":
                op["v"] = rng.choice(["p", "q q"])
            elif kind == "col_add":
                del op["m"]
                dt = rng.choice(["int64", "int64", "float64", "int32", "float32"])
                op.update({"flag": (not adaptive0) if rng.random() < 0.7 else adaptive0, "keep": rng.random() < 0.8, "dtype": dt,
                           "freq": [rng.randint(0, 9) for _ in range(8)], "name": f"added{len(flags)}",
                           "same_object": ctor != "hists" and rng.random() < 0.15 and not any(o.get("same_object") for o in ops)})
                if op["same_object"]:
                    op["flag"] = adaptive0          # the collection's own binning object is handed in as it is
                flags.append(op["flag"]); clean.append(True); integral.append(True); keeps.append(op["keep"])
            elif kind == "col_create":
                del op["m"]
                op.update({"u": [rng.choice([0.0, 0.1, 0.5, 0.77]) for _ in range(rng.randint(0, 3))], "name": f"created{len(flags)}",
                           "keep": rng.random() < 0.8})
                flags.append(flags[0] if ctor == "hists" else adaptive0)      # a copy of the collection's binning (the first member's there)
                clean.append(True); integral.append(True); keeps.append(op["keep"])
            ops.append(op)
        if differ and len(flags) > 1 and len(set(flags)) == 1:
            j = rng.randrange(len(flags))
            ops.append({"op": "set_adaptive", "m": j, "v": not flags[j], "via": rng.choice(["method", "property", "binning"])})
            flags[j] = not flags[j]
        case["ops"] = ops
        case["post"] = [self.rand_post(rng) for _ in flags]
        case["versions"] = rng.sample(self.VERSION_POOL, rng.randint(2, 4))
        case["tags"] = ["stream:col_state", "colx:ctor:" + ctor] + (["colx:grown_alike"] if grown else [])
        return case

    ENABLE_GROWN_MEMBER = False
    """members of one collection whose bins grew apart (an adaptive member filled beside the common bins): the unchanged library
    writes such a collection but refuses to read it back (HistogramCollection(*members) demands equal bins) -- reported, kept out"""
    ENABLE_RIGHT_EDGE_FLAG = False
    """binnings whose includes_right_edge is not the default of their class: the flag is not written to the document, so the
    unchanged library restores the class default (the property text does not list the flag) -- reported, kept out"""

    def gen_ndflags(self, rng):
        """an N-d histogram whose axes differ in their flags (adaptive per axis, right-edge inclusion by binning class), some of
        the flags toggled after the construction"""
        d = rng.choice([2, 2, 2, 3, 3, 4])
        axes, infos = [], []
        fixed_only = rng.random() < 0.35
        for _ in range(d):
            if fixed_only or rng.random() < 0.6:
                w = rng.choice([1.0, 0.5, 0.25, 2.0])
                tmin, cnt = rng.randint(-3, 3), rng.randint(1, 3 if d == 4 else 4)
                shift = rng.choice([0.0, 0.0, 0.5 * w])
                ire = self.ENABLE_RIGHT_EDGE_FLAG and rng.random() < 0.3
                adaptive = (not ire) and rng.random() < 0.5
                axes.append(gen1.fixed_json(w, tmin, cnt, shift, adaptive=adaptive, ire=ire))
                infos.append({"t": "fixed", "lo": tmin * w + shift, "hi": (tmin + cnt) * w + shift, "w": w, "n": cnt,
                              "lefts": [(tmin + i) * w + shift for i in range(cnt)]})
            else:
                pairs, _ = gen1.rising_bins(rng, allow_gaps=False)
                pairs = pairs[:3 if d == 4 else 4]
                ire = not (self.ENABLE_RIGHT_EDGE_FLAG and rng.random() < 0.4)
                axes.append(gen1.binning_json(pairs, ire=ire, form=rng.choice(["static_obj", "numpy_obj"])))
                infos.append({"t": "static", "lo": pairs[0][0], "hi": pairs[-1][1], "w": 1.0, "n": len(pairs), "lefts": [p[0] for p in pairs]})
        size = int(np.prod([i["n"] for i in infos]))
        dt = rng.choice(["int64", "int64", "float64", "int32", "float32"])
        isint = dt.startswith("int")
        f = [rng.choice([0, 0, 1, 2, 3, 5, 8]) if isint else rng.choice([0, 0.5, 1.25, 2, 4.75]) for _ in range(size)]
        e = None if rng.random() < 0.4 else [rng.randint(0, 9) if isint else rng.randint(0, 40) / 4 for _ in range(size)]
        init = {"op": "of_arrays", "out": 0, "axes": axes, "freq": [rs(x) for x in f], "err2": None if e is None else [rs(x) for x in e],
                "missed": rs(rng.randint(0, 4)), "dtype": dt, "names": rng.sample(["x", "y", "z", "t", "a", "b"], d) if rng.random() < 0.6 else None,
                "keep": rng.random() < 0.8}
        fixed_axes = [a for a in range(d) if axes[a]["t"] == "fixed" and not axes[a]["ire"]]
        toggles = []
        for _ in range(rng.choice([0, 1, 1, 2, 3])):
            if not fixed_axes:
                break
            a = rng.choice(fixed_axes)
            via = "hist" if (len(fixed_axes) == d and rng.random() < 0.3) else "binning"
            toggles.append({"axis": a, "v": rng.random() < 0.5, "via": via, "how": rng.choice(["method", "property"])})
        case = {"kind": "jsonnd", "flags": True, "init": init, "meta": {}, "toggles": toggles}
        if rng.random() < 0.5:
            case["meta"]["name"] = rng.choice(["n1", "my hist"])
        # the operation after the round trip: a point inside all axes, or beside the bins of one axis
        a = rng.randrange(d)
        k = rng.choice([0, 1, 1, 2, 3])
        side = rng.choice(["right", "right", "left"])
        v = [rng.choice(i["lefts"]) for i in infos]
        if k:
            i = infos[a]
            v[a] = i["hi"] + (k - 0.5) * i["w"] if side == "right" else i["lo"] - (k - 0.5) * i["w"]
        elif self.ENABLE_RIGHT_EDGE_FLAG and rng.random() < 0.5:
            v[a] = infos[a]["hi"]           # exactly on the last edge: counted iff the right edge is included
        w, wk = rng.choice([("1", "pyint"), ("1", "pyint"), ("2", "pyint"), ("1/2", "pyfloat")])
        case["post"] = {"axis": a, "k": k, "side": side, "v": [rs(x) for x in v], "w": w, "wk": wk}
        fin = [b.get("adaptive", False) for b in self.nd_final_axes(case)]
        case["tags"] = ["stream:nd_flags", f"d:{d}", "ndflags:adaptive:" + ("mixed" if len(set(fin)) > 1 else "all" if fin[0] else "none"),
                        "ndflags:classes:" + ("mixed" if len({b['t'] for b in axes}) > 1 else axes[0]["t"])]
        return case

    @staticmethod
    def nd_final_axes(case):
        """the axes of a flag case with the toggles applied"""
        axes = [dict(a) for a in case["init"]["axes"]]
        for t in case.get("toggles", []):
            for a in (range(len(axes)) if t["via"] == "hist" else [t["axis"]]):
                axes[a]["adaptive"] = t["v"]
        return axes

    def gen_h1flags(self, rng):
        """a 1-D histogram whose binning flags were toggled after it was made"""
        base = self.gen_plain(rng, "h1", bts=["fixed", "fixed", "fixed_adaptive", "fixed_adaptive", "static", "numpy"],
                              dts=["int64", "int64", "float64", "int32", "float32", "int16"])
        s = base["spec"]
        if s["missed"][0] is None:
            s["missed"] = ["0", "0", "0"]           # (NaN markers have their own stream)
        if not s["keep"]:
            s["missed"] = ["0", "0", "0"]
        if s["bt"] in ("fixed", "fixed_adaptive") and s["count"] == 0:
            s["count"] = 2
            s["freq"], s["err2"] = ["1", "0"], None
        toggles = []
        if s["bt"] in ("fixed", "fixed_adaptive"):
            flag = s["bt"] == "fixed_adaptive"
            for _ in range(rng.choice([1, 1, 2, 3])):
                flag = (not flag) if rng.random() < 0.8 else flag
                toggles.append({"v": flag, "via": rng.choice(["method", "property", "binning"])})
        base["toggles"] = toggles
        base["post"] = self.rand_post(rng)
        base["tags"] = ["stream:h1_flags"] + base["tags"]
        return base

    def exhaustive_cases(self, tier):
        """every combination of (way of building) x (flag of the collection's binning) x (final flags of two members) x (way of
        toggling), and add() of a histogram carrying the other flag: 2 members, one value each, nothing else varied"""
        out = []
        post = [{"side": "right", "k": 2, "w": "1", "wk": "pyint"}, {"side": "left", "k": 1, "w": "2", "wk": "pyint"}, {"side": "right", "k": 1, "w": "1", "wk": "pyint"}]
        for ctor in ("facade", "binning", "hists"):
            for a0 in (False, True):
                for f0 in (False, True):
                    for f1 in (False, True):
                        for via in (("method", "property", "binning") if ctor != "hists" else ("ctor",)):
                            if ctor == "hists" and not a0:
                                continue            # the members carry their flags from the start: a0 plays no role
                            case = {"kind": "jsoncolx", "ctor": ctor, "adaptive0": a0, "name": "c", "title": None, "versions": [],
                                    "tags": ["exhaustive:col_flags"]}
                            if ctor == "facade":
                                case.update({"bk": "fixed_width", "kw": {"bin_width": "1"},
                                             "members": [{"name": "m0", "vals": ["1/2", "5/2"]}, {"name": "m1", "vals": ["3/2"]}]})
                            elif ctor == "binning":
                                case.update({"grid": {"w": "1", "tmin": 0, "count": 3, "shift": "0"},
                                             "members": [{"name": "m0", "vals": ["1/2", "5/2"], "keep": True, "ws": None, "wkind": None, "dtype": None},
                                                         {"name": "m1", "vals": ["3/2"], "keep": True, "ws": None, "wkind": None, "dtype": None}]})
                            else:
                                case.update({"grid": {"w": "1", "tmin": 0, "count": 3, "shift": "0"},
                                             "members": [{"name": f"m{j}", "flag": f, "keep": True, "dtype": "int64", "freq": ["1", "0", str(j + 1)],
                                                          "err2": None, "missed": ["0", "0", "0"]} for j, f in enumerate((f0, f1))]})
                            case["ops"] = [] if ctor == "hists" else [{"op": "set_adaptive", "m": j, "v": f, "via": via}
                                                                      for j, f in enumerate((f0, f1)) if f != a0]
                            case["post"] = post[:2]
                            out.append(case)
        for a0 in (False, True):
            for f in (False, True):
                out.append({"kind": "jsoncolx", "ctor": "binning", "adaptive0": a0, "name": None, "title": "t", "versions": [],
                            "grid": {"w": "1/2", "tmin": -2, "count": 4, "shift": "0"},
                            "members": [{"name": "m0", "vals": ["-1/2", "1/4"], "keep": True, "ws": None, "wkind": None, "dtype": None}],
                            "ops": [{"op": "col_add", "flag": f, "keep": True, "dtype": "int64", "freq": [1, 2, 3, 4, 5, 6, 7, 8], "name": "added1",
                                     "same_object": False}],
                            "post": post[:2], "tags": ["exhaustive:col_flags"]})
        return out

    # ------------------------------------------------------------------ build the object
    def build(self, case):
        h = self._build(case)
        if case.get("toggles"):
            self.apply_toggles(h, case)         # flags changed after the construction (flag streams)
        return h

    def _build(self, case):
        from physt.binnings import ExponentialBinning, FixedWidthBinning, NumpyBinning, StaticBinning
        from physt.histogram1d import Histogram1D
        from physt.histogram_collection import HistogramCollection
        from physt import special_histograms as sp
        k = case["kind"]
        if k == "json1":
            s = case["spec"]
            bt = s["bt"]
            if bt == "static":
                b = StaticBinning(np.array([[impl1.fl(l), impl1.fl(r)] for l, r in s["pairs"]]))
            elif bt == "numpy":
                b = NumpyBinning([impl1.fl(x) for x in s["edges"]])
            elif bt in ("fixed", "fixed_adaptive"):
                kw = dict(bin_width=impl1.fl(s["w"]), bin_count=s["count"], bin_shift=impl1.fl(s["shift"]), adaptive=bt == "fixed_adaptive")
                if s["count"] > 0:
                    kw["bin_times_min"] = s["tmin"]
                b = FixedWidthBinning(**kw)
            else:
                b = ExponentialBinning(log_min=impl1.fl(s["log_min"]), log_width=impl1.fl(s["log_width"]), bin_count=s["count"])
            dt = np.dtype(s["dtype"])
            f = impl1.arr(s["freq"], dt)
            e = None if s["err2"] is None else impl1.arr(s["err2"], dt)
            kw = dict(s["meta"])
            if s["axis_name"]:
                kw["axis_name"] = s["axis_name"]
            return Histogram1D(b, f, e, keep_missed=s["keep"], underflow=impl1.fl(s["missed"][0]), overflow=impl1.fl(s["missed"][1]),
                               inner_missed=impl1.fl(s["missed"][2]), **kw)
        if k == "jsonnd":
            st = implnd.Store(); log = []
            implnd.step(st, case["init"], log)
            h = st.get(0)
            for kk, v in case["meta"].items():
                h.meta_data[kk] = v
            return h
        if k == "jsonsp":
            klass = getattr(sp, case["class"])
            edges = [np.array(e) for e in case["axes"]]
            f = np.array(case["freq"]).reshape([len(e) - 1 for e in edges])
            kw = dict(case["meta"])
            if case["radius"] is not None and case["class"] in ("AzimuthalHistogram", "SphericalSurfaceHistogram", "CylindricalSurfaceHistogram"):
                kw["radius"] = case["radius"]
            if len(edges) == 1:
                return klass(edges[0], f, underflow=case["missed"], **kw)
            return klass(edges, f, missed=case["missed"], **kw)
        if k == "jsoncol":
            if case.get("fixed"):
                fx = case["fixed"]
                b = FixedWidthBinning(bin_width=impl1.fl(fx["w"]), bin_count=fx["count"], bin_times_min=fx["tmin"],
                                      bin_shift=impl1.fl(fx["shift"]), adaptive=fx["adaptive"])
            else:
                b = StaticBinning(np.array([[impl1.fl(l), impl1.fl(r)] for l, r in case["pairs"]]))
            hs = [Histogram1D(b, np.array(m["freq"]), name=m["name"], underflow=m["under"]) for m in case["members"]]
            return HistogramCollection(*hs, name=case["name"], title=case["title"])
        raise KeyError(k)

    # ------------------------------------------------------------------ sequences on one object
    @staticmethod
    def binnings_of(h):
        from physt.histogram1d import Histogram1D
        from physt.histogram_collection import HistogramCollection
        if isinstance(h, HistogramCollection):
            return [h.binning] + [m.binning for m in h.histograms]
        return [h.binning] if isinstance(h, Histogram1D) else list(h.binnings)

    def serialise(self, obj, how):
        """a serialisation whose result is thrown away"""
        from physt.io import parse_json, save_json
        if how == "to_json":
            obj.to_json()
        elif how == "to_dict":
            obj.to_dict()
        elif how == "file":
            fd, path = tempfile.mkstemp(suffix=".json")
            os.close(fd)
            try:
                obj.to_json(path)
            finally:
                os.unlink(path)
        elif how == "save_json":
            save_json(obj)
        elif how == "binning_to_dict":
            for b in self.binnings_of(obj):
                b.to_dict()
        elif how == "parse":
            parse_json(obj.to_json())
        elif how == "twice":
            obj.to_json()
            obj.to_dict()

    def mutate(self, obj, st):
        """one public call that changes the object"""
        from physt.histogram1d import Histogram1D
        from physt.histogram_collection import HistogramCollection
        from physt.special_histograms import TransformedHistogramMixin
        op = st["op"]
        h = obj
        if isinstance(obj, HistogramCollection):
            if op == "col_add":
                n = obj.binning.bin_count
                obj.add(Histogram1D(obj.binning, np.arange(n) % 5, name="added"))
                return
            if op == "col_create":
                bb = np.asarray(obj.binning.bins).reshape(-1, 2)
                lo, hi = (float(bb[0, 0]), float(bb[-1, 1])) if len(bb) else (0.0, 10.0)
                obj.create("created", [lo + u * (hi - lo) for u in st["u"]])
                return
            if st.get("member") is None:
                if op == "set_adaptive":
                    obj.binning.set_adaptive(st["v"])
                else:
                    setattr(obj, op, st["v"])              # name / title of the collection
                return
            h = obj.histograms[st["member"] % len(obj.histograms)]
        one = isinstance(h, Histogram1D)
        bs = [h.binning] if one else list(h.binnings)
        kw = {"transformed": True} if isinstance(h, TransformedHistogramMixin) else {}

        def point(us):
            v = []
            for b, u in zip(bs, us):
                bb = np.asarray(b.bins).reshape(-1, 2)
                lo, hi = (float(bb[0, 0]), float(bb[-1, 1])) if len(bb) else (0.0, 10.0)
                v.append(lo + u * (hi - lo))
            return v[0] if one else v

        if op == "set_adaptive":
            if st["via"] == "method":
                h.set_adaptive(st["v"])
            elif st["via"] == "property":
                h.adaptive = st["v"]
            else:
                bs[st["axis"] % len(bs)].set_adaptive(st["v"])
        elif op == "fill":
            v = point(st["u"])
            if st["via"] == "lshift" and not kw:
                h << v
            elif st["w"] is None:
                h.fill(v, **kw)
            else:
                h.fill(v, st["w"], **kw)
        elif op == "fill_n":
            vals = np.array([point(u) for u in st["u"]], dtype=float).reshape((-1,) if one else (-1, len(bs)))
            h.fill_n(vals, weights=None if st["w"] is None else np.array(st["w"]), **kw)
        elif op == "imul":
            h *= st["c"]
        elif op == "itruediv":
            h /= st["c"]
        elif op == "iadd":
            h += h.copy()
        elif op == "isub":
            h -= h.copy()
        elif op == "set_dtype":
            if st["via"] == "method":
                h.set_dtype(st["dtype"])
            else:
                h.dtype = st["dtype"]
        elif op in ("name", "title"):
            setattr(h, op, st["v"])
        elif op == "axis_names":
            if one:
                h.axis_name = st["v"][0]
            else:
                h.axis_names = st["v"]
        elif op == "meta":
            if st["v"] == "__delete__":
                h.meta_data.pop(st["key"], None)
            else:
                h.meta_data[st["key"]] = copy.deepcopy(st["v"])
        elif op == "merge_bins":
            h.merge_bins(st["amount"], axis=st["axis"], inplace=True)
        elif op == "keep_missed":
            h.keep_missed = st["v"]
        elif op == "set_freq":
            h.frequencies = np.asarray(h.frequencies) + st["add"]
        elif op == "set_err2":
            h.errors2 = np.asarray(h.errors2) + st["add"]
        elif op == "normalize":
            h.normalize(inplace=True)
        elif op == "missed_slot":
            setattr(h, st["slot"], np.nan if st["v"] is None else st["v"])
        else:
            raise KeyError(op)

    def checkpoint(self, o, before_doc, untouched):
        """the round trip of the object as it is now"""
        from physt.io import parse_json
        r = {}
        try:
            text = o.to_json()
        except Exception as e:
            d = getattr(o, "dtype", None)
            return {"error": f"to_json() raised {type(e).__name__}: {e}"[:200], "dtype": str(d)}, None
        try:
            p = parse_json(text)
            r["orig"] = snap(o)
            r["parsed"] = snap(p)
            r["eq"] = bool(o == p)
            doc = canon(text)
            doc2 = canon(p.to_json())
            r["text_stable"] = doc2 == doc
            if doc2 != doc:
                r["doc_diff"] = doc_diff(json.loads(doc), json.loads(doc2))
        except Exception as e:
            return {"error": f"reading the document back raised {type(e).__name__}: {e}"[:200], "dtype": ""}, None
        if untouched and before_doc is not None:
            r["doc_unchanged"] = doc == before_doc
        return r, doc

    def run_seq(self, case):
        objs = [self.build(case["base"])]
        if case["twin"]:
            objs.append(self.build(case["base"]))       # built separately: shares nothing with the first
        docs = [None] * len(objs)
        last = [None] * len(objs)
        log, recs, stopped = [], [], None
        for i, st in enumerate(case["steps"]):
            on = st["on"] if st["on"] < len(objs) else 0
            rec = {"step": i, "op": st["op"], "ser": st["ser"], "on": on, "status": "ok"}
            recs.append(rec)
            try:
                for j, o in enumerate(objs):
                    self.serialise(o, st["ser"])
                    if len(objs) > 1 and st["ser"] != "none":
                        docs[j] = canon(o.to_json())
            except Exception as e:
                rec["ser_error"] = f"{type(e).__name__}: {e}"[:200]
                rec["dtype"] = str(getattr(objs[0], "dtype", ""))
                break
            before = last[on] if last[on] is not None else snap(objs[on])      # the state the last check point saw
            try:
                self.mutate(objs[on], st)
            except Exception as e:
                rec["status"] = "refused"
                log.append(f"step {i} {st['op']}: {type(e).__name__}: {e}"[:160])
            if not all(wellformed(o) for o in objs):
                # e.g. members of a collection share an adaptive binning that grew under one of them: not C08's subject
                stopped = rec["status"] = "ill_formed"
                break
            if rec["status"] == "refused" and snap(objs[on]) != before:
                stopped = rec["status"] = "refused_but_changed"      # atomicity is C18's subject; nothing is asserted here
                break
            rec["objs"] = []
            for j, o in enumerate(objs):
                r, doc = self.checkpoint(o, docs[j], j != on)
                docs[j] = doc
                last[j] = r.get("orig")
                rec["objs"].append(r)
        return {"outs": {"steps": recs, "stopped": stopped}, "log": log}


    # ------------------------------------------------------------------ flag streams: running them
    SCRATCH = "/var/tmp"

    @staticmethod
    def fixed_binning(w, tmin, count, shift, adaptive):
        from physt.binnings import FixedWidthBinning
        return FixedWidthBinning(bin_width=w, bin_count=count, bin_times_min=tmin, bin_shift=shift, adaptive=adaptive)

    def build_colx(self, case, log):
        """the collection after its history; None when the history left the class the stream is about"""
        import physt
        from physt.histogram1d import Histogram1D
        from physt.histogram_collection import HistogramCollection
        ctor, a0 = case["ctor"], case["adaptive0"]
        mem = case["members"]
        if ctor in ("facade", "multi_h1"):
            data = {m["name"]: np.array([impl1.fl(v) for v in m["vals"]], dtype=float) for m in mem}
            kw = {k: (impl1.fl(v) if isinstance(v, str) else v) for k, v in case["kw"].items()}
            if a0:
                kw["adaptive"] = True
            for k in ("name", "title"):
                if case[k] is not None:
                    kw[k] = case[k]
            col = physt.collection(data, case["bk"], **kw) if ctor == "facade" else HistogramCollection.multi_h1(data, case["bk"], **kw)
        else:
            g = case["grid"]
            grid = (impl1.fl(g["w"]), g["tmin"], g["count"], impl1.fl(g["shift"]))
            if ctor == "binning":
                col = HistogramCollection(binning=self.fixed_binning(*grid, a0), name=case["name"], title=case["title"])
                for m in mem:
                    kw = {"keep_missed": m["keep"]}
                    if m.get("dtype"):
                        kw["dtype"] = m["dtype"]
                    ws = None if m["ws"] is None else impl1.arr(m["ws"], np.dtype(m["wkind"]))
                    col.create(m["name"], impl1.arr(m["vals"]), weights=ws, **kw)
            else:
                hs = []
                for m in mem:
                    dt = np.dtype(m["dtype"])
                    kw = {k: m[k] for k in ("title", "axis_name") if k in m}
                    hs.append(Histogram1D(self.fixed_binning(*grid, m["flag"]), impl1.arr(m["freq"], dt),
                                          None if m["err2"] is None else impl1.arr(m["err2"], dt), keep_missed=m["keep"],
                                          underflow=impl1.fl(m["missed"][0]), overflow=impl1.fl(m["missed"][1]),
                                          inner_missed=impl1.fl(m["missed"][2]), name=m["name"], **kw))
                col = HistogramCollection(*hs, name=case["name"], title=case["title"])
        for i, op in enumerate(case["ops"]):
            try:
                self.colx_op(col, op)
            except Exception as e:
                log.append(f"op {i} {op['op']}: {type(e).__name__}: {e}"[:160])
        return col

    @staticmethod
    def span(h):
        bb = np.asarray(h.bins).reshape(-1, 2)
        return float(bb[0, 0]), float(bb[-1, 1])

    def beside(self, h, side, k):
        """a value k bins beside the bins (in the middle of that would-be bin); k = 0: the left edge of the last / first bin"""
        lo, hi = self.span(h)
        if k == 0:
            bb = np.asarray(h.bins).reshape(-1, 2)
            return float(bb[-1, 0] if side == "right" else bb[0, 0])
        w = float(h.binning.bin_width) if hasattr(h.binning, "bin_width") else 1.0
        return hi + (k - 0.5) * w if side == "right" else lo - (k - 0.5) * w

    def colx_op(self, col, op):
        from physt.histogram1d import Histogram1D
        name = op["op"]
        if name == "grow_all":
            v = self.beside(col.histograms[0], op["side"], op["k"])
            for h, w in zip(col.histograms, op["ws"]):
                h.fill(v, w)
            return
        if name == "col_add":
            b = col.binning
            if not op["same_object"]:
                b = self.fixed_binning(float(b.bin_width), int(b._times_min), int(b.bin_count), float(b._shift), op["flag"])
            f = np.array(op["freq"][:b.bin_count] + [0] * max(0, b.bin_count - len(op["freq"])), dtype=np.dtype(op["dtype"]))
            col.add(Histogram1D(b, f, name=op["name"], keep_missed=op["keep"]))
            return
        if name == "col_create":
            lo, hi = self.span(col.binning)
            col.create(op["name"], [lo + u * (hi - lo) for u in op["u"]], keep_missed=op["keep"])
            return
        h = col.histograms[op["m"] % len(col.histograms)]
        if name == "set_adaptive":
            if op["via"] == "method":
                h.set_adaptive(op["v"])
            elif op["via"] == "property":
                h.adaptive = op["v"]
            else:
                h.binning.set_adaptive(op["v"])
        elif name in ("fill", "fill_n"):
            lo, hi = self.span(h)
            vals = [lo + u * (hi - lo) for u in op["u"]]
            if not self.ENABLE_GROWN_MEMBER and h.is_adaptive():
                vals = [v for v in vals if lo <= v < hi]        # an adaptive member must not grow alone (the flag may have been
                                                                 # switched on by a later-inserted step): such values are left out
            if name == "fill":
                for v in vals:
                    h.fill(v) if op["w"] is None else h.fill(v, op["w"])
            else:
                h.fill_n(np.array(vals, dtype=float), weights=None if op["w"] is None else np.array([op["w"]] * len(vals)))
        elif name == "set_dtype":
            if op["via"] == "method":
                h.set_dtype(op["dtype"])
            else:
                h.dtype = op["dtype"]
        elif name == "keep_missed":
            if op["v"] or h.missed == 0:            # never leaves stale counts behind (the recorded finding's subject)
                h.keep_missed = op["v"]
        elif name == "meta":
            h.meta_data[op["key"]] = copy.deepcopy(op["v"])
        elif name in ("name", "title", "axis_name"):
            setattr(h, name, op["v"])
        else:
            raise KeyError(name)

    @staticmethod
    def same_bins_all(col):
        """all members over the same bins, contents of that shape (the class: members differ in state, not in bins)"""
        hs = col.histograms
        if not hs:
            return True
        b0 = np.asarray(hs[0].bins)
        for h in hs:
            b = np.asarray(h.bins)
            if b.shape != b0.shape or not np.array_equal(b, b0):
                return False
            if np.shape(h.frequencies) != (b.shape[0],) or np.shape(h.errors2) != (b.shape[0],):
                return False
        return True

    def post_fill(self, h, v, post):
        """the operation that depends on the flags: returns what fill returned"""
        w = impl1.num_of(post["w"], post["wk"])
        try:
            ix = h.fill(v, w)
        except Exception as e:
            return f"raised {type(e).__name__}: {e}"[:160]
        if ix is None:
            return None
        if isinstance(ix, (tuple, list, np.ndarray)):
            return [int(i) for i in ix]
        return impl1.fb_json(ix, h)

    def run_colx(self, case):
        from physt.io import load_json, parse_json, save_json
        log = []
        out = {"status": "ok"}
        col = self.build_colx(case, log)
        if not self.same_bins_all(col):
            out["status"] = "bins_differ"
            if not self.ENABLE_GROWN_MEMBER:
                return {"outs": out, "log": log}
        if not col.histograms:
            out["status"] = "no_members"
            return {"outs": out, "log": log}
        out["orig"] = snap(col)
        try:
            text = col.to_json()
        except Exception as e:
            out["error"] = f"to_json() raised {type(e).__name__}: {e}"[:200]
            return {"outs": out, "log": log}
        readers = {}
        try:
            readers["parse_json"] = parse_json(text)
            with tempfile.TemporaryDirectory(dir=self.SCRATCH, prefix="c08_") as td:
                path = os.path.join(td, "collection.json")
                if len(case["members"]) % 2:
                    col.to_json(path)
                else:
                    save_json(col, path)
                with open(path, encoding="utf-8") as f:
                    out["file_same_text"] = canon(f.read()) == canon(text)
                readers["load_json"] = load_json(path)
        except Exception as e:
            out["error"] = f"reading the document back raised {type(e).__name__}: {e}"[:200]
            return {"outs": out, "log": log}
        doc = canon(text)
        out["read"] = {}
        for how, p in readers.items():
            r = {"snap": snap(p), "eq": bool(col == p), "eq_reflected": bool(p == col)}
            try:
                doc2 = canon(p.to_json())
                r["text_stable"] = doc2 == doc
                if doc2 != doc:
                    r["doc_diff"] = doc_diff(json.loads(doc), json.loads(doc2))
            except Exception as e:
                r["text_stable"] = False
                r["doc_diff"] = [f"to_json() of the parsed object raised {type(e).__name__}: {e}"[:160]]
            out["read"][how] = r
        # the version gate, on this very document
        d = json.loads(text)
        out["declared"] = d.get("physt_compatible")
        out["versions"] = []
        for v in self.version_strings(case.get("versions", [])):
            d2 = dict(d); d2["physt_compatible"] = v
            try:
                q = parse_json(json.dumps(d2))
                out["versions"].append({"v": v, "refused": False, "same": snap(q) == out["read"]["parse_json"]["snap"]})
            except Exception as e:
                out["versions"].append({"v": v, "refused": True})
        # one operation that depends on the restored flags, on the original and on what was read
        shared = len({id(h.binning) for h in col.histograms}) < len(col.histograms)      # (a fill through one would grow the other's bins)
        if not shared and all(isinstance(r["snap"].get("members"), list) and len(r["snap"]["members"]) == len(col.histograms) for r in out["read"].values()):
            post, model = [], []
            for j, h in enumerate(col.histograms):
                ps = case["post"][j % len(case["post"])]
                v = self.beside(h, ps["side"], ps["k"])
                rec = {"v": rs(v), "side": ps["side"], "k": ps["k"], "w": ps["w"], "wk": ps["wk"]}
                pm = readers["parse_json"].histograms[j]
                model.append({"orig": impl1.snap1(h), "parsed": impl1.snap1(pm)})
                rec["orig"] = {"ret": self.post_fill(h, v, ps), "snap": pub(h)}
                for how, p in readers.items():
                    q = p.histograms[j]
                    rec[how] = {"ret": self.post_fill(q, v, ps), "snap": pub(q)}
                model[-1]["parsed_after"] = impl1.snap1(pm)
                post.append(rec)
            out["post"] = post
            out["_model"] = model
        return {"outs": out, "log": log}

    # the part shared by the 1-D and N-d flag streams
    def apply_toggles(self, h, case):
        from physt.histogram1d import Histogram1D
        for t in case.get("toggles", []):
            if isinstance(h, Histogram1D):
                if t["via"] == "method":
                    h.set_adaptive(t["v"])
                elif t["via"] == "property":
                    h.adaptive = t["v"]
                else:
                    h.binning.set_adaptive(t["v"])
            elif t["via"] == "hist":
                if t["how"] == "method":
                    h.set_adaptive(t["v"])
                else:
                    h.adaptive = t["v"]
            else:
                h.binnings[t["axis"]].set_adaptive(t["v"])

    def post_single(self, case, h, readers):
        """the flag-dependent operation on a single histogram and on what was read from its document"""
        from physt.histogram1d import Histogram1D
        ps = case["post"]
        one = isinstance(h, Histogram1D)
        if one:
            v = self.beside(h, ps["side"], ps["k"])
            rec = {"v": rs(v)}
            snapm = impl1.snap1
        else:
            v = [impl1.fl(x) for x in ps["v"]]
            rec = {"v": ps["v"]}
            snapm = implnd.snapn
        rec.update({"w": ps["w"], "wk": ps["wk"], "side": ps["side"], "k": ps["k"], "axis": ps.get("axis", 0)})
        rec["orig"] = {"ret": self.post_fill(h, v, ps), "snap": pub(h)}
        for how, p in readers.items():
            rec[how] = {"ret": self.post_fill(p, v, ps), "snap": pub(p)}
            if how == "parse_json":
                rec["_model_after"] = snapm(p)
        return rec

    # ------------------------------------------------------------------ flag streams: model and oracle
    KEEP1 = {"bins", "freq", "err2", "under", "over", "inner", "keep", "dtype", "adaptive", "binning"}
    KEEPN = {"bins", "shape", "freq", "err2", "missed", "keep", "dtype", "names", "adaptive"}

    @staticmethod
    def of_arrays_from(s, out):
        """the model's construction of a 1-D histogram in the state a snapshot (impl1.snap1) shows; None if not expressible"""
        b = s["binning"]
        if b["t"] != "fixed" or any(x is None for x in s["freq"] + s["err2"]) or s["dtype"] not in C08.MODEL_DTS:
            return None
        if not s["keep"] and any(x not in ("0", None) for x in (s["under"], s["over"], s["inner"])):
            return None
        binning = {"t": "fixed", "w": b["w"], "shift": b["shift"], "tmin": b["tmin"], "count": b["count"], "adaptive": b["adaptive"],
                   "align": True, "ire": b["ire"]}
        return {"op": "of_arrays", "out": out, "binning": binning, "freq": s["freq"], "err2": s["err2"], "under": s["under"],
                "over": s["over"], "inner": s["inner"], "dtype": s["dtype"], "keep": s["keep"]}

    def model_colx(self, case, io):
        """member by member: the state the member is in when the collection is written goes into the model as it is observed;
        the model says what is read back and what the following fill does to it"""
        o = io["outs"]
        if o.get("status") != "ok" or "error" in o or "post" not in o:
            return None
        ops, sel = [], []
        for j, (ms, rec) in enumerate(zip(o["_model"], o["post"])):
            t = len(sel)
            oa = self.of_arrays_from(ms["orig"], 2 * t)
            if oa is None or any(isinstance(rec[k]["ret"], str) and rec[k]["ret"].startswith("raised") for k in ("orig", "parse_json")):
                continue
            sel.append(j)
            ops += [oa, {"op": "roundtrip", "h": 2 * t, "out": 2 * t + 1},
                    {"op": "fill", "h": 2 * t + 1, "v": rec["v"], "w": rec["w"], "wk": rec["wk"]}]
        if not sel:
            return None
        io["_model_members"] = sel
        return {"kind": "hist1", "ops": ops}

    def diff_colx(self, case, model_ok, io):
        o = io["outs"]
        d = []
        for t, j in enumerate(io["_model_members"]):
            ms, rec = o["_model"][j], o["post"][j]
            if model_ok[3 * t]["ret"] != "ok":
                d.append(f"member{j}: the model refuses the state of the member as observed: {model_ok[3 * t]['ret']}")
                continue
            rt, fl_ = model_ok[3 * t + 1], model_ok[3 * t + 2]
            d += [f"member{j} read back{x}" for x in diff_outputs(rt["regs"][2 * t + 1], ms["parsed"], self.KEEP1, None)]
            d += [f"member{j} after fill({rec['v']}, {rec['w']}) on what was read{x}"
                  for x in diff_outputs({"ret": fl_["ret"], "h": fl_["regs"][2 * t + 1]}, {"ret": rec["parse_json"]["ret"], "h": ms["parsed_after"]}, self.KEEP1 | {"ret", "h"}, None)]
        return d[:8]

    # ---- what the fill after the round trip must do, from the flags the ORIGINAL had when it was written
    @staticmethod
    def post_expect(a, b2, v, w, side, where):
        """a: public snapshot of the original before the fill; b2: of the object read back, after fill(v, w)"""
        F = Fraction
        vs = [F(x) for x in (v if isinstance(v, list) else [v])]
        w = F(w)
        bins = [[(F(l), F(r)) for l, r in ax] for ax in a["bins"]]
        if any(x is None for x in a["freq"] + a["err2"] + a["missed"] + b2["freq"] + b2["err2"] + b2["missed"]):
            return []
        for ax, bb in enumerate(bins):
            consecutive = all(bb[i][1] == bb[i + 1][0] for i in range(len(bb) - 1))
            if not bb or (a["grid"][ax] is None and not consecutive) or vs[ax] == bb[-1][1]:
                return []           # gapped explicit bins / a value exactly on the last edge: only "same as on the original" is demanded
        cell, outside = [], []
        for ax, bb in enumerate(bins):
            hit = [i for i, (l, r) in enumerate(bb) if l <= vs[ax] < r]
            cell.append(hit[0] if hit else None)
            if not hit:
                outside.append(ax)
        fails = []
        fa, fb = [F(x) for x in a["freq"]], [F(x) for x in b2["freq"]]
        ea, eb = [F(x) for x in a["err2"]], [F(x) for x in b2["err2"]]
        ma, mb = [F(x) for x in a["missed"]], [F(x) for x in b2["missed"]]
        what = f"{where}: fill({[str(x) for x in vs] if len(vs) > 1 else str(vs[0])}, {w})"
        if not outside:
            flat = 0
            for ax, c in enumerate(cell):
                flat = flat * len(bins[ax]) + c
            want_f = list(fa); want_f[flat] += w
            want_e = list(ea); want_e[flat] += w * w
            if b2["bins"] != a["bins"] or fb != want_f or eb != want_e or mb != ma:
                fails.append(f"fill_after_roundtrip: {what} inside the bins: expected content {want_f[flat]} in cell {cell} and nothing else changed; "
                             f"contents {b2['freq']}, missed {b2['missed']}, bins changed: {b2['bins'] != a['bins']}")
            return fails
        if len(outside) > 1:
            return []
        ax = outside[0]
        if a["adaptive_axes"][ax]:
            nb = [(F(l), F(r)) for l, r in b2["bins"][ax]]
            ok = any(l <= vs[ax] < r for l, r in nb) and all(x in nb for x in bins[ax])
            others = all(b2["bins"][i] == a["bins"][i] for i in range(len(bins)) if i != ax)
            if not ok or not others or sum(fb) != sum(fa) + w or sum(eb) != sum(ea) + w * w or mb != ma:
                fails.append(f"fill_after_roundtrip: {what}: axis {ax} was adaptive when the histogram was written, so its bins must grow to hold the "
                             f"value and the weight must be in the contents: bins of the axis {b2['bins'][ax]}, total {sum(fb)} (was {sum(fa)}), missed {b2['missed']} (was {a['missed']})")
        else:
            want_m = list(ma)
            if a["keep_missed"]:
                if len(ma) == 3:
                    want_m[1 if vs[0] >= bins[0][-1][1] else 0] += w
                else:
                    want_m[0] += w
            if b2["bins"] != a["bins"] or fb != fa or eb != ea or mb != want_m:
                fails.append(f"fill_after_roundtrip: {what}: axis {ax} was not adaptive when the histogram was written, so the bins must stay and the "
                             f"weight must be counted as missed ({'kept' if a['keep_missed'] else 'not kept'}): bins changed: {b2['bins'] != a['bins']}, "
                             f"contents changed: {fb != fa}, missed {b2['missed']} (expected {[str(x) for x in want_m]})")
        return fails

    def post_oracle(self, a, rec, where):
        """the record of one flag-dependent operation: the objects read back must behave as the original does, and as the flags
        written demand"""
        fails = []
        a2 = rec["orig"]["snap"]
        for how in ("parse_json", "load_json"):
            if how not in rec:
                continue
            b2 = rec[how]["snap"]
            raised = [isinstance(r, str) and r.startswith("raised") for r in (rec["orig"]["ret"], rec[how]["ret"])]
            if raised[0] != raised[1]:
                fails.append(f"fill_after_roundtrip: {where} [{how}]: fill({rec['v']}, {rec['w']}) on the original gave {rec['orig']['ret']}, on the object read back {rec[how]['ret']}")
                continue
            if raised[0]:
                continue
            fails += self.post_expect(a, b2, rec["v"], rec["w"], rec["side"], f"{where} [{how}]")
            if rec["orig"]["ret"] != rec[how]["ret"]:
                fails.append(f"fill_after_roundtrip: {where} [{how}]: fill({rec['v']}, {rec['w']}) returned {rec['orig']['ret']} on the original and {rec[how]['ret']} on the object read back")
            for f in FIELDS + ("ire",):
                if a2[f] != b2[f]:
                    fails.append(f"fill_after_roundtrip: {where} [{how}]: after the same fill({rec['v']}, {rec['w']}) on the original and on the "
                                 f"object read back, {f} differs: {a2[f]} vs {b2[f]}")
                    break
        return fails

    def oracle_colx(self, case, io):
        o = io["outs"]
        if o.get("status") != "ok" and not (self.ENABLE_GROWN_MEMBER and o.get("status") == "bins_differ"):
            return []               # the history left the class (a member's bins grew away from the others'): nothing is asserted
        if "error" in o:
            return ["collection_roundtrip_raises: " + o["error"]]
        from packaging.version import Version
        import physt
        fails = []
        a = o["orig"]
        cur = Version(physt.__version__)
        if o.get("file_same_text") is False:
            fails.append("file_text: the document written to the file differs from the one to_json() returns")
        for how, r in o["read"].items():
            f = compare(a, r["snap"], how)
            if "members" in r["snap"] and not f:
                for i, (x, y) in enumerate(zip(a["members"], r["snap"]["members"])):
                    if x["ire"] != y["ire"]:
                        f.append(f"roundtrip_ire: {how}: member{i}: {x['ire']} -> {y['ire']}")
            fails += f
            if not (r["eq"] and r["eq_reflected"]):
                fails.append(f"not_equal: {how}: the collection read back != the original")
            if not r["text_stable"]:
                fails.append(f"second_serialisation: {how}: serialising the collection read back gives a different document (entries {r.get('doc_diff')})")
        for vr in o["versions"]:
            want = cur < Version(vr["v"])
            if vr["refused"] != want:
                fails.append(f"version_gate: the collection's document requiring physt >= {vr['v']} was {'refused' if vr['refused'] else 'accepted'} by {cur}")
            elif not want and vr.get("same") is False:
                fails.append(f"version_gate: the collection's document requiring physt >= {vr['v']} is read differently")
        if fails:
            return fails[:6]
        for j, rec in enumerate(o.get("post", [])):
            fails += self.post_oracle(a["members"][j], rec, f"member{j}")
        return fails[:6]

    def run_impl(self, case):
        from physt.io import load_json, parse_json
        from physt.histogram_collection import HistogramCollection
        log = []
        if case["kind"] == "jsonseq":
            return self.run_seq(case)
        if case["kind"] == "jsoncolx":
            return self.run_colx(case)
        if case["kind"] == "version":
            from physt import h1
            from physt.histogram_collection import HistogramCollection as HC
            h = h1([1, 2, 3], [0, 2, 4])
            obj = HC(h, name="c") if case["collection"] else h
            base = json.loads(obj.to_json())
            res = []
            for v in case["required"]:
                d = dict(base); d["physt_compatible"] = v
                try:
                    parse_json(json.dumps(d)); res.append(False)
                except Exception as e:
                    res.append(True); log.append(f"{v}: {type(e).__name__}")
            return {"outs": res, "log": log}
        h = self.build(case)
        out = {}
        try:
            text = h.to_json()
        except Exception as e:
            return {"outs": {"error": f"{type(e).__name__}: {e}"[:200], "dtype": str(h.dtype)}, "log": [str(e)[:200]]}
        try:
            p = parse_json(text)
        except Exception as e:
            # the library refuses the document it has just written
            return {"outs": {"error": f"{type(e).__name__}: {e}"[:200], "dtype": str(getattr(h, "dtype", "")), "stage": "parse_json"},
                    "log": [str(e)[:200]]}
        # the same document: equal as JSON values (objects are unordered; NaN tokens compare equal)
        canon = lambda t: json.dumps(json.loads(t, parse_constant=lambda c: "<" + c + ">"), sort_keys=True)
        out["text_stable"] = canon(p.to_json()) == canon(text)
        if isinstance(h, HistogramCollection):
            out["orig"] = {"name": h.name, "title": h.title, "members": [pub(m) for m in h.histograms]}
            out["parsed"] = {"name": p.name, "title": p.title, "members": [pub(m) for m in p.histograms], "class": type(p).__name__}
            out["eq"] = bool(h == p)
        else:
            out["orig"] = pub(h)
            out["parsed"] = pub(p)
            out["eq"] = bool(h == p)
            with tempfile.TemporaryDirectory() as td:
                path = os.path.join(td, "h.json")
                h.to_json(path)
                q = load_json(path)
                out["loaded"] = pub(q)
            if case["kind"] in ("json1", "jsonnd"):
                d = h.to_dict()
                out["dict"] = copy.deepcopy(d)
            if "post" in case:
                # one operation that depends on the restored flags, on the original and on both objects read back
                out["post"] = self.post_single(case, h, {"parse_json": p, "load_json": q})
        return {"outs": out, "log": log}

    # ------------------------------------------------------------------ model
    def model_case(self, case, io):
        if case["kind"] == "jsonseq":
            return None             # oracle-only: the model's op language has no histories of serialisations
        if case["kind"] == "jsoncolx":
            return self.model_colx(case, io)
        if isinstance(io["outs"], dict) and "error" in io["outs"]:
            return None
        post = io["outs"].get("post") if isinstance(io["outs"], dict) else None
        if post is not None and any(isinstance(post[k]["ret"], str) and post[k]["ret"].startswith("raised") for k in ("orig", "parse_json")):
            post = None
        if case["kind"] == "version":
            return {"kind": "version", "current": parse_version(case["current"]), "required": [parse_version(v) for v in case["required"]]}
        if case["kind"] == "jsonnd":
            if case["init"].get("dtype") == "float16":
                return None
            init = case["init"] if not case.get("flags") else {**case["init"], "axes": self.nd_final_axes(case)}
            ops = [init, {"op": "roundtrip", "h": 0, "out": 1}]
            if post is not None:
                ops.append({"op": "fill", "h": 1, "v": post["v"], "w": post["w"], "wk": post["wk"]})
            return {"kind": "histn", "ops": ops}
        if case["kind"] != "json1":
            return None
        s = case["spec"]
        if s["bt"] in ("exponential",) or s["dtype"] == "float16":
            return None
        if s["bt"] == "static":
            b = {"t": "static", "bins": s["pairs"], "ire": True}
        elif s["bt"] == "numpy":
            e = s["edges"]
            b = {"t": "static", "bins": [[e[i], e[i + 1]] for i in range(len(e) - 1)], "ire": True}
        else:
            b = {"t": "fixed", "w": s["w"], "shift": s["shift"], "tmin": s["tmin"] if s["count"] else 0, "count": s["count"],
                 "adaptive": case["toggles"][-1]["v"] if case.get("toggles") else s["bt"] == "fixed_adaptive", "align": True, "ire": False}
        op = {"op": "of_arrays", "out": 0, "binning": b, "freq": s["freq"], "err2": s["err2"], "under": s["missed"][0],
              "over": s["missed"][1], "inner": s["missed"][2], "dtype": s["dtype"], "keep": s["keep"]}
        ops = [op, {"op": "roundtrip", "h": 0, "out": 1}]
        if post is not None:
            ops.append({"op": "fill", "h": 1, "v": post["v"], "w": post["w"], "wk": post["wk"]})
        return {"kind": "hist1", "ops": ops}

    def diff(self, case, model_ok, io):
        if case["kind"] == "version":
            return [f"version {v}: model refused={m} impl refused={i}" for v, m, i in zip(case["required"], model_ok, io["outs"]) if m != i]
        o = io["outs"]
        if case["kind"] == "jsoncolx":
            return self.diff_colx(case, model_ok, io)
        if case["kind"] == "jsonnd":
            return (self.diff_nd(case, model_ok, o) + self.diff_post(model_ok, o, self.KEEPN))[:8]
        doc = model_ok[1]["ret"]
        d = []
        impl = o["dict"]
        if impl.get("histogram_type") != doc["histogram_type"]:
            d.append("document: histogram_type")
        ib = (impl.get("binnings") or [{}])[0]
        mb = doc["binning"]
        if mb["t"] == "fixed":
            got = {"adaptive": ib.get("adaptive"), "count": ib.get("bin_count"), "w": rs(ib["bin_width"]) if ib.get("bin_width") is not None else None,
                   "shift": rs(ib["bin_shift"]) if ib.get("bin_shift") is not None else None,
                   "tmin": ib.get("bin_times_min") if ib.get("bin_times_min") is not None else 0}
            exp = {k: mb[k] for k in ("adaptive", "count", "w", "shift", "tmin")}
            if got != exp:
                d.append(f"document: binning model={exp} impl={got}")
        else:
            if "bins" in ib:
                got = [[rs(l), rs(r)] for l, r in ib["bins"]]
            else:
                e = ib["numpy_bins"]
                got = [[rs(e[i]), rs(e[i + 1])] for i in range(len(e) - 1)]
            if got != mb["bins"]:
                d.append("document: bins")
        for mk, ik in (("freq", "frequencies"), ("err2", "errors2")):
            if impl.get(ik) is None:
                d.append(f"document: {ik} is not written")
                continue
            if [Fraction(x) for x in doc[mk]] != [Fraction(float(x)) if not isinstance(x, int) else Fraction(x) for x in impl[ik]]:
                d.append(f"document: {ik} model={doc[mk]} impl={impl[ik]}")
        if doc["dtype"] != impl.get("dtype"):
            d.append(f"document: dtype model={doc['dtype']} impl={impl.get('dtype')}")
        if doc["missed_keep"] != impl.get("missed_keep"):
            d.append("document: missed_keep")
        if case["spec"]["keep"]:
            im = [nrs(x) for x in impl.get("missed", [])]
            if [None if x is None else Fraction(x) for x in doc["missed"]] != [None if x is None else Fraction(x) for x in im]:
                d.append(f"document: missed model={doc['missed']} impl={im}")
        # the object read back
        m = model_ok[1]["regs"][1]
        p = o["parsed"]
        if m["bins"] != p["bins"][0]:
            d.append("parsed: bins")
        for f in ("freq", "err2"):
            if [Fraction(x) for x in m[f]] != [Fraction(x) for x in p[f]]:
                d.append(f"parsed: {f} model={m[f]} impl={p[f]}")
        if [m["under"], m["over"], m["inner"]] != p["missed"] and [None if x is None else Fraction(x) for x in (m["under"], m["over"], m["inner"])] != [None if x is None else Fraction(x) for x in p["missed"]]:
            d.append(f"parsed: missed model={[m['under'], m['over'], m['inner']]} impl={p['missed']}")
        if m["dtype"] != p["dtype"] or m["keep"] != p["keep_missed"] or m["adaptive"] != p["adaptive"]:
            d.append("parsed: dtype / keep_missed / adaptive")
        return (d + self.diff_post(model_ok, o, self.KEEP1))[:8]

    @staticmethod
    def diff_post(model_ok, o, keep):
        """the fill after the round trip: the model's answer on what it read back vs the implementation's on what it parsed"""
        if len(model_ok) < 3 or "post" not in o:
            return []
        rec = o["post"]
        return [f"after fill({rec['v']}, {rec['w']}) on what was read{x}" for x in
                diff_outputs({"ret": model_ok[2]["ret"], "h": model_ok[2]["regs"][1]},
                             {"ret": rec["parse_json"]["ret"], "h": rec["_model_after"]}, keep | {"ret", "h"}, None)]

    def diff_nd(self, case, model_ok, o):
        doc = model_ok[1]["ret"]
        impl = o["dict"]
        d = []
        if impl.get("histogram_type") != doc["histogram_type"]:
            d.append(f"document: histogram_type model={doc['histogram_type']} impl={impl.get('histogram_type')}")
        ibs = impl.get("binnings") or []
        if len(ibs) != len(doc["binnings"]):
            d.append("document: number of binnings")
        for a, (ib, mb) in enumerate(zip(ibs, doc["binnings"])):
            if mb["t"] == "fixed":
                got = {"adaptive": ib.get("adaptive"), "count": ib.get("bin_count"), "w": rs(ib["bin_width"]) if ib.get("bin_width") is not None else None,
                   "shift": rs(ib["bin_shift"]) if ib.get("bin_shift") is not None else None,
                       "tmin": ib.get("bin_times_min") if ib.get("bin_times_min") is not None else 0}
                exp = {k: mb[k] for k in ("adaptive", "count", "w", "shift", "tmin")}
                if got != exp:
                    d.append(f"document: binning of axis {a} model={exp} impl={got}")
            else:
                if "bins" in ib:
                    got = [[rs(l), rs(r)] for l, r in ib["bins"]]
                elif "numpy_bins" in ib:
                    e = ib["numpy_bins"]
                    got = [[rs(e[i]), rs(e[i + 1])] for i in range(len(e) - 1)]
                else:
                    got = None
                if got != mb["bins"]:
                    d.append(f"document: bins of axis {a}")

        def flat(x):
            return [y for row in x for y in flat(row)] if isinstance(x, list) else [x]

        def shape(x):
            return [len(x)] + shape(x[0]) if isinstance(x, list) and x else ([0] if isinstance(x, list) else [])

        for mk, ik in (("freq", "frequencies"), ("err2", "errors2")):
            if impl.get(ik) is None:
                d.append(f"document: {ik} is not written")
                continue
            if 0 not in doc["shape"] and shape(impl[ik]) != doc["shape"]:
                d.append(f"document: shape of {ik} model={doc['shape']} impl={shape(impl[ik])}")
            if [Fraction(x) for x in doc[mk]] != [Fraction(x) if isinstance(x, int) else Fraction(float(x)) for x in flat(impl[ik])]:
                d.append(f"document: {ik} model={doc[mk]} impl={impl[ik]}")
        if doc["dtype"] != impl.get("dtype"):
            d.append(f"document: dtype model={doc['dtype']} impl={impl.get('dtype')}")
        if doc["missed_keep"] != impl.get("missed_keep"):
            d.append("document: missed_keep")
        if case["init"].get("keep", True):
            im = [nrs(x) for x in impl.get("missed", [])]
            if [None if x is None else Fraction(x) for x in doc["missed"]] != [None if x is None else Fraction(x) for x in im]:
                d.append(f"document: missed model={doc['missed']} impl={im}")
        names = (impl.get("meta_data") or {}).get("axis_names")
        if names is not None and [str(n) for n in names] != doc["axis_names"]:
            d.append(f"document: axis_names model={doc['axis_names']} impl={names}")
        # the object read back
        m = model_ok[1]["regs"][1]
        p = o["parsed"]
        if m["bins"] != p["bins"]:
            d.append("parsed: bins")
        if m["shape"] != p["shape"] and 0 not in m["shape"]:
            d.append(f"parsed: shape model={m['shape']} impl={p['shape']}")
        for f in ("freq", "err2"):
            if [Fraction(x) for x in m[f]] != [Fraction(x) for x in p[f]]:
                d.append(f"parsed: {f} model={m[f]} impl={p[f]}")
        pm = p["missed"][0]
        if (None if m["missed"] is None else Fraction(m["missed"])) != (None if pm is None else Fraction(pm)):
            d.append(f"parsed: missed model={m['missed']} impl={pm}")
        if m["dtype"] != p["dtype"] or m["keep"] != p["keep_missed"] or m["adaptive"] != p["adaptive"]:
            d.append(f"parsed: dtype / keep_missed / adaptive model={m['dtype'], m['keep'], m['adaptive']} impl={p['dtype'], p['keep_missed'], p['adaptive']}")
        if m["names"] != [str(n) for n in p["axis_names"]]:
            d.append(f"parsed: axis names model={m['names']} impl={p['axis_names']}")
        return d[:6]

    # ------------------------------------------------------------------ oracle
    def oracle(self, case, io):
        o = io["outs"]
        fails = []
        if case["kind"] == "version":
            from packaging.version import Version
            cur = Version(case["current"])
            for v, refused in zip(case["required"], o):
                want = cur < Version(v)
                if refused != want:
                    fails.append(f"version_gate: a document requiring physt >= {v} was {'refused' if refused else 'accepted'} by {case['current']}")
            return fails
        if case["kind"] == "jsoncolx":
            return self.oracle_colx(case, io)
        if case["kind"] == "jsonseq":
            for rec in o["steps"]:
                hist = f"after {rec['ser']}, {rec['op']}" + (" (refused)" if rec["status"] == "refused" else "")
                if "ser_error" in rec:
                    fails.append(f"to_json_raises: step {rec['step']}: serialising with {rec['ser']} raised {rec['ser_error']}")
                for j, r in enumerate(rec.get("objs", [])):
                    where = f"step {rec['step']} {hist}" + ("" if j == rec["on"] else ", the other object")
                    if "error" in r:
                        fails.append(f"to_json_raises: {where}: {r['error']}")
                        continue
                    fails += compare(r["orig"], r["parsed"], where)
                    if not r["eq"]:
                        fails.append(f"not_equal: {where}: parsed object != the object as it is now")
                    if not r["text_stable"]:
                        dd = r.get("doc_diff", [])
                        if dd and all(x.endswith("missed(missed_keep off)") for x in dd):
                            # counts stored in an object that does not keep missed values (keep_missed switched off later, or a
                            # slot assigned): written, but not read back
                            fails.append(f"missed_dropped_keep_off: {where}: the document carries missed counts although missed_keep "
                                         f"is false; the reader drops them and the second serialisation differs in {dd}")
                        else:
                            fails.append(f"second_serialisation: {where}: serialising the parsed object gives a different document "
                                         f"(entries {dd})")
                    if r.get("doc_unchanged") is False:
                        fails.append(f"independent_objects: {where}: its document changed although only an object that shares nothing "
                                     f"with it was changed")
            fails.sort(key=lambda f: f.startswith("missed_dropped_keep_off"))       # the recorded finding never hides another failure
            return fails[:6]
        if "error" in o:
            if o["dtype"] == "float128":
                return ["json_float128: to_json() of a float128 histogram raises " + o["error"]]
            if o.get("stage") == "parse_json":
                return ["own_document_refused: parse_json() refuses the document to_json() has just written: " + o["error"]]
            return ["to_json_raises: to_json() raised " + o["error"]]
        if not o["text_stable"]:
            fails.append("second_serialisation: serialising the parsed object gives a different document")
        if not o["eq"]:
            fails.append("not_equal: parsed object != original")
        pairs = [("parsed", o["orig"], o["parsed"])]
        if "loaded" in o:
            pairs.append(("loaded", o["orig"], o["loaded"]))
        if case["kind"] == "jsoncol":
            if o["parsed"]["class"] != "HistogramCollection":
                fails.append("class: collection parsed as " + o["parsed"]["class"])
            if o["orig"]["name"] != o["parsed"]["name"] or o["orig"]["title"] != o["parsed"]["title"]:
                fails.append(f"collection_meta: name/title {o['orig']['name']}/{o['orig']['title']} -> {o['parsed']['name']}/{o['parsed']['title']}")
            if len(o["orig"]["members"]) != len(o["parsed"]["members"]):
                fails.append("collection_members: member count changed")
            pairs = [(f"member{i}", a, b) for i, (a, b) in enumerate(zip(o["orig"]["members"], o["parsed"]["members"]))]
        for name, a, b in pairs:
            for f in FIELDS:
                if a[f] != b[f]:
                    if f == "missed" and not a["keep_missed"]:
                        continue
                    fails.append(f"roundtrip_{f}: {name}: {a[f]} -> {b[f]}")
            if ("post" in case or case.get("flags")) and a["ire"] != b["ire"]:
                fails.append(f"roundtrip_ire: {name}: includes_right_edge {a['ire']} -> {b['ire']}")
        if "post" in o and not fails:
            fails += self.post_oracle(o["orig"], o["post"], "histogram")
        return fails[:6]

    def nontrivial(self, case, io):
        if case["kind"] == "version":
            return True
        if case["kind"] == "jsonseq":
            done = [r for r in io["outs"]["steps"] if r["status"] == "ok" and r.get("objs") and "orig" in r["objs"][r["on"]]]
            if not done:
                return False
            o = done[-1]["objs"][done[-1]["on"]]["orig"]
            fr = o["freq"] if "freq" in o else [x for m in o["members"] for x in m["freq"]]
            return any(x not in ("0", None) for x in fr)
        if "error" in io["outs"] or "orig" not in io["outs"]:
            return False
        o = io["outs"]["orig"]
        fr = o["freq"] if "freq" in o else [x for m in o["members"] for x in m["freq"]]
        return any(x not in ("0", None) for x in fr)

    def tags(self, case, io):
        t = list(case["tags"])
        if case["kind"] == "jsoncolx":
            o = io["outs"]
            t.append("colx:status:" + o.get("status", "?") + (":error" if "error" in o else ""))
            if "orig" in o:
                ms = o["orig"]["members"]
                t.append(f"colx:members:{len(ms)}")
                for f, nm in (("adaptive", "flags"), ("keep_missed", "keep"), ("dtype", "dtype"), ("meta", "meta"), ("axis_names", "axis_name")):
                    t.append(f"colx:{nm}:" + ("differ" if len({json.dumps(m[f], sort_keys=True) for m in ms}) > 1 else "same"))
                if any(any(x not in ("0", None) for x in m["missed"]) for m in ms):
                    t.append("colx:missed_weight")
                if any(all(x == "0" for x in m["freq"]) for m in ms):
                    t.append("colx:empty_member")
                if any(m["adaptive"] for m in ms) and any(r["k"] > 0 for r in o.get("post", [])):
                    t.append("colx:post_grows")
            t += sorted({"colx:op:" + op["op"] for op in case["ops"]})
            if io.get("log"):
                t.append("colx:refused_op")
        if case.get("post") and case["kind"] != "jsoncolx" and isinstance(io["outs"], dict) and "post" in io["outs"]:
            r = io["outs"]["post"]
            t.append("post:" + ("inside" if r["k"] == 0 else "beside"))
        if case["kind"] == "jsonseq":
            for r in io["outs"]["steps"]:
                t += ["seq:ser:" + r["ser"], "seq:op:" + r["op"]]
                if r["status"] != "ok":
                    t.append(f"seq:{r['status']}:{r['op']}")
            t.append(f"seq:steps:{len(case['steps'])}")
        return t

    def matches_known(self, finding, case):
        if finding.get("signature") == "json_float128":
            return case.get("kind") == "json1" and case["spec"]["dtype"] == "float128"
        if finding.get("signature") == "missed_dropped_keep_off":
            # only histories that switch keep_missed or assign a missed slot can leave counts in a 1-D object that keeps none
            return case.get("kind") == "jsonseq" and any(st["op"] in ("keep_missed", "missed_slot") for st in case["steps"])
        return False

    def neighbours(self, case):
        """the same object with one more flag switched (used when only the correspondence with the model broke)"""
        out = []
        if case.get("kind") == "jsoncolx":
            n = len(case["post"])
            for j in range(n):
                for v in (False, True):
                    out.append({**case, "ops": case["ops"] + [{"op": "set_adaptive", "m": j, "v": v, "via": "method"}]})
        elif case.get("kind") == "jsonnd" and case.get("flags"):
            for a, b in enumerate(case["init"]["axes"]):
                if b["t"] == "fixed" and not b["ire"]:
                    for v in (False, True):
                        out.append({**case, "toggles": case["toggles"] + [{"axis": a, "v": v, "via": "binning", "how": "method"}]})
        elif case.get("kind") == "json1" and "toggles" in case and case["spec"]["bt"] in ("fixed", "fixed_adaptive"):
            for v in (False, True):
                out.append({**case, "toggles": case["toggles"] + [{"v": v, "via": "method"}]})
        return out

    SIMPLE_POST = {"side": "right", "k": 1, "w": "1", "wk": "pyint"}

    def shrink_flag_case(self, case):
        """smaller cases of the flag streams; every candidate is a well-formed case of the same stream (a history that would let
        one member grow alone reports no verdict, so such a candidate is never taken)"""
        out = []
        if case["kind"] == "jsoncolx":
            ops, mem = case["ops"], case["members"]
            for i in range(len(ops)):
                out.append({**case, "ops": ops[:i] + ops[i + 1:]})
            if len(mem) > 1:
                for j in range(len(mem)):
                    if case["ctor"] in ("facade", "multi_h1") and len({v for k, m in enumerate(mem) if k != j for v in m["vals"]}) < 2:
                        continue            # bins taken from the data need two different values
                    # later steps address the members by position: those of the removed member go, the rest move down
                    ops2 = [dict(o, m=o["m"] - (o["m"] > j)) if "m" in o else o for o in ops if o.get("m") != j]
                    ops2 = [dict(o, ws=o["ws"][:j] + o["ws"][j + 1:]) if o["op"] == "grow_all" else o for o in ops2]
                    out.append({**case, "members": mem[:j] + mem[j + 1:], "ops": ops2, "post": case["post"][:j] + case["post"][j + 1:] or [self.SIMPLE_POST]})
            if case.get("versions"):
                out.append({**case, "versions": []})
            for j, ps in enumerate(case["post"]):
                if ps != self.SIMPLE_POST:
                    out.append({**case, "post": case["post"][:j] + [dict(self.SIMPLE_POST)] + case["post"][j + 1:]})
            for j, m in enumerate(mem):
                if len(m.get("vals", [])) > 1 and case["ctor"] == "binning":
                    m2 = {**m, "vals": m["vals"][:1], "ws": None if m.get("ws") is None else m["ws"][:1]}
                    out.append({**case, "members": mem[:j] + [m2] + mem[j + 1:]})
            if case.get("title") or case.get("name"):
                out.append({**case, "title": None, "name": None})
            return out
        tg = case.get("toggles", [])
        for i in range(len(tg)):
            out.append({**case, "toggles": tg[:i] + tg[i + 1:]})
        ps = case.get("post")
        if case["kind"] == "json1" and ps and ps != self.SIMPLE_POST:
            out.append({**case, "post": dict(self.SIMPLE_POST)})
        if case["kind"] == "jsonnd" and ps and (ps["w"], ps["wk"]) != ("1", "pyint"):
            out.append({**case, "post": {**ps, "w": "1", "wk": "pyint"}})
        if case.get("meta"):
            out.append({**case, "meta": {}})
        return out

    def shrink_candidates(self, case):
        if case.get("kind") == "jsoncolx" or (case.get("kind") in ("json1", "jsonnd") and ("post" in case or "toggles" in case)):
            return self.shrink_flag_case(case)
        if case.get("kind") != "jsonseq":
            return []
        out = []
        steps = case["steps"]
        if case["twin"]:
            out.append({**case, "twin": False, "steps": [{**s, "on": 0} for s in steps], "tags": [t for t in case["tags"] if t != "seq:twin"]})
        for i in range(len(steps)):
            if len(steps) > 1:
                out.append({**case, "steps": steps[:i] + steps[i + 1:]})
        for i, s in enumerate(steps):
            if s["ser"] not in ("to_json", "none"):
                out.append({**case, "steps": steps[:i] + [{**s, "ser": "to_json"}] + steps[i + 1:]})
        return out


PROP = C08()

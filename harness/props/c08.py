"""C08 — JSON round trip reproduces the histogram exactly."""
from __future__ import annotations

import copy
import json
import os
import re
import tempfile
import warnings
from fractions import Fraction

import numpy as np

from .. import gen1, gennd, impl1, implnd
from ..core import nrs, rs
from ..runner import diff_outputs
from .c09 import rand_nd_op
from .c16 import KIND, axis_edges

warnings.simplefilter("ignore")

SPECIAL = ["RadialHistogram", "AzimuthalHistogram", "PolarHistogram", "SphericalSurfaceHistogram", "SphericalHistogram",
           "CylindricalHistogram", "CylindricalSurfaceHistogram"]


def pub(h):
    """public snapshot of the fields the property pins"""
    from physt.histogram1d import Histogram1D
    from physt.binnings import FixedWidthBinning
    one = isinstance(h, Histogram1D)
    binnings = [h.binning] if one else list(h.binnings)
    bins = [h.bins] if one else h.bins
    d = {"class": type(h).__name__,
         "binning_types": [type(b).__name__ for b in binnings],
         "bins": [[[rs(l), rs(r)] for l, r in np.asarray(b).reshape(-1, 2)] for b in bins],
         "freq": [nrs(x) for x in np.asarray(h.frequencies).ravel()],
         "err2": [nrs(x) for x in np.asarray(h.errors2).ravel()],
         "shape": list(np.asarray(h.frequencies).shape),
         "dtype": str(h.dtype), "keep_missed": bool(h.keep_missed), "adaptive": bool(h.is_adaptive()),
         "name": h.name, "title": h.title, "axis_names": [None if n is None else str(n) for n in h.axis_names],
         "meta": {k: v for k, v in h.meta_data.items() if k not in ("name", "title", "axis_names")}}
    if one:
        d["missed"] = [nrs(h.underflow), nrs(h.overflow), nrs(h.inner_missed)]
    else:
        d["missed"] = [nrs(h.missed)]
    d["grid"] = [[rs(b.bin_width), rs(b._shift), int(b._times_min or 0), int(b.bin_count)] if isinstance(b, FixedWidthBinning) else None
                 for b in binnings]
    return d


def parse_version(s):
    m = re.match(r"^(\d+(?:\.\d+)*)(?:(a|b|rc)(\d+))?$", s)
    rel = [int(x) for x in m.group(1).split(".")]
    pre = None if m.group(2) is None else [{"a": 0, "b": 1, "rc": 2}[m.group(2)], int(m.group(3))]
    return {"release": rel, "pre": pre}


class C08:
    ID = "C08"
    N_QUICK = 300
    N_THOROUGH = 6000
    N_SEARCH = 300
    RULE = ("histograms of every class (1-D, 2-D, ND, the seven transformed classes, collections of 1-3 members) x binning types "
            "(Static incl. gapped, Numpy, FixedWidth incl. adaptive and shifted, Exponential) x all seven dtypes x missed values "
            "(zero / non-zero / NaN markers) x keep_missed x custom squared errors (large counts with a few non-unit weights) x "
            "metadata (name, title, axis names, custom JSON-representable entries): parse_json(to_json()), load_json after "
            "saving to a file, a second serialisation; and documents declaring required versions (older, equal, newer in patch / "
            "minor / major, pre-releases) against the running version. non-trivial = non-zero contents; distinct = case hash")
    EXTRA_TRUST = ["CPython json and the shortest round-trip repr of doubles (the text layer) are trusted, not modelled"]
    ASSUMPTIONS = ["the model covers 1-D histograms over static / fixed-width binnings and the version order; the other classes and "
                   "binning types are covered by the round-trip oracle on the implementation"]

    def gen_case(self, rng, k, tier):
        kind = rng.choice(["h1", "h1", "h1", "nd", "special", "collection", "version"])
        if kind == "version":
            import physt
            cur = physt.__version__
            base = [int(x) for x in cur.split(".")[:3]]
            cands = [cur, "0.3.20", "0.4.5", f"{base[0]}.{base[1]}.{base[2]+1}", f"{base[0]}.{base[1]}.{base[2]+10}",
                     f"{base[0]}.{base[1]+1}.0", f"{base[0]+1}.0.0", f"{base[0]}.{base[1]}.{max(base[2]-1,0)}",
                     f"{base[0]}.{base[1]}", f"{base[0]}.{base[1]}.{base[2]}.0", f"{base[0]}.{base[1]}.{base[2]}.1",
                     f"{base[0]}.{base[1]}.{base[2]}rc1", f"{base[0]}.{base[1]}.{base[2]+1}a1", f"{base[0]}.{base[1]}.{base[2]+1}rc2",
                     f"{base[0]}.{base[1]+1}b1", "0.0.1", "10.0"]
            return {"kind": "version", "current": cur, "required": rng.sample(cands, rng.randint(3, 8)),
                    "collection": rng.random() < 0.3, "tags": ["version"]}
        meta = {}
        if rng.random() < 0.6:
            meta["name"] = rng.choice(["n1", "my hist", "ü"])
        if rng.random() < 0.4:
            meta["title"] = rng.choice(["A title", "t"])
        if rng.random() < 0.3:
            meta["custom"] = rng.choice([1, "text", [1, 2, 3], {"a": 1.5}, None, True])
        if kind == "h1":
            bt = rng.choice(["static", "static", "numpy", "fixed", "fixed_adaptive", "exponential"])
            dt = rng.choice(["int64", "int64", "float64", "int32", "int16", "float32", "float16", "float128"])
            pairs, t = gen1.rising_bins(rng)
            spec = {"bt": bt, "dtype": dt, "keep": rng.random() < 0.75, "meta": meta,
                    "axis_name": rng.choice([None, "x", "energy"])}
            if bt == "static":
                spec["pairs"] = [[rs(l), rs(r)] for l, r in pairs]
            elif bt == "numpy":
                e = gen1.edges_pool(rng)
                spec["edges"] = [rs(x) for x in e]
            elif bt in ("fixed", "fixed_adaptive"):
                spec["w"] = rs(rng.choice([1.0, 0.5, 0.1, 0.3, 2.5]))
                spec["tmin"] = rng.randint(-5, 5)
                spec["count"] = rng.randint(0 if bt == "fixed_adaptive" else 1, 6)
                spec["shift"] = rs(rng.choice([0.0, 0.0, 0.5, 0.05]))
            else:
                spec["log_min"] = rs(rng.choice([0.0, -1.0, 0.5]))
                spec["log_width"] = rs(rng.choice([0.5, 0.25, 1.0]))
                spec["count"] = rng.randint(1, 5)
            n = {"static": len(pairs), "numpy": len(spec.get("edges", [])) - 1}.get(bt, spec.get("count", 0))
            big = rng.random() < 0.35 and dt in ("int64", "float64", "int32", "float128")
            isint = dt.startswith("int")
            if big:
                # large counts with a few non-unit weights: squared errors close to, but not equal to, the contents
                f = [rng.choice([250000, 250003, 1000000]) for _ in range(n)]
            else:
                f = [rng.randint(0, 30) if isint or rng.random() < 0.5 else rng.randint(0, 120) / 4 for _ in range(n)]
            if dt == "float16":
                f = [min(x, 500) for x in f]
            spec["freq"] = [rs(x) for x in f]
            if big:
                spec["err2"] = [rs(x + rng.choice([0, 1, 2, 1.25 if not isint else 1])) for x in f]
            else:
                spec["err2"] = None if rng.random() < 0.4 else [rs(x + rng.choice([0, 0, 1.25 if not isint else 2, 7])) for x in f]
            m = rng.choice(["zero", "nonzero", "nan"])
            spec["missed"] = {"zero": ["0", "0", "0"], "nonzero": [rs(rng.randint(0, 9)), rs(rng.randint(0, 9)), rs(rng.randint(0, 3))],
                              "nan": [None, None, "0"]}[m]
            return {"kind": "json1", "spec": spec, "tags": ["h1", "binning:" + bt, "dtype:" + dt, "missed:" + m]}
        if kind == "nd":
            init, axes = rand_nd_op(rng, dtype=rng.choice(["int64", "float64", "int32", "float32"]))
            init["keep"] = rng.random() < 0.8
            return {"kind": "jsonnd", "init": init, "meta": meta, "tags": ["nd", f"d:{len(axes)}"]}
        if kind == "special":
            klass = rng.choice(SPECIAL)
            axes = [axis_edges(rng, kd, rng.random() < 0.5) for kd in KIND[klass]]
            shape = [len(e) - 1 for e in axes]
            f = [rng.randint(0, 9) for _ in range(int(np.prod(shape)))]
            return {"kind": "jsonsp", "class": klass, "axes": [[float(x) for x in e] for e in axes], "freq": f, "meta": meta,
                    "missed": rng.randint(0, 5), "radius": rng.choice([None, 2.5]), "tags": ["special", "class:" + klass]}
        pairs, _ = gen1.rising_bins(rng, allow_gaps=False)
        members = []
        for i in range(rng.randint(1, 3)):
            members.append({"name": f"m{i}", "freq": [rng.randint(0, 9) for _ in pairs], "under": rng.randint(0, 3)})
        return {"kind": "jsoncol", "pairs": [[rs(l), rs(r)] for l, r in pairs], "members": members,
                "name": rng.choice([None, "coll"]), "title": rng.choice([None, "Collection title"]), "tags": ["collection"]}

    # ------------------------------------------------------------------ build the object
    def build(self, case):
        from physt.binnings import ExponentialBinning, FixedWidthBinning, NumpyBinning, StaticBinning
        from physt.histogram1d import Histogram1D
        from physt.histogram_collection import HistogramCollection
        from physt import special_histograms as sp
        k = case["kind"]
        if k == "json1":
            s = case["spec"]
            bt = s["bt"]
            if bt == "static":
                b = StaticBinning(np.array([[impl1.fl(l), impl1.fl(r)] for l, r in s["pairs"]]))
            elif bt == "numpy":
                b = NumpyBinning([impl1.fl(x) for x in s["edges"]])
            elif bt in ("fixed", "fixed_adaptive"):
                kw = dict(bin_width=impl1.fl(s["w"]), bin_count=s["count"], bin_shift=impl1.fl(s["shift"]), adaptive=bt == "fixed_adaptive")
                if s["count"] > 0:
                    kw["bin_times_min"] = s["tmin"]
                b = FixedWidthBinning(**kw)
            else:
                b = ExponentialBinning(log_min=impl1.fl(s["log_min"]), log_width=impl1.fl(s["log_width"]), bin_count=s["count"])
            dt = np.dtype(s["dtype"])
            f = impl1.arr(s["freq"], dt)
            e = None if s["err2"] is None else impl1.arr(s["err2"], dt)
            kw = dict(s["meta"])
            if s["axis_name"]:
                kw["axis_name"] = s["axis_name"]
            return Histogram1D(b, f, e, keep_missed=s["keep"], underflow=impl1.fl(s["missed"][0]), overflow=impl1.fl(s["missed"][1]),
                               inner_missed=impl1.fl(s["missed"][2]), **kw)
        if k == "jsonnd":
            st = implnd.Store(); log = []
            implnd.step(st, case["init"], log)
            h = st.get(0)
            for kk, v in case["meta"].items():
                h.meta_data[kk] = v
            return h
        if k == "jsonsp":
            klass = getattr(sp, case["class"])
            edges = [np.array(e) for e in case["axes"]]
            f = np.array(case["freq"]).reshape([len(e) - 1 for e in edges])
            kw = dict(case["meta"])
            if case["radius"] is not None and case["class"] in ("AzimuthalHistogram", "SphericalSurfaceHistogram", "CylindricalSurfaceHistogram"):
                kw["radius"] = case["radius"]
            if len(edges) == 1:
                return klass(edges[0], f, underflow=case["missed"], **kw)
            return klass(edges, f, missed=case["missed"], **kw)
        if k == "jsoncol":
            b = StaticBinning(np.array([[impl1.fl(l), impl1.fl(r)] for l, r in case["pairs"]]))
            hs = [Histogram1D(b, np.array(m["freq"]), name=m["name"], underflow=m["under"]) for m in case["members"]]
            return HistogramCollection(*hs, name=case["name"], title=case["title"])
        raise KeyError(k)

    def run_impl(self, case):
        from physt.io import load_json, parse_json
        from physt.histogram_collection import HistogramCollection
        log = []
        if case["kind"] == "version":
            from physt import h1
            from physt.histogram_collection import HistogramCollection as HC
            h = h1([1, 2, 3], [0, 2, 4])
            obj = HC(h, name="c") if case["collection"] else h
            base = json.loads(obj.to_json())
            res = []
            for v in case["required"]:
                d = dict(base); d["physt_compatible"] = v
                try:
                    parse_json(json.dumps(d)); res.append(False)
                except Exception as e:
                    res.append(True); log.append(f"{v}: {type(e).__name__}")
            return {"outs": res, "log": log}
        h = self.build(case)
        out = {}
        try:
            text = h.to_json()
        except Exception as e:
            return {"outs": {"error": f"{type(e).__name__}: {e}"[:200], "dtype": str(h.dtype)}, "log": [str(e)[:200]]}
        p = parse_json(text)
        # the same document: equal as JSON values (objects are unordered; NaN tokens compare equal)
        canon = lambda t: json.dumps(json.loads(t, parse_constant=lambda c: "<" + c + ">"), sort_keys=True)
        out["text_stable"] = canon(p.to_json()) == canon(text)
        if isinstance(h, HistogramCollection):
            out["orig"] = {"name": h.name, "title": h.title, "members": [pub(m) for m in h.histograms]}
            out["parsed"] = {"name": p.name, "title": p.title, "members": [pub(m) for m in p.histograms], "class": type(p).__name__}
            out["eq"] = bool(h == p)
        else:
            out["orig"] = pub(h)
            out["parsed"] = pub(p)
            out["eq"] = bool(h == p)
            with tempfile.TemporaryDirectory() as td:
                path = os.path.join(td, "h.json")
                h.to_json(path)
                q = load_json(path)
                out["loaded"] = pub(q)
            if case["kind"] in ("json1", "jsonnd"):
                d = h.to_dict()
                out["dict"] = d
        return {"outs": out, "log": log}

    # ------------------------------------------------------------------ model
    def model_case(self, case, io):
        if isinstance(io["outs"], dict) and "error" in io["outs"]:
            return None
        if case["kind"] == "version":
            return {"kind": "version", "current": parse_version(case["current"]), "required": [parse_version(v) for v in case["required"]]}
        if case["kind"] == "jsonnd":
            if case["init"].get("dtype") == "float16":
                return None
            return {"kind": "histn", "ops": [case["init"], {"op": "roundtrip", "h": 0, "out": 1}]}
        if case["kind"] != "json1":
            return None
        s = case["spec"]
        if s["bt"] in ("exponential",) or s["dtype"] == "float16":
            return None
        if s["bt"] == "static":
            b = {"t": "static", "bins": s["pairs"], "ire": True}
        elif s["bt"] == "numpy":
            e = s["edges"]
            b = {"t": "static", "bins": [[e[i], e[i + 1]] for i in range(len(e) - 1)], "ire": True}
        else:
            b = {"t": "fixed", "w": s["w"], "shift": s["shift"], "tmin": s["tmin"] if s["count"] else 0, "count": s["count"],
                 "adaptive": s["bt"] == "fixed_adaptive", "align": True, "ire": False}
        op = {"op": "of_arrays", "out": 0, "binning": b, "freq": s["freq"], "err2": s["err2"], "under": s["missed"][0],
              "over": s["missed"][1], "inner": s["missed"][2], "dtype": s["dtype"], "keep": s["keep"]}
        return {"kind": "hist1", "ops": [op, {"op": "roundtrip", "h": 0, "out": 1}]}

    def diff(self, case, model_ok, io):
        if case["kind"] == "version":
            return [f"version {v}: model refused={m} impl refused={i}" for v, m, i in zip(case["required"], model_ok, io["outs"]) if m != i]
        o = io["outs"]
        if case["kind"] == "jsonnd":
            return self.diff_nd(case, model_ok, o)
        doc = model_ok[1]["ret"]
        d = []
        impl = o["dict"]
        if impl.get("histogram_type") != doc["histogram_type"]:
            d.append("document: histogram_type")
        ib = (impl.get("binnings") or [{}])[0]
        mb = doc["binning"]
        if mb["t"] == "fixed":
            got = {"adaptive": ib.get("adaptive"), "count": ib.get("bin_count"), "w": rs(ib.get("bin_width")), "shift": rs(ib.get("bin_shift")),
                   "tmin": ib.get("bin_times_min") if ib.get("bin_times_min") is not None else 0}
            exp = {k: mb[k] for k in ("adaptive", "count", "w", "shift", "tmin")}
            if got != exp:
                d.append(f"document: binning model={exp} impl={got}")
        else:
            if "bins" in ib:
                got = [[rs(l), rs(r)] for l, r in ib["bins"]]
            else:
                e = ib["numpy_bins"]
                got = [[rs(e[i]), rs(e[i + 1])] for i in range(len(e) - 1)]
            if got != mb["bins"]:
                d.append("document: bins")
        for mk, ik in (("freq", "frequencies"), ("err2", "errors2")):
            if impl.get(ik) is None:
                d.append(f"document: {ik} is not written")
                continue
            if [Fraction(x) for x in doc[mk]] != [Fraction(float(x)) if not isinstance(x, int) else Fraction(x) for x in impl[ik]]:
                d.append(f"document: {ik} model={doc[mk]} impl={impl[ik]}")
        if doc["dtype"] != impl.get("dtype"):
            d.append(f"document: dtype model={doc['dtype']} impl={impl.get('dtype')}")
        if doc["missed_keep"] != impl.get("missed_keep"):
            d.append("document: missed_keep")
        if case["spec"]["keep"]:
            im = [nrs(x) for x in impl.get("missed", [])]
            if [None if x is None else Fraction(x) for x in doc["missed"]] != [None if x is None else Fraction(x) for x in im]:
                d.append(f"document: missed model={doc['missed']} impl={im}")
        # the object read back
        m = model_ok[1]["regs"][1]
        p = o["parsed"]
        if m["bins"] != p["bins"][0]:
            d.append("parsed: bins")
        for f in ("freq", "err2"):
            if [Fraction(x) for x in m[f]] != [Fraction(x) for x in p[f]]:
                d.append(f"parsed: {f} model={m[f]} impl={p[f]}")
        if [m["under"], m["over"], m["inner"]] != p["missed"] and [None if x is None else Fraction(x) for x in (m["under"], m["over"], m["inner"])] != [None if x is None else Fraction(x) for x in p["missed"]]:
            d.append(f"parsed: missed model={[m['under'], m['over'], m['inner']]} impl={p['missed']}")
        if m["dtype"] != p["dtype"] or m["keep"] != p["keep_missed"] or m["adaptive"] != p["adaptive"]:
            d.append("parsed: dtype / keep_missed / adaptive")
        return d[:6]

    def diff_nd(self, case, model_ok, o):
        doc = model_ok[1]["ret"]
        impl = o["dict"]
        d = []
        if impl.get("histogram_type") != doc["histogram_type"]:
            d.append(f"document: histogram_type model={doc['histogram_type']} impl={impl.get('histogram_type')}")
        ibs = impl.get("binnings") or []
        if len(ibs) != len(doc["binnings"]):
            d.append("document: number of binnings")
        for a, (ib, mb) in enumerate(zip(ibs, doc["binnings"])):
            if mb["t"] == "fixed":
                got = {"adaptive": ib.get("adaptive"), "count": ib.get("bin_count"), "w": rs(ib.get("bin_width")), "shift": rs(ib.get("bin_shift")),
                       "tmin": ib.get("bin_times_min") if ib.get("bin_times_min") is not None else 0}
                exp = {k: mb[k] for k in ("adaptive", "count", "w", "shift", "tmin")}
                if got != exp:
                    d.append(f"document: binning of axis {a} model={exp} impl={got}")
            else:
                if "bins" in ib:
                    got = [[rs(l), rs(r)] for l, r in ib["bins"]]
                elif "numpy_bins" in ib:
                    e = ib["numpy_bins"]
                    got = [[rs(e[i]), rs(e[i + 1])] for i in range(len(e) - 1)]
                else:
                    got = None
                if got != mb["bins"]:
                    d.append(f"document: bins of axis {a}")

        def flat(x):
            return [y for row in x for y in flat(row)] if isinstance(x, list) else [x]

        def shape(x):
            return [len(x)] + shape(x[0]) if isinstance(x, list) and x else ([0] if isinstance(x, list) else [])

        for mk, ik in (("freq", "frequencies"), ("err2", "errors2")):
            if impl.get(ik) is None:
                d.append(f"document: {ik} is not written")
                continue
            if 0 not in doc["shape"] and shape(impl[ik]) != doc["shape"]:
                d.append(f"document: shape of {ik} model={doc['shape']} impl={shape(impl[ik])}")
            if [Fraction(x) for x in doc[mk]] != [Fraction(x) if isinstance(x, int) else Fraction(float(x)) for x in flat(impl[ik])]:
                d.append(f"document: {ik} model={doc[mk]} impl={impl[ik]}")
        if doc["dtype"] != impl.get("dtype"):
            d.append(f"document: dtype model={doc['dtype']} impl={impl.get('dtype')}")
        if doc["missed_keep"] != impl.get("missed_keep"):
            d.append("document: missed_keep")
        if case["init"].get("keep", True):
            im = [nrs(x) for x in impl.get("missed", [])]
            if [None if x is None else Fraction(x) for x in doc["missed"]] != [None if x is None else Fraction(x) for x in im]:
                d.append(f"document: missed model={doc['missed']} impl={im}")
        names = (impl.get("meta_data") or {}).get("axis_names")
        if names is not None and [str(n) for n in names] != doc["axis_names"]:
            d.append(f"document: axis_names model={doc['axis_names']} impl={names}")
        # the object read back
        m = model_ok[1]["regs"][1]
        p = o["parsed"]
        if m["bins"] != p["bins"]:
            d.append("parsed: bins")
        if m["shape"] != p["shape"] and 0 not in m["shape"]:
            d.append(f"parsed: shape model={m['shape']} impl={p['shape']}")
        for f in ("freq", "err2"):
            if [Fraction(x) for x in m[f]] != [Fraction(x) for x in p[f]]:
                d.append(f"parsed: {f} model={m[f]} impl={p[f]}")
        pm = p["missed"][0]
        if (None if m["missed"] is None else Fraction(m["missed"])) != (None if pm is None else Fraction(pm)):
            d.append(f"parsed: missed model={m['missed']} impl={pm}")
        if m["dtype"] != p["dtype"] or m["keep"] != p["keep_missed"] or m["adaptive"] != p["adaptive"]:
            d.append(f"parsed: dtype / keep_missed / adaptive model={m['dtype'], m['keep'], m['adaptive']} impl={p['dtype'], p['keep_missed'], p['adaptive']}")
        if m["names"] != [str(n) for n in p["axis_names"]]:
            d.append(f"parsed: axis names model={m['names']} impl={p['axis_names']}")
        return d[:6]

    # ------------------------------------------------------------------ oracle
    def oracle(self, case, io):
        o = io["outs"]
        fails = []
        if case["kind"] == "version":
            from packaging.version import Version
            cur = Version(case["current"])
            for v, refused in zip(case["required"], o):
                want = cur < Version(v)
                if refused != want:
                    fails.append(f"version_gate: a document requiring physt >= {v} was {'refused' if refused else 'accepted'} by {case['current']}")
            return fails
        if "error" in o:
            if o["dtype"] == "float128":
                return ["json_float128: to_json() of a float128 histogram raises " + o["error"]]
            return ["to_json_raises: to_json() raised " + o["error"]]
        if not o["text_stable"]:
            fails.append("second_serialisation: serialising the parsed object gives a different document")
        if not o["eq"]:
            fails.append("not_equal: parsed object != original")
        pairs = [("parsed", o["orig"], o["parsed"])]
        if "loaded" in o:
            pairs.append(("loaded", o["orig"], o["loaded"]))
        if case["kind"] == "jsoncol":
            if o["parsed"]["class"] != "HistogramCollection":
                fails.append("class: collection parsed as " + o["parsed"]["class"])
            if o["orig"]["name"] != o["parsed"]["name"] or o["orig"]["title"] != o["parsed"]["title"]:
                fails.append(f"collection_meta: name/title {o['orig']['name']}/{o['orig']['title']} -> {o['parsed']['name']}/{o['parsed']['title']}")
            if len(o["orig"]["members"]) != len(o["parsed"]["members"]):
                fails.append("collection_members: member count changed")
            pairs = [(f"member{i}", a, b) for i, (a, b) in enumerate(zip(o["orig"]["members"], o["parsed"]["members"]))]
        for name, a, b in pairs:
            for f in ("class", "binning_types", "bins", "freq", "err2", "shape", "dtype", "missed", "keep_missed", "adaptive", "name",
                      "title", "axis_names", "meta", "grid"):
                if a[f] != b[f]:
                    if f == "missed" and not a["keep_missed"]:
                        continue
                    fails.append(f"roundtrip_{f}: {name}: {a[f]} -> {b[f]}")
        return fails[:6]

    def nontrivial(self, case, io):
        if case["kind"] == "version":
            return True
        if "error" in io["outs"]:
            return False
        o = io["outs"]["orig"]
        fr = o["freq"] if "freq" in o else [x for m in o["members"] for x in m["freq"]]
        return any(x not in ("0", None) for x in fr)

    def tags(self, case, io):
        return list(case["tags"])

    def matches_known(self, finding, case):
        if finding.get("signature") == "json_float128":
            return case.get("kind") == "json1" and case["spec"]["dtype"] == "float128"
        return False

    def neighbours(self, case):
        return []

    def shrink_candidates(self, case):
        return []


PROP = C08()

"""C08 — JSON round trip reproduces the histogram exactly."""
from __future__ import annotations

import copy
import json
import math
import os
import re
import tempfile
import warnings
from fractions import Fraction

import numpy as np

from .. import gen1, gennd, impl1, implnd
from ..core import nrs, rs
from ..runner import diff_outputs
from .c09 import rand_nd_op
from .c16 import KIND, axis_edges

warnings.simplefilter("ignore")

SPECIAL = ["RadialHistogram", "AzimuthalHistogram", "PolarHistogram", "SphericalSurfaceHistogram", "SphericalHistogram",
           "CylindricalHistogram", "CylindricalSurfaceHistogram"]


def pub(h):
    """public snapshot of the fields the property pins"""
    from physt.histogram1d import Histogram1D
    from physt.binnings import FixedWidthBinning
    one = isinstance(h, Histogram1D)
    binnings = [h.binning] if one else list(h.binnings)
    bins = [h.bins] if one else h.bins
    d = {"class": type(h).__name__,
         "binning_types": [type(b).__name__ for b in binnings],
         "bins": [[[rs(l), rs(r)] for l, r in np.asarray(b).reshape(-1, 2)] for b in bins],
         "freq": [nrs(x) for x in np.asarray(h.frequencies).ravel()],
         "err2": [nrs(x) for x in np.asarray(h.errors2).ravel()],
         "shape": list(np.asarray(h.frequencies).shape),
         "dtype": str(h.dtype), "keep_missed": bool(h.keep_missed), "adaptive": bool(h.is_adaptive()),
         "adaptive_axes": [bool(b.is_adaptive()) for b in binnings],
         "name": h.name, "title": h.title, "axis_names": [None if n is None else str(n) for n in h.axis_names],
         "meta": {k: v for k, v in h.meta_data.items() if k not in ("name", "title", "axis_names")}}
    if one:
        d["missed"] = [nrs(h.underflow), nrs(h.overflow), nrs(h.inner_missed)]
    else:
        d["missed"] = [nrs(h.missed)]
    d["grid"] = [[rs(b.bin_width), rs(b._shift), int(b._times_min or 0), int(b.bin_count)] if isinstance(b, FixedWidthBinning) else None
                 for b in binnings]
    return d


def snap(obj):
    """pub() of a histogram, or name / title / pub() of every member of a collection"""
    from physt.histogram_collection import HistogramCollection
    if isinstance(obj, HistogramCollection):
        # a collection without a title of its own shows its name (the constructor's rule; when it is applied is not pinned)
        return {"class": type(obj).__name__, "name": obj.name, "title": obj.title or obj.name, "members": [pub(m) for m in obj.histograms]}
    return pub(obj)


def wellformed(obj):
    """contents and squared errors have the shape the binnings give (anything else is not a histogram C08 speaks about)"""
    from physt.histogram_collection import HistogramCollection
    from physt.histogram1d import Histogram1D
    if isinstance(obj, HistogramCollection) and not all(m.binning == obj.binning for m in obj.histograms):
        return False            # the class's own invariant (constructor, add): one binning for all members
    for h in (obj.histograms if isinstance(obj, HistogramCollection) else [obj]):
        bs = [h.binning] if isinstance(h, Histogram1D) else list(h.binnings)
        shape = tuple(int(b.bin_count) for b in bs)
        if tuple(np.shape(h.frequencies)) != shape or tuple(np.shape(h.errors2)) != shape:
            return False
        if any(len(np.asarray(b.bins).reshape(-1, 2)) != b.bin_count for b in bs):
            return False
    return True


FIELDS = ("class", "binning_types", "bins", "freq", "err2", "shape", "dtype", "missed", "keep_missed", "adaptive", "adaptive_axes",
          "name", "title", "axis_names", "meta", "grid")


def compare(a, b, where):
    """field by field: the property's list"""
    fails = []
    if "members" in a or "members" in b:
        if b.get("class") != "HistogramCollection" or "members" not in b:
            return [f"class: {where}: collection parsed as {b.get('class')}"]
        if a["name"] != b["name"] or a["title"] != b["title"]:
            fails.append(f"collection_meta: {where}: name/title {a['name']}/{a['title']} -> {b['name']}/{b['title']}")
        if len(a["members"]) != len(b["members"]):
            fails.append(f"collection_members: {where}: member count {len(a['members'])} -> {len(b['members'])}")
        pairs = [(f"{where}: member{i}", x, y) for i, (x, y) in enumerate(zip(a["members"], b["members"]))]
    else:
        pairs = [(where, a, b)]
    for name, x, y in pairs:
        for f in FIELDS:
            if x[f] != y[f]:
                if f == "missed" and not x["keep_missed"]:
                    continue
                fails.append(f"roundtrip_{f}: {name}: {x[f]} -> {y[f]}")
    return fails


def doc_diff(a, b, path=""):
    """entries (per histogram) in which two documents differ"""
    if isinstance(a, dict) and isinstance(b, dict) and "histograms" in a and "histograms" in b and len(a["histograms"]) == len(b["histograms"]):
        out = [k for k in sorted(set(a) | set(b)) if k != "histograms" and a.get(k) != b.get(k)]
        for i, (x, y) in enumerate(zip(a["histograms"], b["histograms"])):
            out += doc_diff(x, y, f"histograms[{i}].")
        return out
    if isinstance(a, dict) and isinstance(b, dict):
        stale = (a.get("missed_keep") is False and b.get("missed_keep") is False and len(a.get("binnings") or []) == 1
                 and isinstance(a.get("missed"), list) and any(x != 0 for x in a["missed"])
                 and isinstance(b.get("missed"), list) and all(x == 0 for x in b["missed"]))
        return [path + k + ("(missed_keep off)" if k == "missed" and stale else "")
                for k in sorted(set(a) | set(b)) if a.get(k) != b.get(k)]
    return [path or "document"]


def canon(text):
    """a document as a JSON value: objects are unordered; NaN tokens compare equal; the missed counts are numbers (0.0 = 0: the
    type of the array that holds them is not observable, it turns float when a NaN marker has been stored in it once)"""
    def walk(x):
        if isinstance(x, dict) and x.get("histogram_type") == "histogram_collection" and not x.get("title"):
            x = {**x, "title": x.get("name")}           # a collection without a title of its own shows its name
        if isinstance(x, dict):
            return {k: ([int(y) if isinstance(y, float) and y == int(y) else y for y in v]
                        if k == "missed" and isinstance(v, list) and all(isinstance(y, (int, float, str)) for y in v) and
                        not any(isinstance(y, float) and (math.isinf(y)) for y in v) else walk(v)) for k, v in x.items()}
        if isinstance(x, list):
            return [walk(y) for y in x]
        return x
    return json.dumps(walk(json.loads(text, parse_constant=lambda c: "<" + c + ">")), sort_keys=True)


def parse_version(s):
    m = re.match(r"^(\d+(?:\.\d+)*)(?:(a|b|rc)(\d+))?$", s)
    rel = [int(x) for x in m.group(1).split(".")]
    pre = None if m.group(2) is None else [{"a": 0, "b": 1, "rc": 2}[m.group(2)], int(m.group(3))]
    return {"release": rel, "pre": pre}


class C08:
    ID = "C08"
    N_QUICK = 300
    N_THOROUGH = 6000
    N_SEARCH = 300
    RULE = ("histograms of every class (1-D, 2-D, ND, the seven transformed classes, collections of 1-3 members) x binning types "
            "(Static incl. gapped, Numpy, FixedWidth incl. adaptive and shifted, Exponential) x all seven dtypes x missed values "
            "(zero / non-zero / NaN markers) x keep_missed x custom squared errors (large counts with a few non-unit weights) x "
            "metadata (name, title, axis names, custom JSON-representable entries): parse_json(to_json()), load_json after "
            "saving to a file, a second serialisation; and documents declaring required versions (older, equal, newer in patch / "
            "minor / major, pre-releases) against the running version; every 8th case a serialise - mutate - serialise history on "
            "one object (1-D, N-d incl. all-fixed-width axes, transformed, collection and its members; in 1/4 of them next to a second "
            "object built separately): 2-4 steps of [to_json / to_dict / file / save_json / binning.to_dict / full round trip, result "
            "thrown away] then one public change (set_adaptive on / off by method, property or binning; fill / fill_n / << inside, "
            "outside and growing adaptive bins; *=, /=, +=, -=; set_dtype; name / title / axis names / meta_data entries; in-place "
            "merge_bins; keep_missed; missed slots; frequencies / errors2 setters; normalize; collection add / create), after each of "
            "which the round trip must reproduce the object as it is then, field by field, serialise again to the same document, and "
            "leave the untouched object's document as it was. non-trivial = non-zero contents; distinct = case hash")
    EXTRA_TRUST = ["CPython json and the shortest round-trip repr of doubles (the text layer) are trusted, not modelled"]
    ASSUMPTIONS = ["the model covers 1-D histograms over static / fixed-width binnings and the version order; the other classes and "
                   "binning types are covered by the round-trip oracle on the implementation",
                   "the serialise - mutate - serialise histories (kind jsonseq) have no counterpart in the model's op language: oracle only; "
                   "a history stops without a verdict when a change leaves an object that is no histogram (contents not of the binnings' "
                   "shape, collection members with different binnings) or a refused call changed something (C18's subject)"]

    def gen_case(self, rng, k, tier):
        if k % 8 == 3:
            return self.gen_seq(rng)
        kind = rng.choice(["h1", "h1", "h1", "nd", "special", "collection", "version"])
        return self.gen_plain(rng, kind)

    def gen_plain(self, rng, kind, bts=None, dts=None):
        if kind == "version":
            import physt
            cur = physt.__version__
            base = [int(x) for x in cur.split(".")[:3]]
            cands = [cur, "0.3.20", "0.4.5", f"{base[0]}.{base[1]}.{base[2]+1}", f"{base[0]}.{base[1]}.{base[2]+10}",
                     f"{base[0]}.{base[1]+1}.0", f"{base[0]+1}.0.0", f"{base[0]}.{base[1]}.{max(base[2]-1,0)}",
                     f"{base[0]}.{base[1]}", f"{base[0]}.{base[1]}.{base[2]}.0", f"{base[0]}.{base[1]}.{base[2]}.1",
                     f"{base[0]}.{base[1]}.{base[2]}rc1", f"{base[0]}.{base[1]}.{base[2]+1}a1", f"{base[0]}.{base[1]}.{base[2]+1}rc2",
                     f"{base[0]}.{base[1]+1}b1", "0.0.1", "10.0"]
            return {"kind": "version", "current": cur, "required": rng.sample(cands, rng.randint(3, 8)),
                    "collection": rng.random() < 0.3, "tags": ["version"]}
        meta = {}
        if rng.random() < 0.6:
            meta["name"] = rng.choice(["n1", "my hist", "ü"])
        if rng.random() < 0.4:
            meta["title"] = rng.choice(["A title", "t"])
        if rng.random() < 0.3:
            meta["custom"] = rng.choice([1, "text", [1, 2, 3], {"a": 1.5}, None, True])
        if kind == "h1":
            bt = rng.choice(bts or ["static", "static", "numpy", "fixed", "fixed_adaptive", "exponential"])
            dt = rng.choice(dts or ["int64", "int64", "float64", "int32", "int16", "float32", "float16", "float128"])
            pairs, t = gen1.rising_bins(rng)
            spec = {"bt": bt, "dtype": dt, "keep": rng.random() < 0.75, "meta": meta,
                    "axis_name": rng.choice([None, "x", "energy"])}
            if bt == "static":
                spec["pairs"] = [[rs(l), rs(r)] for l, r in pairs]
            elif bt == "numpy":
                e = gen1.edges_pool(rng)
                spec["edges"] = [rs(x) for x in e]
            elif bt in ("fixed", "fixed_adaptive"):
                spec["w"] = rs(rng.choice([1.0, 0.5, 0.1, 0.3, 2.5]))
                spec["tmin"] = rng.randint(-5, 5)
                spec["count"] = rng.randint(0 if bt == "fixed_adaptive" else 1, 6)
                spec["shift"] = rs(rng.choice([0.0, 0.0, 0.5, 0.05]))
            else:
                spec["log_min"] = rs(rng.choice([0.0, -1.0, 0.5]))
                spec["log_width"] = rs(rng.choice([0.5, 0.25, 1.0]))
                spec["count"] = rng.randint(1, 5)
            n = {"static": len(pairs), "numpy": len(spec.get("edges", [])) - 1}.get(bt, spec.get("count", 0))
            big = rng.random() < 0.35 and dt in ("int64", "float64", "int32", "float128")
            isint = dt.startswith("int")
            if big:
                # large counts with a few non-unit weights: squared errors close to, but not equal to, the contents
                f = [rng.choice([250000, 250003, 1000000]) for _ in range(n)]
            else:
                f = [rng.randint(0, 30) if isint or rng.random() < 0.5 else rng.randint(0, 120) / 4 for _ in range(n)]
            if dt == "float16":
                f = [min(x, 500) for x in f]
            spec["freq"] = [rs(x) for x in f]
            if big:
                spec["err2"] = [rs(x + rng.choice([0, 1, 2, 1.25 if not isint else 1])) for x in f]
            else:
                spec["err2"] = None if rng.random() < 0.4 else [rs(x + rng.choice([0, 0, 1.25 if not isint else 2, 7])) for x in f]
            m = rng.choice(["zero", "nonzero", "nan"])
            spec["missed"] = {"zero": ["0", "0", "0"], "nonzero": [rs(rng.randint(0, 9)), rs(rng.randint(0, 9)), rs(rng.randint(0, 3))],
                              "nan": [None, None, "0"]}[m]
            return {"kind": "json1", "spec": spec, "tags": ["h1", "binning:" + bt, "dtype:" + dt, "missed:" + m]}
        if kind == "nd":
            init, axes = rand_nd_op(rng, dtype=rng.choice(["int64", "float64", "int32", "float32"]))
            init["keep"] = rng.random() < 0.8
            return {"kind": "jsonnd", "init": init, "meta": meta, "tags": ["nd", f"d:{len(axes)}"]}
        if kind == "special":
            klass = rng.choice(SPECIAL)
            axes = [axis_edges(rng, kd, rng.random() < 0.5) for kd in KIND[klass]]
            shape = [len(e) - 1 for e in axes]
            f = [rng.randint(0, 9) for _ in range(int(np.prod(shape)))]
            return {"kind": "jsonsp", "class": klass, "axes": [[float(x) for x in e] for e in axes], "freq": f, "meta": meta,
                    "missed": rng.randint(0, 5), "radius": rng.choice([None, 2.5]), "tags": ["special", "class:" + klass]}
        pairs, _ = gen1.rising_bins(rng, allow_gaps=False)
        members = []
        for i in range(rng.randint(1, 3)):
            members.append({"name": f"m{i}", "freq": [rng.randint(0, 9) for _ in pairs], "under": rng.randint(0, 3)})
        return {"kind": "jsoncol", "pairs": [[rs(l), rs(r)] for l, r in pairs], "members": members,
                "name": rng.choice([None, "coll"]), "title": rng.choice([None, "Collection title"]), "tags": ["collection"]}

    # ------------------------------------------------------------------ serialise - mutate - serialise sequences
    SEQ_BTS = ["static", "numpy", "fixed", "fixed", "fixed", "fixed_adaptive", "fixed_adaptive", "exponential"]
    SEQ_DTS = ["int64", "int64", "float64", "float64", "int32", "int16", "float32", "float16"]
    SER = ["to_json", "to_json", "to_dict", "file", "save_json", "binning_to_dict", "parse", "twice", "none"]

    def gen_seq(self, rng):
        """one object (or two that share nothing), and a history  (serialise, mutate)*  on it; after every mutation the
        round trip must reproduce the object as it is then"""
        kind = rng.choice(["h1", "h1", "h1", "nd", "nd", "special", "collection"])
        base = self.gen_plain(rng, kind, bts=self.SEQ_BTS, dts=self.SEQ_DTS)
        if kind == "nd":
            if rng.random() < 0.6:            # every axis fixed-width, so that the adaptivity can be switched
                adaptive = rng.random() < 0.3
                axes = base["init"]["axes"]
                for i, a in enumerate(axes):
                    n = len(a["bins"]) if a["t"] == "static" else a["count"]
                    w = rng.choice([1.0, 0.5, 0.25, 2.0])
                    axes[i] = gen1.fixed_json(w, rng.randint(-3, 3), n, rng.choice([0.0, 0.0, 0.5 * w]), adaptive=adaptive)
            d = len(base["init"]["axes"])
        elif kind == "collection":
            if rng.random() < 0.6:            # a shared fixed-width binning instead of the static one
                n = len(base["pairs"])
                base["fixed"] = {"w": rs(rng.choice([1.0, 0.5, 2.0])), "tmin": rng.randint(-3, 3), "count": n,
                                 "shift": rs(rng.choice([0.0, 0.0, 0.25])), "adaptive": rng.random() < 0.3}
            d = 1
        elif kind == "special":
            d = len(base["axes"])
        else:
            d = 1
        one = kind in ("h1", "collection") or (kind == "special" and d == 1)
        # whether the adaptivity can be switched at all (fixed-width binnings only), and what it is at the start
        if kind == "h1":
            can, flag = base["spec"]["bt"] in ("fixed", "fixed_adaptive"), base["spec"]["bt"] == "fixed_adaptive"
        elif kind == "nd":
            can = all(a["t"] == "fixed" for a in base["init"]["axes"])
            flag = can and all(a["adaptive"] for a in base["init"]["axes"])
        elif kind == "collection":
            can, flag = "fixed" in base, bool(base.get("fixed", {}).get("adaptive"))
        else:
            can, flag = False, False
        twin = rng.random() < 0.25
        state = [flag, flag]
        steps = []
        for _ in range(rng.choice([2, 2, 3, 3, 4])):
            st = {"ser": rng.choice(self.SER), "on": rng.randint(0, 1) if twin else 0}
            st.update(self.rand_mutation(rng, kind, d, one, can, state[st["on"]]))
            if st["op"] == "set_adaptive":
                state[st["on"]] = st["v"]
            if kind == "collection":
                st["member"] = rng.choice([None, 0, 0, 1, 2]) if st["op"] in ("set_adaptive", "name", "title") else rng.choice([0, 0, 1, 2])
                if st["member"] is None and st["op"] == "title" and not st["v"]:
                    st["v"] = "new title"       # a collection's empty title means "use the name" (constructor), not a value

            steps.append(st)
        tags = ["seq", "seq:base:" + kind] + (["seq:twin"] if twin else [])
        return {"kind": "jsonseq", "base": base, "twin": twin, "steps": steps, "tags": tags}

    def rand_mutation(self, rng, kind, d, one, can_adapt=True, adaptive_now=False):
        """a public call that changes what has to be written"""
        ops = ["set_adaptive"] * (5 if can_adapt else 1) + ["fill"] * 3 + ["fill_n"] * 2 + ["imul", "itruediv", "iadd", "isub", "set_dtype", "set_dtype",
               "name", "title", "axis_names", "meta", "meta", "merge_bins", "keep_missed", "set_freq", "set_err2", "normalize"]
        if one:
            ops += ["missed_slot"] * 2
        if kind == "collection":
            ops = [o for o in ops if o != "merge_bins"] + ["col_add", "col_create"]      # members keep one common binning
        op = rng.choice(ops)
        m = {"op": op}
        upos = [-0.4, 0.0, 0.1, 0.5, 0.5, 0.77, 1.0, 1.3, 2.5]
        if op == "set_adaptive":
            m["v"] = (not adaptive_now) if rng.random() < 0.7 else adaptive_now
            m["via"] = rng.choice(["method", "method", "property", "binning"])
            m["axis"] = rng.randrange(d)
        elif op == "fill":
            m["u"] = [rng.choice(upos) for _ in range(d)]
            m["w"] = rng.choice([None, None, 1, 2, 0.5])
            m["via"] = rng.choice(["fill", "fill", "lshift"]) if m["w"] is None else "fill"
        elif op == "fill_n":
            n = rng.randint(0, 4)
            m["u"] = [[rng.choice(upos) for _ in range(d)] for _ in range(n)]
            m["w"] = None if rng.random() < 0.6 else [rng.choice([1, 2, 0.5]) for _ in range(n)]
        elif op in ("imul", "itruediv"):
            m["c"] = rng.choice([2, 2, 0.5, 4])
        elif op == "set_dtype":
            m["dtype"] = rng.choice(["int64", "float64", "int32", "float32", "int16", "float16", "int8", "uint16"])
            m["via"] = rng.choice(["method", "property"])
        elif op in ("name", "title"):
            m["v"] = rng.choice(["changed", "", "n2 \u00e9", None])
        elif op == "axis_names":
            m["v"] = rng.sample(["p", "q", "r", "s", "t t"], d)
        elif op == "meta":
            m["key"] = rng.choice(["custom", "custom", "unit", "run"])
            m["v"] = rng.choice([2, "other", [4, 5], {"b": [1, 2.5]}, None, False, 0.1, "__delete__"])
        elif op == "merge_bins":
            m["amount"] = rng.choice([1, 2, 2, 3])
            m["axis"] = rng.choice([None] + list(range(d)))
        elif op == "keep_missed":
            m["v"] = rng.random() < 0.5
        elif op in ("set_freq", "set_err2"):
            m["add"] = rng.choice([1, 3, 0.5])
        elif op == "missed_slot":
            m["slot"] = rng.choice(["underflow", "overflow", "inner_missed"])
            m["v"] = rng.choice([0, 1, 7, 2.5, None])
        elif op == "col_create":
            m["u"] = [rng.choice(upos) for _ in range(rng.randint(0, 3))]
        return m


    # ------------------------------------------------------------------ build the object
    def build(self, case):
        from physt.binnings import ExponentialBinning, FixedWidthBinning, NumpyBinning, StaticBinning
        from physt.histogram1d import Histogram1D
        from physt.histogram_collection import HistogramCollection
        from physt import special_histograms as sp
        k = case["kind"]
        if k == "json1":
            s = case["spec"]
            bt = s["bt"]
            if bt == "static":
                b = StaticBinning(np.array([[impl1.fl(l), impl1.fl(r)] for l, r in s["pairs"]]))
            elif bt == "numpy":
                b = NumpyBinning([impl1.fl(x) for x in s["edges"]])
            elif bt in ("fixed", "fixed_adaptive"):
                kw = dict(bin_width=impl1.fl(s["w"]), bin_count=s["count"], bin_shift=impl1.fl(s["shift"]), adaptive=bt == "fixed_adaptive")
                if s["count"] > 0:
                    kw["bin_times_min"] = s["tmin"]
                b = FixedWidthBinning(**kw)
            else:
                b = ExponentialBinning(log_min=impl1.fl(s["log_min"]), log_width=impl1.fl(s["log_width"]), bin_count=s["count"])
            dt = np.dtype(s["dtype"])
            f = impl1.arr(s["freq"], dt)
            e = None if s["err2"] is None else impl1.arr(s["err2"], dt)
            kw = dict(s["meta"])
            if s["axis_name"]:
                kw["axis_name"] = s["axis_name"]
            return Histogram1D(b, f, e, keep_missed=s["keep"], underflow=impl1.fl(s["missed"][0]), overflow=impl1.fl(s["missed"][1]),
                               inner_missed=impl1.fl(s["missed"][2]), **kw)
        if k == "jsonnd":
            st = implnd.Store(); log = []
            implnd.step(st, case["init"], log)
            h = st.get(0)
            for kk, v in case["meta"].items():
                h.meta_data[kk] = v
            return h
        if k == "jsonsp":
            klass = getattr(sp, case["class"])
            edges = [np.array(e) for e in case["axes"]]
            f = np.array(case["freq"]).reshape([len(e) - 1 for e in edges])
            kw = dict(case["meta"])
            if case["radius"] is not None and case["class"] in ("AzimuthalHistogram", "SphericalSurfaceHistogram", "CylindricalSurfaceHistogram"):
                kw["radius"] = case["radius"]
            if len(edges) == 1:
                return klass(edges[0], f, underflow=case["missed"], **kw)
            return klass(edges, f, missed=case["missed"], **kw)
        if k == "jsoncol":
            if case.get("fixed"):
                fx = case["fixed"]
                b = FixedWidthBinning(bin_width=impl1.fl(fx["w"]), bin_count=fx["count"], bin_times_min=fx["tmin"],
                                      bin_shift=impl1.fl(fx["shift"]), adaptive=fx["adaptive"])
            else:
                b = StaticBinning(np.array([[impl1.fl(l), impl1.fl(r)] for l, r in case["pairs"]]))
            hs = [Histogram1D(b, np.array(m["freq"]), name=m["name"], underflow=m["under"]) for m in case["members"]]
            return HistogramCollection(*hs, name=case["name"], title=case["title"])
        raise KeyError(k)

    # ------------------------------------------------------------------ sequences on one object
    @staticmethod
    def binnings_of(h):
        from physt.histogram1d import Histogram1D
        from physt.histogram_collection import HistogramCollection
        if isinstance(h, HistogramCollection):
            return [h.binning] + [m.binning for m in h.histograms]
        return [h.binning] if isinstance(h, Histogram1D) else list(h.binnings)

    def serialise(self, obj, how):
        """a serialisation whose result is thrown away"""
        from physt.io import parse_json, save_json
        if how == "to_json":
            obj.to_json()
        elif how == "to_dict":
            obj.to_dict()
        elif how == "file":
            fd, path = tempfile.mkstemp(suffix=".json")
            os.close(fd)
            try:
                obj.to_json(path)
            finally:
                os.unlink(path)
        elif how == "save_json":
            save_json(obj)
        elif how == "binning_to_dict":
            for b in self.binnings_of(obj):
                b.to_dict()
        elif how == "parse":
            parse_json(obj.to_json())
        elif how == "twice":
            obj.to_json()
            obj.to_dict()

    def mutate(self, obj, st):
        """one public call that changes the object"""
        from physt.histogram1d import Histogram1D
        from physt.histogram_collection import HistogramCollection
        from physt.special_histograms import TransformedHistogramMixin
        op = st["op"]
        h = obj
        if isinstance(obj, HistogramCollection):
            if op == "col_add":
                n = obj.binning.bin_count
                obj.add(Histogram1D(obj.binning, np.arange(n) % 5, name="added"))
                return
            if op == "col_create":
                bb = np.asarray(obj.binning.bins).reshape(-1, 2)
                lo, hi = (float(bb[0, 0]), float(bb[-1, 1])) if len(bb) else (0.0, 10.0)
                obj.create("created", [lo + u * (hi - lo) for u in st["u"]])
                return
            if st.get("member") is None:
                if op == "set_adaptive":
                    obj.binning.set_adaptive(st["v"])
                else:
                    setattr(obj, op, st["v"])              # name / title of the collection
                return
            h = obj.histograms[st["member"] % len(obj.histograms)]
        one = isinstance(h, Histogram1D)
        bs = [h.binning] if one else list(h.binnings)
        kw = {"transformed": True} if isinstance(h, TransformedHistogramMixin) else {}

        def point(us):
            v = []
            for b, u in zip(bs, us):
                bb = np.asarray(b.bins).reshape(-1, 2)
                lo, hi = (float(bb[0, 0]), float(bb[-1, 1])) if len(bb) else (0.0, 10.0)
                v.append(lo + u * (hi - lo))
            return v[0] if one else v

        if op == "set_adaptive":
            if st["via"] == "method":
                h.set_adaptive(st["v"])
            elif st["via"] == "property":
                h.adaptive = st["v"]
            else:
                bs[st["axis"] % len(bs)].set_adaptive(st["v"])
        elif op == "fill":
            v = point(st["u"])
            if st["via"] == "lshift" and not kw:
                h << v
            elif st["w"] is None:
                h.fill(v, **kw)
            else:
                h.fill(v, st["w"], **kw)
        elif op == "fill_n":
            vals = np.array([point(u) for u in st["u"]], dtype=float).reshape((-1,) if one else (-1, len(bs)))
            h.fill_n(vals, weights=None if st["w"] is None else np.array(st["w"]), **kw)
        elif op == "imul":
            h *= st["c"]
        elif op == "itruediv":
            h /= st["c"]
        elif op == "iadd":
            h += h.copy()
        elif op == "isub":
            h -= h.copy()
        elif op == "set_dtype":
            if st["via"] == "method":
                h.set_dtype(st["dtype"])
            else:
                h.dtype = st["dtype"]
        elif op in ("name", "title"):
            setattr(h, op, st["v"])
        elif op == "axis_names":
            if one:
                h.axis_name = st["v"][0]
            else:
                h.axis_names = st["v"]
        elif op == "meta":
            if st["v"] == "__delete__":
                h.meta_data.pop(st["key"], None)
            else:
                h.meta_data[st["key"]] = copy.deepcopy(st["v"])
        elif op == "merge_bins":
            h.merge_bins(st["amount"], axis=st["axis"], inplace=True)
        elif op == "keep_missed":
            h.keep_missed = st["v"]
        elif op == "set_freq":
            h.frequencies = np.asarray(h.frequencies) + st["add"]
        elif op == "set_err2":
            h.errors2 = np.asarray(h.errors2) + st["add"]
        elif op == "normalize":
            h.normalize(inplace=True)
        elif op == "missed_slot":
            setattr(h, st["slot"], np.nan if st["v"] is None else st["v"])
        else:
            raise KeyError(op)

    def checkpoint(self, o, before_doc, untouched):
        """the round trip of the object as it is now"""
        from physt.io import parse_json
        r = {}
        try:
            text = o.to_json()
        except Exception as e:
            d = getattr(o, "dtype", None)
            return {"error": f"to_json() raised {type(e).__name__}: {e}"[:200], "dtype": str(d)}, None
        try:
            p = parse_json(text)
            r["orig"] = snap(o)
            r["parsed"] = snap(p)
            r["eq"] = bool(o == p)
            doc = canon(text)
            doc2 = canon(p.to_json())
            r["text_stable"] = doc2 == doc
            if doc2 != doc:
                r["doc_diff"] = doc_diff(json.loads(doc), json.loads(doc2))
        except Exception as e:
            return {"error": f"reading the document back raised {type(e).__name__}: {e}"[:200], "dtype": ""}, None
        if untouched and before_doc is not None:
            r["doc_unchanged"] = doc == before_doc
        return r, doc

    def run_seq(self, case):
        objs = [self.build(case["base"])]
        if case["twin"]:
            objs.append(self.build(case["base"]))       # built separately: shares nothing with the first
        docs = [None] * len(objs)
        last = [None] * len(objs)
        log, recs, stopped = [], [], None
        for i, st in enumerate(case["steps"]):
            on = st["on"] if st["on"] < len(objs) else 0
            rec = {"step": i, "op": st["op"], "ser": st["ser"], "on": on, "status": "ok"}
            recs.append(rec)
            try:
                for j, o in enumerate(objs):
                    self.serialise(o, st["ser"])
                    if len(objs) > 1 and st["ser"] != "none":
                        docs[j] = canon(o.to_json())
            except Exception as e:
                rec["ser_error"] = f"{type(e).__name__}: {e}"[:200]
                rec["dtype"] = str(getattr(objs[0], "dtype", ""))
                break
            before = last[on] if last[on] is not None else snap(objs[on])      # the state the last check point saw
            try:
                self.mutate(objs[on], st)
            except Exception as e:
                rec["status"] = "refused"
                log.append(f"step {i} {st['op']}: {type(e).__name__}: {e}"[:160])
            if not all(wellformed(o) for o in objs):
                # e.g. members of a collection share an adaptive binning that grew under one of them: not C08's subject
                stopped = rec["status"] = "ill_formed"
                break
            if rec["status"] == "refused" and snap(objs[on]) != before:
                stopped = rec["status"] = "refused_but_changed"      # atomicity is C18's subject; nothing is asserted here
                break
            rec["objs"] = []
            for j, o in enumerate(objs):
                r, doc = self.checkpoint(o, docs[j], j != on)
                docs[j] = doc
                last[j] = r.get("orig")
                rec["objs"].append(r)
        return {"outs": {"steps": recs, "stopped": stopped}, "log": log}


    def run_impl(self, case):
        from physt.io import load_json, parse_json
        from physt.histogram_collection import HistogramCollection
        log = []
        if case["kind"] == "jsonseq":
            return self.run_seq(case)
        if case["kind"] == "version":
            from physt import h1
            from physt.histogram_collection import HistogramCollection as HC
            h = h1([1, 2, 3], [0, 2, 4])
            obj = HC(h, name="c") if case["collection"] else h
            base = json.loads(obj.to_json())
            res = []
            for v in case["required"]:
                d = dict(base); d["physt_compatible"] = v
                try:
                    parse_json(json.dumps(d)); res.append(False)
                except Exception as e:
                    res.append(True); log.append(f"{v}: {type(e).__name__}")
            return {"outs": res, "log": log}
        h = self.build(case)
        out = {}
        try:
            text = h.to_json()
        except Exception as e:
            return {"outs": {"error": f"{type(e).__name__}: {e}"[:200], "dtype": str(h.dtype)}, "log": [str(e)[:200]]}
        p = parse_json(text)
        # the same document: equal as JSON values (objects are unordered; NaN tokens compare equal)
        canon = lambda t: json.dumps(json.loads(t, parse_constant=lambda c: "<" + c + ">"), sort_keys=True)
        out["text_stable"] = canon(p.to_json()) == canon(text)
        if isinstance(h, HistogramCollection):
            out["orig"] = {"name": h.name, "title": h.title, "members": [pub(m) for m in h.histograms]}
            out["parsed"] = {"name": p.name, "title": p.title, "members": [pub(m) for m in p.histograms], "class": type(p).__name__}
            out["eq"] = bool(h == p)
        else:
            out["orig"] = pub(h)
            out["parsed"] = pub(p)
            out["eq"] = bool(h == p)
            with tempfile.TemporaryDirectory() as td:
                path = os.path.join(td, "h.json")
                h.to_json(path)
                q = load_json(path)
                out["loaded"] = pub(q)
            if case["kind"] in ("json1", "jsonnd"):
                d = h.to_dict()
                out["dict"] = d
        return {"outs": out, "log": log}

    # ------------------------------------------------------------------ model
    def model_case(self, case, io):
        if case["kind"] == "jsonseq":
            return None             # oracle-only: the model's op language has no histories of serialisations
        if isinstance(io["outs"], dict) and "error" in io["outs"]:
            return None
        if case["kind"] == "version":
            return {"kind": "version", "current": parse_version(case["current"]), "required": [parse_version(v) for v in case["required"]]}
        if case["kind"] == "jsonnd":
            if case["init"].get("dtype") == "float16":
                return None
            return {"kind": "histn", "ops": [case["init"], {"op": "roundtrip", "h": 0, "out": 1}]}
        if case["kind"] != "json1":
            return None
        s = case["spec"]
        if s["bt"] in ("exponential",) or s["dtype"] == "float16":
            return None
        if s["bt"] == "static":
            b = {"t": "static", "bins": s["pairs"], "ire": True}
        elif s["bt"] == "numpy":
            e = s["edges"]
            b = {"t": "static", "bins": [[e[i], e[i + 1]] for i in range(len(e) - 1)], "ire": True}
        else:
            b = {"t": "fixed", "w": s["w"], "shift": s["shift"], "tmin": s["tmin"] if s["count"] else 0, "count": s["count"],
                 "adaptive": s["bt"] == "fixed_adaptive", "align": True, "ire": False}
        op = {"op": "of_arrays", "out": 0, "binning": b, "freq": s["freq"], "err2": s["err2"], "under": s["missed"][0],
              "over": s["missed"][1], "inner": s["missed"][2], "dtype": s["dtype"], "keep": s["keep"]}
        return {"kind": "hist1", "ops": [op, {"op": "roundtrip", "h": 0, "out": 1}]}

    def diff(self, case, model_ok, io):
        if case["kind"] == "version":
            return [f"version {v}: model refused={m} impl refused={i}" for v, m, i in zip(case["required"], model_ok, io["outs"]) if m != i]
        o = io["outs"]
        if case["kind"] == "jsonnd":
            return self.diff_nd(case, model_ok, o)
        doc = model_ok[1]["ret"]
        d = []
        impl = o["dict"]
        if impl.get("histogram_type") != doc["histogram_type"]:
            d.append("document: histogram_type")
        ib = (impl.get("binnings") or [{}])[0]
        mb = doc["binning"]
        if mb["t"] == "fixed":
            got = {"adaptive": ib.get("adaptive"), "count": ib.get("bin_count"), "w": rs(ib.get("bin_width")), "shift": rs(ib.get("bin_shift")),
                   "tmin": ib.get("bin_times_min") if ib.get("bin_times_min") is not None else 0}
            exp = {k: mb[k] for k in ("adaptive", "count", "w", "shift", "tmin")}
            if got != exp:
                d.append(f"document: binning model={exp} impl={got}")
        else:
            if "bins" in ib:
                got = [[rs(l), rs(r)] for l, r in ib["bins"]]
            else:
                e = ib["numpy_bins"]
                got = [[rs(e[i]), rs(e[i + 1])] for i in range(len(e) - 1)]
            if got != mb["bins"]:
                d.append("document: bins")
        for mk, ik in (("freq", "frequencies"), ("err2", "errors2")):
            if impl.get(ik) is None:
                d.append(f"document: {ik} is not written")
                continue
            if [Fraction(x) for x in doc[mk]] != [Fraction(float(x)) if not isinstance(x, int) else Fraction(x) for x in impl[ik]]:
                d.append(f"document: {ik} model={doc[mk]} impl={impl[ik]}")
        if doc["dtype"] != impl.get("dtype"):
            d.append(f"document: dtype model={doc['dtype']} impl={impl.get('dtype')}")
        if doc["missed_keep"] != impl.get("missed_keep"):
            d.append("document: missed_keep")
        if case["spec"]["keep"]:
            im = [nrs(x) for x in impl.get("missed", [])]
            if [None if x is None else Fraction(x) for x in doc["missed"]] != [None if x is None else Fraction(x) for x in im]:
                d.append(f"document: missed model={doc['missed']} impl={im}")
        # the object read back
        m = model_ok[1]["regs"][1]
        p = o["parsed"]
        if m["bins"] != p["bins"][0]:
            d.append("parsed: bins")
        for f in ("freq", "err2"):
            if [Fraction(x) for x in m[f]] != [Fraction(x) for x in p[f]]:
                d.append(f"parsed: {f} model={m[f]} impl={p[f]}")
        if [m["under"], m["over"], m["inner"]] != p["missed"] and [None if x is None else Fraction(x) for x in (m["under"], m["over"], m["inner"])] != [None if x is None else Fraction(x) for x in p["missed"]]:
            d.append(f"parsed: missed model={[m['under'], m['over'], m['inner']]} impl={p['missed']}")
        if m["dtype"] != p["dtype"] or m["keep"] != p["keep_missed"] or m["adaptive"] != p["adaptive"]:
            d.append("parsed: dtype / keep_missed / adaptive")
        return d[:6]

    def diff_nd(self, case, model_ok, o):
        doc = model_ok[1]["ret"]
        impl = o["dict"]
        d = []
        if impl.get("histogram_type") != doc["histogram_type"]:
            d.append(f"document: histogram_type model={doc['histogram_type']} impl={impl.get('histogram_type')}")
        ibs = impl.get("binnings") or []
        if len(ibs) != len(doc["binnings"]):
            d.append("document: number of binnings")
        for a, (ib, mb) in enumerate(zip(ibs, doc["binnings"])):
            if mb["t"] == "fixed":
                got = {"adaptive": ib.get("adaptive"), "count": ib.get("bin_count"), "w": rs(ib.get("bin_width")), "shift": rs(ib.get("bin_shift")),
                       "tmin": ib.get("bin_times_min") if ib.get("bin_times_min") is not None else 0}
                exp = {k: mb[k] for k in ("adaptive", "count", "w", "shift", "tmin")}
                if got != exp:
                    d.append(f"document: binning of axis {a} model={exp} impl={got}")
            else:
                if "bins" in ib:
                    got = [[rs(l), rs(r)] for l, r in ib["bins"]]
                elif "numpy_bins" in ib:
                    e = ib["numpy_bins"]
                    got = [[rs(e[i]), rs(e[i + 1])] for i in range(len(e) - 1)]
                else:
                    got = None
                if got != mb["bins"]:
                    d.append(f"document: bins of axis {a}")

        def flat(x):
            return [y for row in x for y in flat(row)] if isinstance(x, list) else [x]

        def shape(x):
            return [len(x)] + shape(x[0]) if isinstance(x, list) and x else ([0] if isinstance(x, list) else [])

        for mk, ik in (("freq", "frequencies"), ("err2", "errors2")):
            if impl.get(ik) is None:
                d.append(f"document: {ik} is not written")
                continue
            if 0 not in doc["shape"] and shape(impl[ik]) != doc["shape"]:
                d.append(f"document: shape of {ik} model={doc['shape']} impl={shape(impl[ik])}")
            if [Fraction(x) for x in doc[mk]] != [Fraction(x) if isinstance(x, int) else Fraction(float(x)) for x in flat(impl[ik])]:
                d.append(f"document: {ik} model={doc[mk]} impl={impl[ik]}")
        if doc["dtype"] != impl.get("dtype"):
            d.append(f"document: dtype model={doc['dtype']} impl={impl.get('dtype')}")
        if doc["missed_keep"] != impl.get("missed_keep"):
            d.append("document: missed_keep")
        if case["init"].get("keep", True):
            im = [nrs(x) for x in impl.get("missed", [])]
            if [None if x is None else Fraction(x) for x in doc["missed"]] != [None if x is None else Fraction(x) for x in im]:
                d.append(f"document: missed model={doc['missed']} impl={im}")
        names = (impl.get("meta_data") or {}).get("axis_names")
        if names is not None and [str(n) for n in names] != doc["axis_names"]:
            d.append(f"document: axis_names model={doc['axis_names']} impl={names}")
        # the object read back
        m = model_ok[1]["regs"][1]
        p = o["parsed"]
        if m["bins"] != p["bins"]:
            d.append("parsed: bins")
        if m["shape"] != p["shape"] and 0 not in m["shape"]:
            d.append(f"parsed: shape model={m['shape']} impl={p['shape']}")
        for f in ("freq", "err2"):
            if [Fraction(x) for x in m[f]] != [Fraction(x) for x in p[f]]:
                d.append(f"parsed: {f} model={m[f]} impl={p[f]}")
        pm = p["missed"][0]
        if (None if m["missed"] is None else Fraction(m["missed"])) != (None if pm is None else Fraction(pm)):
            d.append(f"parsed: missed model={m['missed']} impl={pm}")
        if m["dtype"] != p["dtype"] or m["keep"] != p["keep_missed"] or m["adaptive"] != p["adaptive"]:
            d.append(f"parsed: dtype / keep_missed / adaptive model={m['dtype'], m['keep'], m['adaptive']} impl={p['dtype'], p['keep_missed'], p['adaptive']}")
        if m["names"] != [str(n) for n in p["axis_names"]]:
            d.append(f"parsed: axis names model={m['names']} impl={p['axis_names']}")
        return d[:6]

    # ------------------------------------------------------------------ oracle
    def oracle(self, case, io):
        o = io["outs"]
        fails = []
        if case["kind"] == "version":
            from packaging.version import Version
            cur = Version(case["current"])
            for v, refused in zip(case["required"], o):
                want = cur < Version(v)
                if refused != want:
                    fails.append(f"version_gate: a document requiring physt >= {v} was {'refused' if refused else 'accepted'} by {case['current']}")
            return fails
        if case["kind"] == "jsonseq":
            for rec in o["steps"]:
                hist = f"after {rec['ser']}, {rec['op']}" + (" (refused)" if rec["status"] == "refused" else "")
                if "ser_error" in rec:
                    fails.append(f"to_json_raises: step {rec['step']}: serialising with {rec['ser']} raised {rec['ser_error']}")
                for j, r in enumerate(rec.get("objs", [])):
                    where = f"step {rec['step']} {hist}" + ("" if j == rec["on"] else ", the other object")
                    if "error" in r:
                        fails.append(f"to_json_raises: {where}: {r['error']}")
                        continue
                    fails += compare(r["orig"], r["parsed"], where)
                    if not r["eq"]:
                        fails.append(f"not_equal: {where}: parsed object != the object as it is now")
                    if not r["text_stable"]:
                        dd = r.get("doc_diff", [])
                        if dd and all(x.endswith("missed(missed_keep off)") for x in dd):
                            # counts stored in an object that does not keep missed values (keep_missed switched off later, or a
                            # slot assigned): written, but not read back
                            fails.append(f"missed_dropped_keep_off: {where}: the document carries missed counts although missed_keep "
                                         f"is false; the reader drops them and the second serialisation differs in {dd}")
                        else:
                            fails.append(f"second_serialisation: {where}: serialising the parsed object gives a different document "
                                         f"(entries {dd})")
                    if r.get("doc_unchanged") is False:
                        fails.append(f"independent_objects: {where}: its document changed although only an object that shares nothing "
                                     f"with it was changed")
            fails.sort(key=lambda f: f.startswith("missed_dropped_keep_off"))       # the recorded finding never hides another failure
            return fails[:6]
        if "error" in o:
            if o["dtype"] == "float128":
                return ["json_float128: to_json() of a float128 histogram raises " + o["error"]]
            return ["to_json_raises: to_json() raised " + o["error"]]
        if not o["text_stable"]:
            fails.append("second_serialisation: serialising the parsed object gives a different document")
        if not o["eq"]:
            fails.append("not_equal: parsed object != original")
        pairs = [("parsed", o["orig"], o["parsed"])]
        if "loaded" in o:
            pairs.append(("loaded", o["orig"], o["loaded"]))
        if case["kind"] == "jsoncol":
            if o["parsed"]["class"] != "HistogramCollection":
                fails.append("class: collection parsed as " + o["parsed"]["class"])
            if o["orig"]["name"] != o["parsed"]["name"] or o["orig"]["title"] != o["parsed"]["title"]:
                fails.append(f"collection_meta: name/title {o['orig']['name']}/{o['orig']['title']} -> {o['parsed']['name']}/{o['parsed']['title']}")
            if len(o["orig"]["members"]) != len(o["parsed"]["members"]):
                fails.append("collection_members: member count changed")
            pairs = [(f"member{i}", a, b) for i, (a, b) in enumerate(zip(o["orig"]["members"], o["parsed"]["members"]))]
        for name, a, b in pairs:
            for f in FIELDS:
                if a[f] != b[f]:
                    if f == "missed" and not a["keep_missed"]:
                        continue
                    fails.append(f"roundtrip_{f}: {name}: {a[f]} -> {b[f]}")
        return fails[:6]

    def nontrivial(self, case, io):
        if case["kind"] == "version":
            return True
        if case["kind"] == "jsonseq":
            done = [r for r in io["outs"]["steps"] if r["status"] == "ok" and r.get("objs") and "orig" in r["objs"][r["on"]]]
            if not done:
                return False
            o = done[-1]["objs"][done[-1]["on"]]["orig"]
            fr = o["freq"] if "freq" in o else [x for m in o["members"] for x in m["freq"]]
            return any(x not in ("0", None) for x in fr)
        if "error" in io["outs"]:
            return False
        o = io["outs"]["orig"]
        fr = o["freq"] if "freq" in o else [x for m in o["members"] for x in m["freq"]]
        return any(x not in ("0", None) for x in fr)

    def tags(self, case, io):
        t = list(case["tags"])
        if case["kind"] == "jsonseq":
            for r in io["outs"]["steps"]:
                t += ["seq:ser:" + r["ser"], "seq:op:" + r["op"]]
                if r["status"] != "ok":
                    t.append(f"seq:{r['status']}:{r['op']}")
            t.append(f"seq:steps:{len(case['steps'])}")
        return t

    def matches_known(self, finding, case):
        if finding.get("signature") == "json_float128":
            return case.get("kind") == "json1" and case["spec"]["dtype"] == "float128"
        if finding.get("signature") == "missed_dropped_keep_off":
            # only histories that switch keep_missed or assign a missed slot can leave counts in a 1-D object that keeps none
            return case.get("kind") == "jsonseq" and any(st["op"] in ("keep_missed", "missed_slot") for st in case["steps"])
        return False

    def neighbours(self, case):
        return []

    def shrink_candidates(self, case):
        if case.get("kind") != "jsonseq":
            return []
        out = []
        steps = case["steps"]
        if case["twin"]:
            out.append({**case, "twin": False, "steps": [{**s, "on": 0} for s in steps], "tags": [t for t in case["tags"] if t != "seq:twin"]})
        for i in range(len(steps)):
            if len(steps) > 1:
                out.append({**case, "steps": steps[:i] + steps[i + 1:]})
        for i, s in enumerate(steps):
            if s["ser"] not in ("to_json", "none"):
                out.append({**case, "steps": steps[:i] + [{**s, "ser": "to_json"}] + steps[i + 1:]})
        return out


PROP = C08()

"""ND companions of the 1-D property modules (generation + oracle), mixed into them by `kind == "histn"`."""
from __future__ import annotations

import copy
from fractions import Fraction

import numpy as np

from .. import gen1, gennd
from ..core import rs
from .c03 import partition
from .c09 import obj_arr, rand_nd_op


# ------------------------------------------------------------------------------------------ C03 ND
def c03_gen(rng):
    d = rng.choice([2, 2, 3])
    axes = [gennd.axis_binning(rng, maxbins=3) for _ in range(d)]
    n = rng.choice([1, 2, 4, 8, 14])
    rows = gennd.rows_for(rng, [a[1] for a in axes], n, nan_share=rng.choice([0, 0.1]))
    ws, wk = gen1.weights_for(rng, n, kinds=["none", "none", "int", "dyadic", "equal"])
    keep = rng.random() < 0.7
    order = list(range(n)); rng.shuffle(order)
    order2 = list(range(n)); rng.shuffle(order2)
    src = {"axes": [a[0] for a in axes], "rows": gennd.enc_rows(rows), "ws": None if ws is None else [rs(w) for w in ws],
           "wk": wk, "keep": keep, "order": order, "batches": partition(rng, order2)}
    return c03_build(src)


def c03_build(src):
    ax, rows, ws, wk, keep = src["axes"], src["rows"], src["ws"], src["wk"], src["keep"]
    ops = [{"op": "construct", "out": 0, "axes": ax, "rows": rows, "weights": ws, "wkind": wk}]
    ops.append({"op": "empty", "out": 1, "axes": ax, "keep": keep})
    for i in src["order"]:
        r = rows[i]
        if all(v is not None for v in r):
            ops.append({"op": "find_bin", "h": 1, "v": r})
        w = "1" if ws is None else ws[i]
        ops.append({"op": "fill", "h": 1, "v": r, "w": w, "wk": "pyint" if (ws is None or wk == "int64") else "pyfloat",
                    "default_w": ws is None})
    ops.append({"op": "empty", "out": 2, "axes": ax, "keep": keep})
    for bt in src["batches"]:
        ops.append({"op": "fill_n", "h": 2, "rows": [rows[i] for i in bt], "ws": None if ws is None else [ws[i] for i in bt],
                    "wkind": wk})
    return {"kind": "histn", "ops": ops, "tags": ["nd", f"d:{len(ax)}"], "src": src}


def c03_shrink(case):
    src = case["src"]
    n = len(src["rows"])
    for i in range(n):
        s2 = copy.deepcopy(src)
        del s2["rows"][i]
        if s2["ws"] is not None:
            del s2["ws"][i]
        ren = lambda j: j if j < i else j - 1
        s2["order"] = [ren(j) for j in s2["order"] if j != i]
        s2["batches"] = [[ren(j) for j in bt if j != i] for bt in s2["batches"]]
        yield c03_build(s2)


def c03_oracle(case, io):
    outs, ops = io["outs"], case["ops"]
    fails = []
    if any(o["ret"] == "REFUSED" for o in outs):
        return ["refused_valid: a valid call was refused: " + "; ".join(io["log"][:2])]
    a, b, c = outs[-1]["regs"][:3]
    keep = case["src"]["keep"]
    for name, x in (("fill", b), ("fill_n", c)):
        for f in ("freq", "err2"):
            if [Fraction(v) for v in x[f]] != [Fraction(v) for v in a[f]]:
                fails.append(f"paths_{f}: {name} path gives {x[f]}, construction gives {a[f]}")
        if keep and (x["missed"] is None or Fraction(x["missed"]) != Fraction(a["missed"])):
            fails.append(f"paths_missed: {name} path gives missed={x['missed']}, construction gives {a['missed']}")
        if not keep and x["missed"] != "0":
            fails.append(f"keep_off_missed: missed={x['missed']} although keep_missed=False")
    axes = []
    for bj, rep in zip(case["src"]["axes"], a["bins"]):
        axes.append(([(Fraction(l), Fraction(r)) for l, r in rep], bj.get("ire", bj["t"] == "static")))
    for k, op in enumerate(ops):
        if op["op"] == "find_bin":
            if outs[k]["regs"][1] != outs[k - 1]["regs"][1]:
                fails.append("find_bin_mutates: find_bin changed the histogram")
            if outs[k + 1]["ret"] != outs[k]["ret"]:
                fails.append(f"fill_ret: fill returned {outs[k+1]['ret']} but find_bin said {outs[k]['ret']} for {op['v']}")
            exp = gennd.cell_of(axes, [Fraction(v) for v in op["v"]])
            got = outs[k]["ret"]
            if (None if exp is None else list(exp)) != got:
                fails.append(f"find_bin_index: find_bin({op['v']}) = {got}, expected {exp}")
            if not keep and exp is None:
                x, y = outs[k]["regs"][1], outs[k + 1]["regs"][1]
                if {f: x[f] for f in ("freq", "err2", "missed", "bins")} != {f: y[f] for f in ("freq", "err2", "missed", "bins")}:
                    fails.append("keep_off_changed: a point outside the bins changed a histogram that does not track missed values")
    return fails[:6]


# ------------------------------------------------------------------------------------------ C04 ND
def c04_gen(rng):
    from .c04 import WIDTHS, values
    d = rng.choice([2, 2, 2, 3])
    lim = 8 if d == 2 else 4
    ws = [rng.choice(WIDTHS[:9]) for _ in range(d)]
    axes = [gen1.fixed_json(w, 0, 0, shift=rng.choice([0.0, 0.0, 0.5 * w]), adaptive=True, align=rng.random() < 0.8) for w in ws]
    steps = []
    for _ in range(rng.randint(1, 6)):
        if rng.random() < 0.5:
            v = [values(rng, w, 1)[0] for w in ws]
            v = [x if abs(x) < lim * w else (x / abs(x)) * (lim - 1) * w for x, w in zip(v, ws)]
            steps.append({"t": "fill", "v": [rs(x) for x in v], "w": rs(rng.choice([1, 1, 2, 0.5]))})
        else:
            n = rng.choice([0, 1, 2, 4])
            rows = [[values(rng, w, 1)[0] for w in ws] for _ in range(n)]
            rows = [[x if abs(x) < lim * w else (x / abs(x)) * (lim - 1) * w for x, w in zip(r, ws)] for r in rows]
            steps.append({"t": "fill_n", "rows": [[rs(x) for x in r] for r in rows],
                          "ws": None if rng.random() < 0.7 else [rs(rng.choice([1, 2, 0.5])) for _ in rows]})
    return c04_build({"axes": axes, "steps": steps, "ws": [rs(w) for w in ws]})


def c04_build(src):
    ops = [{"op": "empty", "out": 0, "axes": src["axes"]}]
    allv = []
    for s in src["steps"]:
        if s["t"] == "fill":
            ops.append({"op": "fill", "h": 0, "v": s["v"], "w": s["w"], "wk": "pyint" if "/" not in s["w"] else "pyfloat"})
            allv.append(s["v"])
        else:
            ops.append({"op": "fill_n", "h": 0, "rows": s["rows"], "ws": s["ws"], "wkind": "float64"})
            allv += s["rows"]
    for v in allv:
        ops.append({"op": "find_bin", "h": 0, "v": v})
    return {"kind": "histn", "fuel": 64, "ops": ops, "tags": ["nd", f"d:{len(src['axes'])}"], "src": src}


def c04_shrink(case):
    src = case["src"]
    for i in range(len(src["steps"]) - 1, -1, -1):
        s2 = copy.deepcopy(src)
        del s2["steps"][i]
        yield c04_build(s2)


def c04_oracle(case, io):
    outs, ops = io["outs"], case["ops"]
    fails = []
    if any(o["ret"] == "REFUSED" for o in outs):
        return ["refused_valid: a valid call was refused: " + "; ".join(io["log"][:2])]
    entered = []
    for k, op in enumerate(ops):
        snap = outs[k]["regs"][0]
        if op["op"] == "fill":
            entered.append(([Fraction(x) for x in op["v"]], Fraction(op["w"])))
        elif op["op"] == "fill_n":
            for j, r in enumerate(op["rows"]):
                entered.append(([Fraction(x) for x in r], Fraction(op["ws"][j]) if op["ws"] is not None else Fraction(1)))
        elif op["op"] == "find_bin":
            if outs[k]["ret"] is None:
                fails.append(f"lost_value: find_bin({op['v']}) = None: the point entered is in no cell")
            continue
        tot = sum((w for _, w in entered), Fraction(0))
        if Fraction(snap["total"]) != tot:
            fails.append(f"total: total is {snap['total']}, weight entered is {tot}")
        if snap["missed"] != "0":
            fails.append(f"missed_nonzero: missed = {snap['missed']}")
        axes = [([(Fraction(l), Fraction(r)) for l, r in b], False) for b in snap["bins"]]
        if all(a[0] for a in axes):
            for ai, (pairs, _) in enumerate(axes):
                xs = [p[ai] for p, _ in entered]
                if any(pairs[i][1] != pairs[i + 1][0] for i in range(len(pairs) - 1)):
                    fails.append("not_contiguous: axis bins are not contiguous")
                if xs and not (pairs[0][0] <= min(xs) < pairs[0][1]):
                    fails.append(f"span_low: axis {ai}: first bin does not contain the smallest coordinate")
                if xs and not (pairs[-1][0] <= max(xs) < pairs[-1][1]):
                    fails.append(f"span_high: axis {ai}: last bin does not contain the largest coordinate")
            cells, _ = gennd.brute_cells(axes, [p for p, _ in entered], [w for _, w in entered])
            for pos, idx in enumerate(gennd.unravel(snap["shape"])):
                f, e = cells.get(idx, (Fraction(0), Fraction(0)))
                if Fraction(snap["freq"][pos]) != f or Fraction(snap["err2"][pos]) != e:
                    fails.append(f"content: cell {idx} holds {snap['freq'][pos]}/{snap['err2'][pos]}, data give {f}/{e}")
                    break
    return fails[:6]


# ------------------------------------------------------------------------------------------ C10 ND
def c10_gen(rng):
    init, axes = rand_nd_op(rng, d=rng.choice([2, 2, 3]))
    d = len(axes)
    names = init["names"] or [f"axis{i}" for i in range(d)]
    mode = rng.choice(["amount", "amount", "minfreq", "all"])
    op = {"op": "merge", "h": 0, "inplace": rng.random() < 0.5, "out": 1}
    ax = rng.randrange(d)
    if mode != "all":
        op["axis"] = names[ax] if rng.random() < 0.3 else ax
        op["_axis"] = ax
    if mode == "minfreq":
        op["min_freq"] = rs(rng.choice([1, 2, 3.5, 5, 8, 12]))
    else:
        op["amount"] = rng.randint(1, 4)
    return {"kind": "histn", "ops": [init, op], "tags": ["nd", "mode:" + mode]}


def c10_oracle(case, io):
    outs, ops = io["outs"], case["ops"]
    fails = []
    if outs[0]["ret"] == "REFUSED":
        return ["refused_valid: setup refused: " + "; ".join(io["log"][:2])]
    op = ops[1]
    src = outs[0]["regs"][0]
    d = src["ndim"]
    F, E = obj_arr(src["freq"], src["shape"]), obj_arr(src["err2"], src["shape"])
    axes_to_merge = [op["_axis"]] if "_axis" in op else list(range(d))
    bins = [[(Fraction(l), Fraction(r)) for l, r in b] for b in src["bins"]]
    crosses = False
    expF, expE, exp_bins = F, E, [list(b) for b in bins]
    if op.get("amount") is not None:
        a = op["amount"]
        for ax in axes_to_merge:
            nb = len(bins[ax])
            runs = [list(range(s, min(nb, s + a))) for s in range(0, nb, a)]
            if any(bins[ax][i][1] != bins[ax][i + 1][0] for r in runs for i in r[:-1]):
                crosses = True
            exp_bins[ax] = [(bins[ax][r[0]][0], bins[ax][r[-1]][1]) for r in runs]
            expF = np.stack([np.take(expF, r, axis=ax).sum(axis=ax) for r in runs], axis=ax)
            expE = np.stack([np.take(expE, r, axis=ax).sum(axis=ax) for r in runs], axis=ax)
    if outs[1]["ret"] == "REFUSED":
        if op.get("amount") is not None and not crosses:
            fails.append("refused_valid: merge refused: " + "; ".join(io["log"][:2]))
        if outs[1]["regs"][0] != src:
            fails.append("refused_changed: a refused merge changed the histogram (not all-or-nothing)")
        return fails
    res = outs[1]["regs"][0 if op.get("inplace") else 1]
    if crosses:
        return ["merged_across_gap: a run spanning a gap was merged"]
    if op.get("amount") is not None:
        if [[(Fraction(l), Fraction(r)) for l, r in b] for b in res["bins"]] != exp_bins:
            fails.append(f"merged_bins: bins after merge are {res['bins']}")
        elif [Fraction(x) for x in res["freq"]] != list(np.asarray(expF, dtype=object).ravel()):
            fails.append("merged_content: contents are not the runs' sums")
        elif [Fraction(x) for x in res["err2"]] != list(np.asarray(expE, dtype=object).ravel()):
            fails.append("merged_err2: squared errors are not the runs' sums")
    else:
        ax = op["_axis"]
        for i in range(d):
            if i != ax and res["bins"][i] != src["bins"][i]:
                fails.append("other_axis_changed: an axis that was not merged changed")
        nb = [(Fraction(l), Fraction(r)) for l, r in res["bins"][ax]]
        if nb and (nb[0][0] != bins[ax][0][0] or nb[-1][1] != bins[ax][-1][1]):
            fails.append("outer_edges: the outer edges changed")
        old_edges = {x for p in bins[ax] for x in p}
        if any(l not in old_edges or r not in old_edges for l, r in nb):
            fails.append("minfreq_union: new bins are not unions of old bins")
    if Fraction(res["total"]) != Fraction(src["total"]):
        fails.append("total: total changed")
    if res["missed"] != src["missed"]:
        fails.append("missed: missed changed")
    if res["names"] != src["names"]:
        fails.append("names: axis names changed")
    if not op.get("inplace") and outs[1]["regs"][0] != src:
        fails.append("operand_modified: merge_bins() without inplace modified the original")
    return fails[:6]


# ------------------------------------------------------------------------------------------ C11 ND
def c11_gen(rng):
    init, axes = rand_nd_op(rng)
    d = len(axes)
    shape = [len(a[1]) for a in axes]
    kind = rng.choice(["tuple", "tuple", "tuple", "select", "bare", "bad"])
    def sub(n):
        if rng.random() < 0.5:
            return rng.randint(-n, n - 1) if rng.random() < 0.9 else rng.choice([n, -n - 1])
        c = [None] + list(range(-n - 1, n + 2))
        return {"s": [rng.choice(c), rng.choice(c)]}
    if kind == "tuple":
        m = rng.randint(1, d)
        op = {"op": "getitem", "h": 0, "index": [sub(shape[i]) for i in range(m)], "out": 1}
    elif kind == "bare":
        op = {"op": "getitem", "h": 0, "index": [sub(shape[0])], "out": 1, "bare": True}
    elif kind == "select":
        ax = rng.randrange(d)
        names = init["names"] or [f"axis{i}" for i in range(d)]
        op = {"op": "select", "h": 0, "axis": names[ax] if rng.random() < 0.3 else ax, "_axis": ax, "index": sub(shape[ax]), "out": 1}
    else:
        op = {"op": "invalid", "what": rng.choice(["too_many_indices", "neg_step"]), "h": 0}
    return {"kind": "histn", "ops": [init, op], "tags": ["nd", "kind:" + kind, f"d:{d}"]}


def c11_oracle(case, io):
    outs, ops = io["outs"], case["ops"]
    fails = []
    if outs[0]["ret"] == "REFUSED":
        return ["refused_valid: setup refused: " + "; ".join(io["log"][:2])]
    op = ops[1]
    src = outs[0]["regs"][0]
    if outs[1]["regs"][0] != src:
        fails.append("source_modified: indexing modified the source histogram")
    ret = outs[1]["ret"]
    if op["op"] == "invalid":
        if ret != "REFUSED":
            fails.append(f"accepted_invalid: {op['what']} accepted")
        return fails
    d = src["ndim"]
    shape = src["shape"]
    F, E = obj_arr(src["freq"], shape), obj_arr(src["err2"], shape)
    if op["op"] == "select":
        index = [slice(None)] * op["_axis"] + [op["index"]]
    else:
        index = list(op["index"])
    np_index = []
    out_of_range = False
    for i, s in enumerate(index):
        if isinstance(s, dict):
            np_index.append(slice(s["s"][0], s["s"][1]))
        elif isinstance(s, slice):
            np_index.append(s)
        else:
            if not (-shape[i] <= s < shape[i]):
                out_of_range = True
            np_index.append(int(s))
    if out_of_range:
        if ret != "REFUSED":
            fails.append("accepted_invalid: out-of-range index accepted")
        return fails
    if ret == "REFUSED":
        fails.append(f"refused_valid: {op} refused: " + "; ".join(io["log"][:2]))
        return fails
    ef = F[tuple(np_index)]
    ee = E[tuple(np_index)]
    if isinstance(ret, dict):
        if not isinstance(ef, Fraction) or Fraction(ret["value"]) != ef:
            fails.append(f"item: h{index} = {ret}, numpy indexing gives {ef}")
        return fails
    res = outs[1]["regs"][1]
    kept_bins, kept_names = [], []
    for i in range(d):
        if i < len(np_index) and isinstance(np_index[i], int):
            continue
        b = src["bins"][i]
        if i < len(np_index):
            b = b[np_index[i]]
        kept_bins.append(b)
        kept_names.append(src["names"][i])
    if res["bins"] != kept_bins:
        fails.append(f"sel_bins: bins {res['bins']} are not the indexed bins {kept_bins}")
    if res["names"] != kept_names:
        fails.append(f"sel_names: names {res['names']}, expected {kept_names}")
    if [Fraction(x) for x in res["freq"]] != list(np.asarray(ef, dtype=object).ravel()):
        fails.append(f"sel_content: contents are not numpy's h.frequencies[{index}]")
    if [Fraction(x) for x in res["err2"]] != list(np.asarray(ee, dtype=object).ravel()):
        fails.append(f"sel_err2: squared errors are not numpy's h.errors2[{index}]")
    return fails[:6]

"""ND companions of the 1-D property modules (generation + oracle), mixed into them by `kind == "histn"`."""
from __future__ import annotations

import copy
from fractions import Fraction

import numpy as np

from .. import gen1, gennd
from ..core import rs
from .c03 import partition
from .c09 import obj_arr, rand_nd_op


# ------------------------------------------------------------------------------------------ C03 ND
def c03_gen(rng):
    d = rng.choice([2, 2, 3])
    axes = [gennd.axis_binning(rng, maxbins=3) for _ in range(d)]
    n = rng.choice([1, 2, 4, 8, 14])
    rows = gennd.rows_for(rng, [a[1] for a in axes], n, nan_share=rng.choice([0, 0.1]))
    ws, wk = gen1.weights_for(rng, n, kinds=["none", "none", "int", "dyadic", "equal"])
    keep = rng.random() < 0.7
    order = list(range(n)); rng.shuffle(order)
    order2 = list(range(n)); rng.shuffle(order2)
    src = {"axes": [a[0] for a in axes], "rows": gennd.enc_rows(rows), "ws": None if ws is None else [rs(w) for w in ws],
           "wk": wk, "keep": keep, "order": order, "batches": partition(rng, order2)}
    return c03_build(src)


def c03_build(src):
    ax, rows, ws, wk, keep = src["axes"], src["rows"], src["ws"], src["wk"], src["keep"]
    ops = [{"op": "construct", "out": 0, "axes": ax, "rows": rows, "weights": ws, "wkind": wk}]
    ops.append({"op": "empty", "out": 1, "axes": ax, "keep": keep})
    for i in src["order"]:
        r = rows[i]
        if all(v is not None for v in r):
            ops.append({"op": "find_bin", "h": 1, "v": r})
        w = "1" if ws is None else ws[i]
        ops.append({"op": "fill", "h": 1, "v": r, "w": w, "wk": "pyint" if (ws is None or wk == "int64") else "pyfloat",
                    "default_w": ws is None})
    ops.append({"op": "empty", "out": 2, "axes": ax, "keep": keep})
    for bt in src["batches"]:
        ops.append({"op": "fill_n", "h": 2, "rows": [rows[i] for i in bt], "ws": None if ws is None else [ws[i] for i in bt],
                    "wkind": wk})
    return {"kind": "histn", "ops": ops, "tags": ["nd", f"d:{len(ax)}"], "src": src}


def c03_shrink(case):
    src = case["src"]
    n = len(src["rows"])
    for i in range(n):
        s2 = copy.deepcopy(src)
        del s2["rows"][i]
        if s2["ws"] is not None:
            del s2["ws"][i]
        ren = lambda j: j if j < i else j - 1
        s2["order"] = [ren(j) for j in s2["order"] if j != i]
        s2["batches"] = [[ren(j) for j in bt if j != i] for bt in s2["batches"]]
        yield c03_build(s2)


def c03_oracle(case, io):
    outs, ops = io["outs"], case["ops"]
    fails = []
    if any(o["ret"] == "REFUSED" for o in outs):
        return ["refused_valid: a valid call was refused: " + "; ".join(io["log"][:2])]
    a, b, c = outs[-1]["regs"][:3]
    keep = case["src"]["keep"]
    for name, x in (("fill", b), ("fill_n", c)):
        for f in ("freq", "err2"):
            if [Fraction(v) for v in x[f]] != [Fraction(v) for v in a[f]]:
                fails.append(f"paths_{f}: {name} path gives {x[f]}, construction gives {a[f]}")
        if keep and (x["missed"] is None or Fraction(x["missed"]) != Fraction(a["missed"])):
            fails.append(f"paths_missed: {name} path gives missed={x['missed']}, construction gives {a['missed']}")
        if not keep and x["missed"] != "0":
            fails.append(f"keep_off_missed: missed={x['missed']} although keep_missed=False")
    axes = []
    for bj, rep in zip(case["src"]["axes"], a["bins"]):
        axes.append(([(Fraction(l), Fraction(r)) for l, r in rep], bj.get("ire", bj["t"] == "static")))
    for k, op in enumerate(ops):
        if op["op"] == "find_bin":
            if outs[k]["regs"][1] != outs[k - 1]["regs"][1]:
                fails.append("find_bin_mutates: find_bin changed the histogram")
            if outs[k + 1]["ret"] != outs[k]["ret"]:
                fails.append(f"fill_ret: fill returned {outs[k+1]['ret']} but find_bin said {outs[k]['ret']} for {op['v']}")
            exp = gennd.cell_of(axes, [Fraction(v) for v in op["v"]])
            got = outs[k]["ret"]
            if (None if exp is None else list(exp)) != got:
                fails.append(f"find_bin_index: find_bin({op['v']}) = {got}, expected {exp}")
            if not keep and exp is None:
                x, y = outs[k]["regs"][1], outs[k + 1]["regs"][1]
                if {f: x[f] for f in ("freq", "err2", "missed", "bins")} != {f: y[f] for f in ("freq", "err2", "missed", "bins")}:
                    fails.append("keep_off_changed: a point outside the bins changed a histogram that does not track missed values")
    return fails[:6]


# ------------------------------------------------------------------------------------------ C04 ND
def c04_gen(rng):
    from .c04 import WIDTHS, values
    d = rng.choice([2, 2, 2, 3])
    lim = 8 if d == 2 else 4
    ws = [rng.choice(WIDTHS[:9]) for _ in range(d)]
    axes = [gen1.fixed_json(w, 0, 0, shift=rng.choice([0.0, 0.0, 0.5 * w]), adaptive=True, align=rng.random() < 0.8) for w in ws]
    share = rng.random() < 0.15
    if share:       # the same adaptive binning object given once for all axes
        ws = [ws[0]] * d
        axes = [axes[0]] * d
    steps = []
    for _ in range(rng.randint(1, 6)):
        if rng.random() < 0.5:
            v = [values(rng, w, 1)[0] for w in ws]
            v = [x if abs(x) < lim * w else (x / abs(x)) * (lim - 1) * w for x, w in zip(v, ws)]
            steps.append({"t": "fill", "v": [rs(x) for x in v], "w": rs(rng.choice([1, 1, 2, 0.5]))})
        else:
            n = rng.choice([0, 1, 2, 4])
            rows = [[values(rng, w, 1)[0] for w in ws] for _ in range(n)]
            rows = [[x if abs(x) < lim * w else (x / abs(x)) * (lim - 1) * w for x, w in zip(r, ws)] for r in rows]
            steps.append({"t": "fill_n", "rows": [[rs(x) for x in r] for r in rows],
                          "ws": None if rng.random() < 0.7 else [rs(rng.choice([1, 2, 0.5])) for _ in rows]})
    return c04_build({"axes": axes, "steps": steps, "ws": [rs(w) for w in ws], "share": share})


# optional per-step keys of the C04 N-d histories, copied onto the ops (see implnd.step): the numpy type carrying the values,
# the form of a fill point, the memory layout of a fill_n array, transformed=True for the transformed classes
C04_STEP_KEYS = ("vk", "vform", "layout", "transformed")


def c04_build(src):
    ops = [{"op": "empty", "out": 0, "axes": src["axes"]}]
    if src.get("share"):
        ops[0]["share"] = True
    if src.get("klass"):
        ops[0]["klass"] = src["klass"]
    allv = []
    for s in src["steps"]:
        extra = {k: s[k] for k in C04_STEP_KEYS if s.get(k)}
        if s["t"] == "fill":
            ops.append({"op": "fill", "h": 0, "v": s["v"], "w": s["w"],
                        "wk": s.get("wk") or ("pyint" if "/" not in s["w"] else "pyfloat"), **extra})
            allv.append((s["v"], extra))
        else:
            ops.append({"op": "fill_n", "h": 0, "rows": s["rows"], "ws": s["ws"], "wkind": s.get("wkind") or "float64", **extra})
            allv += [(r, extra) for r in s["rows"]]
    for v, extra in allv:
        ops.append({"op": "find_bin", "h": 0, "v": v, **{k: x for k, x in extra.items() if k != "layout"}})
    return {"kind": "histn", "fuel": 64, "ops": ops,
            "tags": ["nd", f"d:{len(src['axes'])}"] + (["one_binning_object_for_all_axes"] if src.get("share") else [])
            + list(src.get("tags", [])), "src": src}


def c04_shrink(case):
    src = case["src"]
    for i in range(len(src["steps"]) - 1, -1, -1):
        s2 = copy.deepcopy(src)
        del s2["steps"][i]
        yield c04_build(s2)
    for i, st in enumerate(src["steps"]):       # single rows of a batch (every history of fills stays well-formed)
        if st["t"] == "fill_n" and len(st["rows"]) > 1:
            for j in range(len(st["rows"])):
                s2 = copy.deepcopy(src)
                del s2["steps"][i]["rows"][j]
                if s2["steps"][i]["ws"] is not None:
                    del s2["steps"][i]["ws"][j]
                yield c04_build(s2)


def c04_oracle(case, io):
    outs, ops = io["outs"], case["ops"]
    fails = []
    if any(o["ret"] == "REFUSED" for o in outs):
        return ["refused_valid: a valid call was refused: " + "; ".join(io["log"][:2])]
    entered = []
    for k, op in enumerate(ops):
        snap = outs[k]["regs"][0]
        if op["op"] == "fill":
            entered.append(([Fraction(x) for x in op["v"]], Fraction(op["w"])))
        elif op["op"] == "fill_n":
            for j, r in enumerate(op["rows"]):
                entered.append(([Fraction(x) for x in r], Fraction(op["ws"][j]) if op["ws"] is not None else Fraction(1)))
        elif op["op"] == "find_bin":
            if outs[k]["ret"] is None:
                fails.append(f"lost_value: find_bin({op['v']}) = None: the point entered is in no cell")
            continue
        tot = sum((w for _, w in entered), Fraction(0))
        if Fraction(snap["total"]) != tot:
            fails.append(f"total: total is {snap['total']}, weight entered is {tot}")
        if snap["missed"] != "0":
            fails.append(f"missed_nonzero: missed = {snap['missed']}")
        axes = [([(Fraction(l), Fraction(r)) for l, r in b], False) for b in snap["bins"]]
        if all(a[0] for a in axes):
            for ai, (pairs, _) in enumerate(axes):
                xs = [p[ai] for p, _ in entered]
                if any(pairs[i][1] != pairs[i + 1][0] for i in range(len(pairs) - 1)):
                    fails.append("not_contiguous: axis bins are not contiguous")
                grid = (case["src"].get("grid") or [None] * len(axes))[ai]
                if grid is not None:
                    # aligned axis with a fixed shift: every edge = k * width + shift (in doubles, as the library computes
                    # its edges) for consecutive integers k
                    gw, gs = float(Fraction(grid[0])), float(Fraction(grid[1]))
                    edges = [float(p[0]) for p in pairs] + [float(pairs[-1][1])]
                    k0 = round((edges[0] - gs) / gw)
                    if any(Fraction((k0 + i) * gw + gs) != Fraction(x) for i, x in enumerate(edges)):
                        fails.append(f"off_grid: axis {ai}: the edges are not shift + k*width for consecutive k")
                if xs and not (pairs[0][0] <= min(xs) < pairs[0][1]):
                    fails.append(f"span_low: axis {ai}: first bin does not contain the smallest coordinate")
                if xs and not (pairs[-1][0] <= max(xs) < pairs[-1][1]):
                    fails.append(f"span_high: axis {ai}: last bin does not contain the largest coordinate")
            cells, _ = gennd.brute_cells(axes, [p for p, _ in entered], [w for _, w in entered])
            for pos, idx in enumerate(gennd.unravel(snap["shape"])):
                f, e = cells.get(idx, (Fraction(0), Fraction(0)))
                if Fraction(snap["freq"][pos]) != f or Fraction(snap["err2"][pos]) != e:
                    fails.append(f"content: cell {idx} holds {snap['freq'][pos]}/{snap['err2'][pos]}, data give {f}/{e}")
                    break
    return fails[:6]


# ------------------------------------------------------------------------------------------ C10 ND
def c10_big_ops(rng):
    """ops building an N-d histogram with contents / squared errors beyond 2**53 (exact run sums); (ops, register, tags)"""
    from . import c10 as _c10
    init, axes = rand_nd_op(rng, d=rng.choice([2, 2, 3]), dtype="int64")
    size = len(init["freq"])
    how = rng.choice(["direct", "direct", "scaled", "float"])
    if how == "direct":
        f = _c10.big_int_values(rng, size)
        r = rng.random()
        e = None if r < 0.3 else (_c10.big_int_values(rng, size) if r < 0.8 else [rng.randint(0, 9) for _ in range(size)])
        if r >= 0.8 and rng.random() < 0.5:
            f, e = e, f
        init.update(freq=[str(x) for x in f], err2=None if e is None else [str(x) for x in e])
        return [init], 0, ["big:int64_direct"], axes
    if how == "scaled":
        k = rng.choice([10_000_001, 94_906_267, 2**27 + 1])
        room = _c10.INT64_MAX // (k * k)
        c = [min(rng.choice([0, 1, 3, 17, 400, 163, 1000]), max(0, room // size)) for _ in range(size)]
        init.update(freq=[str(x) for x in c], err2=None)
        if rng.random() < 0.3:
            return [init, {"op": "imul", "h": 0, "c": str(k), "k": "pyint"}], 0, ["big:int64_scaled"], axes
        return [init, {"op": "mul", "h": 0, "c": str(k), "k": "pyint", "out": 1, "reflected": rng.random() < 0.3}], 1, \
            ["big:int64_scaled"], axes
    # one grid for contents and squared errors: the coefficients of each add up to less than 2**53
    f = _c10.big_float_values(rng, size)
    e = None if rng.random() < 0.3 else _c10.big_float_values(rng, size)
    init.update(freq=[rs(x) for x in f], err2=None if e is None else [rs(x) for x in e], dtype="float64")
    return [init], 0, ["big:float64_exact"], axes


def c10_gen(rng):
    from . import c10 as _c10
    r = rng.random()
    stream = "big_nd" if r < 0.15 else ("carrier_nd" if r < 0.37 else None)
    if stream == "big_nd":
        ops, reg, tags, axes = c10_big_ops(rng)
        init = ops[0]
    else:
        init, axes = rand_nd_op(rng, d=rng.choice([2, 2, 3]))
        ops, reg, tags = [init], 0, []
    d = len(axes)
    names = init["names"] or [f"axis{i}" for i in range(d)]
    mode = rng.choice(["amount", "amount", "minfreq", "all"])
    op = {"op": "merge", "h": reg, "inplace": rng.random() < 0.5, "out": reg + 1}
    ax = rng.randrange(d)
    if mode != "all":
        op["axis"] = names[ax] if rng.random() < 0.3 else ax
        op["_axis"] = ax
    if stream == "carrier_nd":
        if mode == "minfreq":
            tags += _c10.rand_threshold(rng, op, pool=("1", "2", "7/2", "5", "8", "12"))
        else:
            nb = len(axes[ax][1]) if mode != "all" else max(len(a[1]) for a in axes)
            tags += _c10.rand_amount(rng, nb, op)
    elif mode == "minfreq":
        if stream == "big_nd":
            # thresholds among the contents (python integers for integer contents: compared exactly)
            pool = [Fraction(x) for x in init["freq"]] + [Fraction(1), Fraction(2**53)]
            if len(ops) == 2:
                pool = [x * int(ops[1]["c"]) for x in pool]
            op["min_freq"] = rs(rng.choice(pool))
            op["mk"] = "pyint" if init["dtype"] == "int64" else "pyfloat"
        else:
            op["min_freq"] = rs(rng.choice([1, 2, 3.5, 5, 8, 12]))
    else:
        op["amount"] = rng.randint(1, 4)
        if stream == "big_nd" and rng.random() < 0.3:
            op["amount"], op["ak"] = str(op["amount"]), rng.choice(_c10.NP_INTS)
    return {"kind": "histn", "ops": ops + [op], "tags": ["nd", "mode:" + mode] + tags + (["stream:" + stream] if stream else [])}


def c10_shrink(case):
    """the last bin of one axis goes (static binnings), no explicit squared errors, the plain call"""
    init = case["ops"][0]
    m = len(case["ops"]) - 1
    shape = [len(a["bins"]) if a["t"] == "static" else a["count"] for a in init["axes"]]
    for ax, a in enumerate(init["axes"]):
        if shape[ax] <= 1:
            continue
        c = copy.deepcopy(case)
        i0 = c["ops"][0]
        if a["t"] == "static":
            del i0["axes"][ax]["bins"][-1]
        else:
            i0["axes"][ax]["count"] -= 1
        for key in ("freq", "err2"):
            if i0.get(key) is not None:
                arr_ = np.array(i0[key], dtype=object).reshape(shape)
                i0[key] = [str(x) for x in np.delete(arr_, shape[ax] - 1, axis=ax).ravel()]
        yield c
    if init.get("err2") is not None:
        c = copy.deepcopy(case)
        c["ops"][0]["err2"] = None
        yield c
    if case["ops"][m].get("inplace"):
        c = copy.deepcopy(case)
        c["ops"][m]["inplace"] = False
        yield c


def c10_oracle(case, io):
    from . import c10 as _c10
    outs, ops = io["outs"], case["ops"]
    fails = []
    m = case.get("m", len(ops) - 1)        # (ops may follow the merge under test: c10.merge_index)
    if any(o["ret"] == "REFUSED" for o in outs[:m]):
        return ["refused_valid: setup refused: " + "; ".join(io["log"][:2])]
    op = ops[m]
    reg = op.get("h", 0)
    src = outs[m - 1]["regs"][reg]
    d = src["ndim"]
    F, E = obj_arr(src["freq"], src["shape"]), obj_arr(src["err2"], src["shape"])
    axes_to_merge = [op["_axis"]] if "_axis" in op else list(range(d))
    bins = [[(Fraction(l), Fraction(r)) for l, r in b] for b in src["bins"]]
    crosses = False
    expF, expE, exp_bins = F, E, [list(b) for b in bins]
    cls = "must"
    if op.get("amount") is not None:
        cls = _c10.amount_class(op)
        if cls in ("fractional", "zero", "negative"):
            # a non-integral amount (whatever carries it) and zero are to be refused; negative amounts are outside the
            # property: only all-or-nothing is looked at
            if outs[m]["ret"] == "REFUSED":
                if outs[m]["regs"][reg] != src:
                    fails.append("refused_changed: a refused merge changed the histogram (not all-or-nothing)")
            elif cls != "negative":
                got = outs[m]["regs"][reg if op.get("inplace") else op["out"]]
                fails.append(f"accepted_invalid: merge_bins(amount = {_c10.amount_text(op)}) accepted: shape {src['shape']} -> "
                             f"{got['shape']}")
            elif not op.get("inplace") and outs[m]["regs"][reg] != src:
                fails.append("operand_modified: merge_bins() without inplace modified the original")
            return fails
        a = int(_c10.amount_of(op)[0])
        for ax in axes_to_merge:
            nb = len(bins[ax])
            runs = [list(range(s, min(nb, s + a))) for s in range(0, nb, a)]
            if any(bins[ax][i][1] != bins[ax][i + 1][0] for r in runs for i in r[:-1]):
                crosses = True
            exp_bins[ax] = [(bins[ax][r[0]][0], bins[ax][r[-1]][1]) for r in runs]
            expF = np.stack([np.take(expF, r, axis=ax).sum(axis=ax) for r in runs], axis=ax)
            expE = np.stack([np.take(expE, r, axis=ax).sum(axis=ax) for r in runs], axis=ax)
    if outs[m]["ret"] == "REFUSED":
        if op.get("amount") is not None and not crosses and cls == "must":
            fails.append(f"refused_valid: merge_bins({_c10.amount_text(op)}) refused: " + "; ".join(io["log"][:2]))
        if outs[m]["regs"][reg] != src:
            fails.append("refused_changed: a refused merge changed the histogram (not all-or-nothing)")
        return fails
    res = outs[m]["regs"][reg if op.get("inplace") else op["out"]]
    if crosses:
        return ["merged_across_gap: a run spanning a gap was merged"]
    if op.get("amount") is not None:
        if [[(Fraction(l), Fraction(r)) for l, r in b] for b in res["bins"]] != exp_bins:
            fails.append(f"merged_bins: bins after merge_bins({_c10.amount_text(op)}) are {res['bins']}, expected runs of {a}")
        elif [Fraction(x) for x in res["freq"]] != list(np.asarray(expF, dtype=object).ravel()):
            fails.append(f"merged_content: contents {res['freq']} are not the runs' sums of {src['freq']} (shape {src['shape']}, "
                         f"runs of {a} on axes {axes_to_merge})")
        elif [Fraction(x) for x in res["err2"]] != list(np.asarray(expE, dtype=object).ravel()):
            fails.append(f"merged_err2: squared errors {res['err2']} are not the runs' sums of {src['err2']} (shape {src['shape']}, "
                         f"runs of {a} on axes {axes_to_merge})")
    else:
        ax = op["_axis"]
        for i in range(d):
            if i != ax and res["bins"][i] != src["bins"][i]:
                fails.append("other_axis_changed: an axis that was not merged changed")
        nb = [(Fraction(l), Fraction(r)) for l, r in res["bins"][ax]]
        if nb and (nb[0][0] != bins[ax][0][0] or nb[-1][1] != bins[ax][-1][1]):
            fails.append("outer_edges: the outer edges changed")
        old_edges = {x for p in bins[ax] for x in p}
        if any(l not in old_edges or r not in old_edges for l, r in nb):
            fails.append("minfreq_union: new bins are not unions of old bins")
        elif not fails:
            # contents and squared errors of every new bin: the sums over the old bins it is the union of
            lefts = [p[0] for p in bins[ax]]
            starts = [lefts.index(l) for l, _ in nb if l in lefts]
            if len(starts) == len(nb) and starts == sorted(set(starts)) and starts[:1] == [0]:
                groups = [list(range(s, t)) for s, t in zip(starts, starts[1:] + [len(lefts)])]
                gF = np.stack([np.take(F, g, axis=ax).sum(axis=ax) for g in groups], axis=ax)
                gE = np.stack([np.take(E, g, axis=ax).sum(axis=ax) for g in groups], axis=ax)
                if [Fraction(x) for x in res["freq"]] != list(np.asarray(gF, dtype=object).ravel()):
                    fails.append(f"minfreq_content: contents {res['freq']} are not the sums over the merged bins of {src['freq']}")
                elif [Fraction(x) for x in res["err2"]] != list(np.asarray(gE, dtype=object).ravel()):
                    fails.append(f"minfreq_err2: squared errors {res['err2']} are not the sums over the merged bins of {src['err2']}")
            else:
                fails.append("minfreq_union: new bins are not unions of adjacent old bins in order")
    if Fraction(res["total"]) != Fraction(src["total"]):
        fails.append("total: total changed")
    if res["missed"] != src["missed"]:
        fails.append("missed: missed changed")
    if res["names"] != src["names"]:
        fails.append("names: axis names changed")
    if not op.get("inplace") and outs[m]["regs"][reg] != src:
        fails.append("operand_modified: merge_bins() without inplace modified the original")
    return fails[:6]


# ------------------------------------------------------------------------------------------ C11 ND
def c11_gen(rng):
    init, axes = rand_nd_op(rng)
    d = len(axes)
    shape = [len(a[1]) for a in axes]
    kind = rng.choice(["tuple", "tuple", "tuple", "select", "bare", "bad"])
    def sub(n):
        if rng.random() < 0.5:
            return rng.randint(-n, n - 1) if rng.random() < 0.9 else rng.choice([n, -n - 1])
        c = [None] + list(range(-n - 1, n + 2))
        return {"s": [rng.choice(c), rng.choice(c)]}
    if kind == "tuple":
        m = rng.randint(1, d)
        op = {"op": "getitem", "h": 0, "index": [sub(shape[i]) for i in range(m)], "out": 1}
        if rng.random() < 0.3:
            op["ik"] = rng.choice(["int64", "int32", "intp"])      # integer entries as numpy integer scalars
    elif kind == "bare":
        op = {"op": "getitem", "h": 0, "index": [sub(shape[0])], "out": 1, "bare": True}
    elif kind == "select":
        ax = rng.randrange(d)
        names = init["names"] or [f"axis{i}" for i in range(d)]
        op = {"op": "select", "h": 0, "axis": names[ax] if rng.random() < 0.3 else ax, "_axis": ax, "index": sub(shape[ax]), "out": 1}
        if rng.random() < 0.3:
            op["ik"] = rng.choice(["int64", "int32", "intp"])
    else:
        op = {"op": "invalid", "what": rng.choice(["too_many_indices", "neg_step"]), "h": 0}
    return {"kind": "histn", "ops": [init, op], "tags": ["nd", "kind:" + kind, f"d:{d}"]}


def c11_oracle(case, io):
    outs, ops = io["outs"], case["ops"]
    fails = []
    if outs[0]["ret"] == "REFUSED":
        return ["refused_valid: setup refused: " + "; ".join(io["log"][:2])]
    op = ops[1]
    src = outs[0]["regs"][0]
    if outs[1]["regs"][0] != src:
        fails.append("source_modified: indexing modified the source histogram")
    from ..impl1 import edges_consistent
    for i, r in enumerate(outs[1]["regs"]):
        if r is None:
            continue
        for a, (bb, nb) in enumerate(zip(r["bins"], r.get("_numpy_bins") or [])):
            if not edges_consistent(bb, nb):
                fails.append(f"edges_differ: register {i} axis {a}: numpy_bins {nb} are not the edges of its bins {bb}")
    ret = outs[1]["ret"]
    if op["op"] == "invalid":
        if ret != "REFUSED":
            fails.append(f"accepted_invalid: {op['what']} accepted")
        return fails
    d = src["ndim"]
    shape = src["shape"]
    F, E = obj_arr(src["freq"], shape), obj_arr(src["err2"], shape)
    if op["op"] == "select":
        index = [slice(None)] * op["_axis"] + [op["index"]]
    else:
        index = list(op["index"])
    np_index = []
    out_of_range = False
    for i, s in enumerate(index):
        if isinstance(s, dict):
            np_index.append(slice(s["s"][0], s["s"][1]))
        elif isinstance(s, slice):
            np_index.append(s)
        else:
            if not (-shape[i] <= s < shape[i]):
                out_of_range = True
            np_index.append(int(s))
    if out_of_range:
        if ret != "REFUSED":
            fails.append("accepted_invalid: out-of-range index accepted")
        return fails
    if ret == "REFUSED":
        fails.append(f"refused_valid: {op} refused: " + "; ".join(io["log"][:2]))
        return fails
    ef = F[tuple(np_index)]
    ee = E[tuple(np_index)]
    if isinstance(ret, dict):
        if not isinstance(ef, Fraction) or Fraction(ret["value"]) != ef:
            fails.append(f"item: h{index} = {ret}, numpy indexing gives {ef}")
        return fails
    res = outs[1]["regs"][1]
    kept_bins, kept_names = [], []
    for i in range(d):
        if i < len(np_index) and isinstance(np_index[i], int):
            continue
        b = src["bins"][i]
        if i < len(np_index):
            b = b[np_index[i]]
        kept_bins.append(b)
        kept_names.append(src["names"][i])
    if res["bins"] != kept_bins:
        fails.append(f"sel_bins: bins {res['bins']} are not the indexed bins {kept_bins}")
    if res["names"] != kept_names:
        fails.append(f"sel_names: names {res['names']}, expected {kept_names}")
    if [Fraction(x) for x in res["freq"]] != list(np.asarray(ef, dtype=object).ravel()):
        fails.append(f"sel_content: contents are not numpy's h.frequencies[{index}]")
    if [Fraction(x) for x in res["err2"]] != list(np.asarray(ee, dtype=object).ravel()):
        fails.append(f"sel_err2: squared errors are not numpy's h.errors2[{index}]")
    return fails[:6]


# ------------------------------------------------------------------------------------------ C18 ND
def c18_gen(rng):
    """histories of public N-d operations with invalid calls injected; register 0 and 1 share axes, register 2 has others"""
    d = rng.choice([2, 2, 3])
    gap_axis = rng.choice([None, None, 1, d - 1])
    axes = []
    for a in range(d):
        nb = rng.randint(2, 4)
        edges = [float(rng.choice([0, 1, -2])) ]
        for _ in range(nb):
            edges.append(edges[-1] + rng.choice([1.0, 0.5, 2.0]))
        pairs = [[edges[i], edges[i + 1]] for i in range(nb)]
        if gap_axis == a and nb >= 3:
            pairs[1][0] += 0.25          # a gap between bin 0 and bin 1
        axes.append((gen1.binning_json(pairs, ire=rng.random() < 0.7, form="static_obj"), pairs))
    shape = [len(a[1]) for a in axes]
    n = 1
    for x in shape:
        n *= x

    def arrays(dt):
        isint = dt.startswith("int")
        f = [rng.randint(0, 9) if isint else rng.randint(0, 36) / 4 for _ in range(n)]
        e = None if rng.random() < 0.5 else [rng.randint(0, 12) if isint else rng.randint(0, 48) / 4 for _ in range(n)]
        return [rs(x) for x in f], None if e is None else [rs(x) for x in e]

    ops = []
    for reg in (0, 1):
        dt = rng.choice(["int64", "float64", "int32", "float32"])
        f, e = arrays(dt)
        ops.append({"op": "of_arrays", "out": reg, "axes": [a[0] for a in axes], "freq": f, "err2": e, "missed": rs(rng.randint(0, 4)),
                    "dtype": dt, "keep": rng.random() < 0.85, "names": [f"ax{i}" for i in range(d)]})
    other = [gen1.binning_json([[100.0 + 3 * i, 101.0 + 3 * i] for i in range(s_ + 1)], form="pairs") for s_ in shape]
    m = 1
    for x in shape:
        m *= x + 1
    ops.append({"op": "of_arrays", "out": 2, "axes": other, "freq": ["1"] * m, "err2": None, "missed": "0", "dtype": "int64",
                "keep": True, "names": [f"ax{i}" for i in range(d)]})
    nfree = 3
    tags = ["nd", f"d:{d}"] + (["gapped_axis:%d" % gap_axis] if gap_axis is not None else [])
    mid = [(p[0][0] + p[0][1]) / 2 for _, p in axes]
    for _ in range(rng.randint(2, 7)):
        h = rng.choice([0, 0, 1])
        if rng.random() < 0.4:
            bad = rng.choice(["iadd_incompatible", "add_incompatible", "fill_n_wshape", "neg_imul", "zero_idiv", "merge_all_gap",
                              "merge_frac", "fill_wrong_dim", "fill_n_wrong_cols", "mul_hist", "add_array", "proj_range",
                              "too_many_indices", "set_dtype_bad", "sub_too_much", "add_none"])
            tags.append("bad:" + bad)
            if bad == "iadd_incompatible":
                ops.append({"op": "iadd", "h": h, "o": 2, "expect_refused": True})
            elif bad == "add_incompatible":
                ops.append({"op": "add", "a": h, "b": 2, "out": nfree, "expect_refused": True}); nfree += 1
            elif bad == "fill_n_wshape":
                ops.append({"op": "fill_n", "h": h, "rows": [[rs(v) for v in mid], [rs(v) for v in mid]], "ws": ["1", "2", "3"],
                            "wkind": "int64", "expect_refused": True})
            elif bad == "neg_imul":
                ops.append({"op": "imul", "h": h, "c": "-2", "k": "pyint", "maybe_refused": True})
            elif bad == "zero_idiv":
                ops.append({"op": "idiv", "h": h, "c": "0", "k": "pyint", "expect_refused": True})
            elif bad == "merge_all_gap":
                # all axes at once: with a gapped later axis the call is refused after axis 0 could already be merged
                ops.append({"op": "merge", "h": h, "amount": 2, "inplace": True, "maybe_refused": True})
            elif bad == "set_dtype_bad":
                ops.append({"op": "set_dtype", "h": h, "dtype": rng.choice(["int16", "int32", "float16"]), "maybe_refused": True,
                            "via_property": rng.random() < 0.5})
            elif bad == "sub_too_much":
                ops.append({"op": "isub", "h": h, "o": 1 - h, "maybe_refused": True})
            else:
                ops.append({"op": "invalid", "what": bad, "h": h, "o": 1 - h})
            continue
        kind = rng.choice(["fill", "fill", "fill_n", "iadd", "add", "imul", "idiv", "normalize", "merge_axis", "copy", "projection",
                           "select", "partial"])
        tags.append(kind)
        if kind == "fill":
            v = [rng.choice([mid[a], axes[a][1][-1][1], axes[a][1][0][0] - 1.0, axes[a][1][-1][1] + 1.0]) for a in range(d)]
            wt, wk = rng.choice([(1, "pyint"), (2, "pyint"), (0.5, "pyfloat")])
            ops.append({"op": "fill", "h": h, "v": [rs(x) for x in v], "w": rs(wt), "wk": wk, "default_w": False})
        elif kind == "fill_n":
            rows = [[rs(rng.choice([mid[a], axes[a][1][-1][0], axes[a][1][0][0] - 1.0])) for a in range(d)] for _ in range(rng.choice([0, 1, 3]))]
            ops.append({"op": "fill_n", "h": h, "rows": rows, "ws": None, "wkind": None})
        elif kind == "iadd":
            ops.append({"op": "iadd", "h": h, "o": 1 - h})
        elif kind == "add":
            ops.append({"op": "add", "a": h, "b": 1 - h, "out": nfree}); nfree += 1
        elif kind == "imul":
            ops.append({"op": "imul", "h": h, "c": rng.choice(["2", "3", "1/2"]), "k": rng.choice(["pyint", "pyfloat"])})
            if ops[-1]["c"] == "1/2":
                ops[-1]["k"] = "pyfloat"
        elif kind == "idiv":
            ops.append({"op": "idiv", "h": h, "c": rng.choice(["2", "4"]), "k": "pyint"})
        elif kind == "normalize":
            ops.append({"op": "normalize", "h": h, "percent": False, "inplace": True, "maybe_refused": True})
        elif kind == "merge_axis":
            ops.append({"op": "merge", "h": h, "amount": 2, "axis": rng.randrange(d), "inplace": True, "maybe_refused": True})
        elif kind == "copy":
            ops.append({"op": "copy", "h": h, "out": nfree, "with_freq": True}); nfree += 1
        elif kind == "projection":
            ops.append({"op": "projection", "h": h, "axes": [rng.randrange(d)], "out": nfree}); nfree += 1
        elif kind == "select":
            ops.append({"op": "select", "h": h, "axis": rng.randrange(d), "index": 0, "out": nfree}); nfree += 1
        elif kind == "partial":
            if d == 2:
                ops.append({"op": "partial_normalize", "h": h, "axis": rng.choice([0, 1]), "inplace": True})
    tol = any(o["op"] in ("normalize", "partial_normalize") for o in ops)
    return {"kind": "histn", "ops": ops, "tags": tags, "tolerance": tol, "sub": "nd"}


def _cells(snap):
    """content / squared error per cell keyed by the cell's bin edges (zero cells dropped)"""
    out = {}
    for pos, idx in enumerate(gennd.unravel(snap["shape"])):
        f, e = snap["freq"][pos], snap["err2"][pos]
        if f in ("inf", "-inf", None) or e in ("inf", "-inf", None):
            out[idx] = (f, e)
            continue
        if Fraction(f) != 0 or Fraction(e) != 0:
            key = tuple(tuple(snap["bins"][a][i]) for a, i in enumerate(idx))
            out[key] = (Fraction(f), Fraction(e))
    return out


def c18_wellformed(snap):
    out = []
    if not snap["_shape_ok"]:
        out.append("shape: frequencies / errors2 / bins shapes do not match")
    n = 1
    for x in snap["shape"]:
        n *= x
    if len(snap["freq"]) != n or len(snap["err2"]) != n or snap["shape"] != [len(b) for b in snap["bins"]]:
        out.append("shape: frequencies / errors2 / bins lengths do not match")
    vals = [x for x in snap["freq"] + snap["err2"] if x not in ("inf", "-inf", None)]
    if any(Fraction(x) < 0 for x in snap["err2"] if x not in ("inf", "-inf", None)):
        out.append(f"negative_err2: {snap['err2']}")
    if any(Fraction(x) < 0 for x in snap["freq"] if x not in ("inf", "-inf", None)):
        out.append(f"negative_content: {snap['freq']}")
    for a, bb in enumerate(snap["bins"]):
        bins = [(Fraction(l), Fraction(r)) for l, r in bb]
        if any(l >= r for l, r in bins) or any(bins[i][1] > bins[i + 1][0] for i in range(len(bins) - 1)):
            out.append(f"bins_not_rising: axis {a}")
    if snap["_freq_dtype"] != snap["dtype"] or snap["_err2_dtype"] != snap["dtype"]:
        out.append(f"dtype_mismatch: dtype {snap['dtype']} over {snap['_freq_dtype']}/{snap['_err2_dtype']} arrays")
    return out


def c18_oracle(case, io):
    outs, ops = io["outs"], case["ops"]
    fails = []
    for k, op in enumerate(ops):
        regs = outs[k]["regs"]
        for i, r in enumerate(regs):
            if r is None:
                continue
            for w in c18_wellformed(r):
                fails.append(f"illformed: after step {k} ({op['op']}) register {i}: {w}")
        ret = outs[k]["ret"]
        if op.get("expect_refused") and ret != "REFUSED":
            fails.append(f"accepted_invalid: step {k} {op['op']} should have been refused")
        if op["op"] == "invalid" and ret != "REFUSED":
            fails.append(f"accepted_invalid: step {k} {op['what']} accepted")
        if ret == "REFUSED" and k > 0:
            before = outs[k - 1]["regs"]
            for i, (x, y) in enumerate(zip(before, regs)):
                if x is None or y is None:
                    continue
                if _cells(x) != _cells(y):
                    fails.append(f"not_atomic: refused step {k} ({op['op']} {op.get('what', '')}) changed contents of register {i}: "
                                 f"shape {x['shape']} -> {y['shape']}")
                if x["bins"] != y["bins"] and not any(b.get("adaptive") for b in []):
                    fails.append(f"not_atomic: refused step {k} ({op['op']} {op.get('what', '')}) changed the bins of register {i}")
                if x["missed"] != y["missed"]:
                    fails.append(f"not_atomic: refused step {k} ({op['op']}) changed missed of register {i}: {x['missed']} -> {y['missed']}")
                if x["dtype"] != y["dtype"] and not np.can_cast(np.dtype(x["dtype"]), np.dtype(y["dtype"])):
                    fails.append(f"not_atomic: refused step {k} changed dtype {x['dtype']} -> {y['dtype']} (not a lossless promotion)")
        if len(fails) > 6:
            break
    return fails[:6]


# ---------------------------------------------------------------------------------------------- C05 in N dimensions
def c05_gen(rng):
    """two (three) row sets over the same axes -- static (h() at once) or adaptive fixed-width (empty + fill_n) -- added in both
    orders and compared with the histogram of the rows together; weights absent / int / dyadic (bit-exact) or DECIMAL
    (k/10: sums are rounded -- tolerance stream; what matters there is that the addition is accepted and nothing is lost);
    then the refusals: another dimension, other bins (static), another grid (adaptive)."""
    d = rng.choice([2, 2, 3])
    adaptive = rng.random() < 0.5
    wkind = rng.choice(["none", "none", "int", "dyadic", "decimal", "decimal"])
    if adaptive:
        ws = [rng.choice([1.0, 0.5, 2.0, 0.25]) for _ in range(d)]
        axes = [gen1.fixed_json(w, 0, 0, adaptive=True) for w in ws]

        def rows(n, off):
            return [[(off[i] + rng.randint(0, 12)) * ws[i] + rng.choice([0.25, 0.5, 0.0]) * ws[i] for i in range(d)] for _ in range(n)]
        offs = [[rng.choice([0, 0, 6, -9]) for _ in range(d)] for _ in range(3)]
        sets = [rows(rng.choice([0, 1, 3, 6]), offs[k]) for k in range(3)]
    else:
        axs = [gennd.axis_binning(rng, maxbins=4) for _ in range(d)]
        axes = [a[0] for a in axs]
        sets = [gennd.rows_for(rng, [a[1] for a in axs], rng.choice([0, 1, 3, 6])) for _ in range(3)]
        sets = [[r for r in st if all(v is not None for v in r)] for st in sets]

    def wts(n):
        if wkind == "none":
            return None
        if wkind == "int":
            return [rs(rng.randint(0, 4)) for _ in range(n)]
        if wkind == "dyadic":
            return [rs(rng.randint(0, 16) / 4) for _ in range(n)]
        return [rs(rng.randint(1, 30) / 10) for _ in range(n)]
    wsets = [wts(len(st)) for st in sets]
    src = {"d": d, "axes": axes, "adaptive": adaptive, "sets": [gennd.enc_rows(st) for st in sets], "wsets": wsets,
           "wk": None if wkind == "none" else ("int64" if wkind == "int" else "float64"), "wkind": wkind}
    return c05_build(src)


def c05_build(src):
    ops = []
    axes, wk = src["axes"], src["wk"]

    def mk(out, idxs):
        rows, ws = [], []
        for i in idxs:
            rows += src["sets"][i]
            ws += (src["wsets"][i] if src["wsets"][i] is not None else [])
        w = ws if wk is not None else None
        if src["adaptive"]:
            ops.append({"op": "empty", "out": out, "axes": axes})
            ops.append({"op": "fill_n", "h": out, "rows": rows, "ws": w, "wkind": wk})
        else:
            ops.append({"op": "construct", "out": out, "axes": axes, "rows": rows, "weights": w, "wkind": wk})
    mk(0, [0]); mk(1, [1]); mk(2, [2]); mk(3, [0, 1]); mk(4, [0, 1, 2])
    ops.append({"op": "add", "a": 0, "b": 1, "out": 5})
    ops.append({"op": "add", "a": 1, "b": 0, "out": 6})
    ops.append({"op": "add", "a": 5, "b": 2, "out": 7})
    ops.append({"op": "add", "a": 1, "b": 2, "out": 8})
    ops.append({"op": "add", "a": 0, "b": 8, "out": 9})
    ops.append({"op": "iadd", "h": 2, "o": 3})          # C += (A and B): in place
    # refusals: another dimension
    ops.append({"op": "projection", "h": 0, "axes": [0], "out": 10, "maybe": True})
    ops.append({"op": "add", "a": 0, "b": 10, "out": 11, "must_refuse": "dimension"})
    return {"kind": "histn", "fuel": 64, "ops": ops, "tolerance": src["wkind"] == "decimal",
            "tags": ["nd", f"d:{src['d']}", "adaptive" if src["adaptive"] else "static", "weights:" + src["wkind"]], "src": src}


def c05_shrink(case):
    import copy
    src = case["src"]
    for i in range(3):
        for j in range(len(src["sets"][i])):
            s2 = copy.deepcopy(src)
            del s2["sets"][i][j]
            if s2["wsets"][i] is not None:
                del s2["wsets"][i][j]
            yield c05_build(s2)


def c05_oracle(case, io):
    outs, ops = io["outs"], case["ops"]
    src = case["src"]
    fails = []
    for k, op in enumerate(ops):
        if op.get("must_refuse"):
            if outs[k]["ret"] != "REFUSED":
                fails.append(f"accepted_incompatible: histograms of different {op['must_refuse']} were added")
        elif outs[k]["ret"] == "REFUSED" and not op.get("maybe"):
            return [f"refused_valid: step {k} {({x: y for x, y in op.items() if x not in ('axes', 'rows', 'ws', 'weights')})} was refused: "
                    + "; ".join(io["log"][:2])]
    regs = outs[-1]["regs"]
    tol = Fraction(1, 10**9) if src["wkind"] == "decimal" else Fraction(0)

    def same(x, y, what):
        if regs[x]["bins"] != regs[y]["bins"]:
            fails.append(f"sum_differs: {what}: bins differ")
            return
        for f in ("freq", "err2"):
            a, b = [Fraction(v) for v in regs[x][f]], [Fraction(v) for v in regs[y][f]]
            if len(a) != len(b) or any(abs(p - q) > tol * (1 + abs(q)) for p, q in zip(a, b)):
                fails.append(f"sum_differs: {what}: {f} differ: {regs[x][f][:8]} vs {regs[y][f][:8]}")
                return
        ma, mb = regs[x]["missed"], regs[y]["missed"]
        if (ma is None) != (mb is None) or (ma is not None and abs(Fraction(ma) - Fraction(mb)) > tol * (1 + abs(Fraction(mb))) + tol):
            fails.append(f"sum_differs: {what}: missed {ma} vs {mb}")
    same(5, 3, "A+B vs h(A and B)")
    same(6, 5, "B+A vs A+B")
    same(7, 9, "(A+B)+C vs A+(B+C)")
    same(7, 4, "(A+B)+C vs h(all)")
    same(2, 4, "C += h(A and B) vs h(all)")
    # nothing lost
    tot = lambda r: Fraction(regs[r]["total"]) + (Fraction(regs[r]["missed"]) if regs[r]["missed"] is not None else 0)
    if abs(tot(5) - tot(0) - tot(1)) > tol * (1 + abs(tot(5))) + tol:
        fails.append(f"weight_lost: total + missed of A+B is {tot(5)}, of A and B {tot(0)} + {tot(1)}")
    # the operands are never modified
    first_add = next(k for k, op in enumerate(ops) if op["op"] == "add")
    before = outs[first_add - 1]["regs"]
    for i in (0, 1):
        b0 = {k: v for k, v in before[i].items() if not k.startswith("_")}
        b1 = {k: v for k, v in regs[i].items() if not k.startswith("_")}
        if b0 != b1:
            fails.append(f"operand_modified: operand {i} changed by the additions: fields {[f for f in b0 if b0[f] != b1.get(f)]}")
    return fails[:6]

"""C01 — 1D construction: each value counted once, in the bin that contains it."""
from __future__ import annotations

from fractions import Fraction

import numpy as np

import copy
import math
import warnings

from .. import gen1
from ..core import nrs, rs
from .base1 import Hist1Prop

# Two of every STREAM_EVERY case indices come from the streams below; the other indices keep the older generator
# (N_QUICK / N_THOROUGH were raised by 10/8 so that the older streams keep their number of cases).
STREAM_EVERY, WIDE_SLOT, LAYOUT_SLOT = 10, 3, 7


# ------------------------------------------------------------------------------------------ memory layouts
# The same LOGICAL array (same shape, same element at every index) in another memory layout.  h1 pairs values and weights
# by position (logical index), so none of these may change the result.
LAYOUTS_1D = ["strided", "rev"]
LAYOUTS_2D = ["F", "T", "pandas", "strided", "strided0", "F_strided", "rev", "rev_last", "rev_F"]
LAYOUTS_3D = ["F", "T", "perm", "perm", "perm", "strided", "strided0", "F_strided", "rev", "rev_last", "rev_F"]
PERMS_3D = [[1, 0, 2], [0, 2, 1], [2, 0, 1], [1, 2, 0], [2, 1, 0]]


def layouts_for(ndim):
    return {1: LAYOUTS_1D, 2: LAYOUTS_2D}.get(ndim, LAYOUTS_3D)


def relayout(a, name, perm=None):
    """`a` (an ndarray) re-laid in memory; the logical content is asserted to be the same"""
    if not isinstance(a, np.ndarray) or a.ndim == 0 or name in (None, "C"):
        return a
    junk = a.dtype.type(77)
    if name == "F":
        r = np.asfortranarray(a)
    elif name == "T":                       # a transposed view of a C-contiguous buffer
        r = np.ascontiguousarray(a.T).T
    elif name == "perm":                    # axes stored in another order (a view obtained by transpose)
        p = list(perm) if perm is not None and sorted(perm) == list(range(a.ndim)) else list(range(a.ndim))[::-1]
        r = np.ascontiguousarray(a.transpose(p)).transpose([p.index(i) for i in range(a.ndim)])
    elif name == "strided":                 # every other element of a larger buffer (last axis)
        buf = np.full(a.shape[:-1] + (2 * a.shape[-1] + 1,), junk, dtype=a.dtype)
        r = buf[..., 1::2]
        r[...] = a
    elif name == "strided0":                # every other row of a larger buffer (first axis)
        buf = np.full((2 * a.shape[0] + 1,) + a.shape[1:], junk, dtype=a.dtype)
        r = buf[1::2]
        r[...] = a
    elif name == "F_strided":               # the same inside a Fortran-ordered buffer
        buf = np.full((2 * a.shape[0] + 1,) + a.shape[1:], junk, dtype=a.dtype, order="F")
        r = buf[1::2]
        r[...] = a
    elif name == "rev":                     # negative stride along the first axis
        r = np.ascontiguousarray(a[::-1])[::-1]
    elif name == "rev_last":                # negative stride along the last axis
        r = np.ascontiguousarray(a[..., ::-1])[..., ::-1]
    elif name == "rev_F":                   # Fortran order and a negative stride
        r = np.asfortranarray(a[::-1])[::-1]
    elif name == "pandas":                  # what DataFrame.to_numpy() hands out for a table built column by column
        if a.ndim != 2:
            r = np.asfortranarray(a)
        else:
            import pandas as pd
            r = pd.DataFrame({f"c{j}": a[:, j] for j in range(a.shape[1])}).to_numpy()
    elif name == "bcast0":                  # one row broadcast along the first axis (stride 0), when all rows are equal
        if a.ndim >= 2 and a.shape[0] >= 1 and np.array_equal(np.broadcast_to(a[0], a.shape), a, equal_nan=True):
            r = np.broadcast_to(a[0], a.shape)
        else:
            r = a
    else:
        raise KeyError(name)
    assert r.shape == a.shape and r.dtype == a.dtype and np.array_equal(r, a, equal_nan=a.dtype.kind == "f"), name
    return r


def _describe(x):
    """what the caller holds before the call: an independent copy in logical (C) order and the array's own description"""
    if isinstance(x, np.ndarray):
        return {"copy": np.array(x, order="C", copy=True), "shape": x.shape, "strides": x.strides, "dtype": str(x.dtype),
                "writeable": bool(x.flags.writeable)}
    return {"copy": copy.deepcopy(x)}


def _changed(x, d, what):
    out = []
    if isinstance(x, np.ndarray):
        if x.shape != d["shape"] or x.strides != d["strides"] or str(x.dtype) != d["dtype"] or bool(x.flags.writeable) != d["writeable"]:
            out.append(f"{what}: shape/strides/dtype/flags {d['shape']}/{d['strides']}/{d['dtype']} -> {x.shape}/{x.strides}/{x.dtype}")
        elif not np.array_equal(x, d["copy"], equal_nan=x.dtype.kind == "f"):
            out.append(f"{what}: content {d['copy'].flatten().tolist()} -> {np.array(x).flatten().tolist()}")
    elif x != d["copy"] and not (x is None and d["copy"] is None):
        if json_nan_eq(x, d["copy"]):
            return out
        out.append(f"{what}: {d['copy']} -> {x}")
    return out


def json_nan_eq(a, b):
    """equality of nested lists of floats in which NaN equals NaN"""
    if isinstance(a, list) and isinstance(b, list):
        return len(a) == len(b) and all(json_nan_eq(x, y) for x, y in zip(a, b))
    if isinstance(a, float) and isinstance(b, float) and math.isnan(a) and math.isnan(b):
        return True
    return a == b


def _flat(d):
    """the logical (C order) sequence of elements of the copy taken before the call, as exact rationals (None = NaN)"""
    c = d["copy"]
    if c is None:
        return None
    a = c if isinstance(c, np.ndarray) else np.array(c, dtype=float)
    return [nrs(x) for x in a.flatten()]


# ------------------------------------------------------------------------------------------ wide weights
WIDE_PROFILES = ["descending", "descending", "descending", "ascending", "ascending", "random", "alternating", "alternating",
                 "one_huge", "one_huge", "huge_outside", "tiny_outside"]
WIDE_RANGES = [(0, 60, 6), (0, 60, 6), (0, 30, 3), (0, 30, 3), (-60, 60, 8), (-30, 30, 4), (-300, 300, 40)]    # (lo, hi, near) exponents of 2


def _v2(f: Fraction) -> int:
    """exponent of the lowest set bit of a non-zero dyadic rational"""
    n, d = abs(f.numerator), f.denominator
    assert n and d & (d - 1) == 0, f
    return (n & -n).bit_length() - 1 - (d.bit_length() - 1)


def summable(ws, integer=False) -> bool:
    """every partial sum of the numbers (any order, any grouping) and of their squares is an exactly representable double
    (and inside int64 for integer weights): all are multiples of 2^a and the absolute values add up to < 2^(a+53)"""
    ws = [Fraction(w) for w in ws if Fraction(w) != 0]
    if not ws:
        return True
    for xs in (ws, [w * w for w in ws]):
        a = min(_v2(x) for x in xs)
        tot = sum(abs(x) for x in xs)
        if tot >= Fraction(2) ** (a + 53) or (integer and tot >= 2 ** 63):
            return False
        if any(abs(x) >= Fraction(2) ** 1000 or abs(x) < Fraction(1, 2 ** 1000) for x in xs):
            return False
    return True


def place_of(pairs, v):
    """where a value goes in rising bins given as Fractions: -1 below the first edge, i = bin i, i + 1/2 = the gap after bin i,
    n above the last edge, None for NaN"""
    if v is None:
        return None
    n = len(pairs)
    if v < pairs[0][0]:
        return Fraction(-1)
    if v > pairs[-1][1]:
        return Fraction(n)
    for i, (l, r) in enumerate(pairs):
        if l <= v and (v < r or (i == n - 1 and v == r)):
            return Fraction(i)
    for i in range(n - 1):
        if pairs[i][1] <= v < pairs[i + 1][0]:
            return Fraction(2 * i + 1, 2)
    raise AssertionError((pairs, v))


def wide_weights(rng, places, kind, profile, nbins):
    """one non-negative weight per entry.  Every place (bin / underflow / overflow / gap) gets a magnitude (a power of two) of
    its own and the magnitudes of different places differ by many orders; within one place the weights are small multiples of
    that power of two, so every sum over a subset of them and of their squares is exact in double (int64) arithmetic in any
    order.  The profile says how the magnitudes run along the data axis."""
    present = sorted({p for p in places if p is not None})
    lo, hi, near = (0, 25, 3) if kind == "int" else (0, 27, 3) if kind == "int_any" else rng.choice(WIDE_RANGES)
    big = lambda: rng.randint(hi - near, hi)
    small = lambda: rng.randint(lo, lo + near)
    m = len(present)
    outside = (Fraction(-1), Fraction(nbins))
    if m == 0:
        ex = []
    elif profile in ("descending", "ascending"):
        ex = sorted([rng.randint(lo, hi) for _ in range(m)], reverse=True)
        if m >= 2:
            ex[0], ex[-1] = big(), small()
        if profile == "ascending":
            ex.reverse()
    elif profile == "alternating":
        first = rng.random() < 0.7
        ex = [big() if (j % 2 == 0) == first else small() for j in range(m)]
    elif profile == "one_huge":
        t = small()
        ex = [t] * m
        ex[rng.randrange(m) if rng.random() < 0.5 else 0] = big()
    elif profile in ("huge_outside", "tiny_outside"):
        out_e, in_e = (big, small) if profile == "huge_outside" else (small, big)
        ex = [out_e() if p in outside else in_e() for p in present]
    else:
        ex = [rng.randint(lo, hi) for _ in range(m)]
    exp_of = dict(zip(present, ex))
    ws = []
    for p in places:
        e = exp_of.get(p, 0)
        if kind == "int_any":
            # any integer below 2^(e+1): int64 sums of weights and of squares are exact whatever the bits (no double on the way)
            ws.append(Fraction(rng.randint(2 ** e // 2, 2 ** (e + 1) - 1) if rng.random() > 0.06 else 0))
            continue
        if kind == "int":
            mant = rng.choice([1, 1, 2, 3, 4])
        else:
            mant = rng.choice([1, 1, 1, 2, 3, 5, 6, 7]) * 2 ** rng.choice([0, 0, 0, 1, 2, 5])
        if rng.random() < 0.06:
            mant = 0
        ws.append(Fraction(mant) * Fraction(2) ** e)
    for p in present:
        mine = [w for w, q in zip(ws, places) if q == p]
        if kind == "int_any":
            assert sum(w * w for w in mine) < 2 ** 63 and sum(mine) < 2 ** 53, (p, ws)
        else:
            assert summable(mine, integer=(kind == "int")), (p, ws)
    return ws


class C01(Hist1Prop):
    ID = "C01"
    N_QUICK = 625
    N_THOROUGH = 25000
    RULE = ("h1() calls generated from rising bin sets (regular/irregular/gapped/tiny-gap/single bin; as edges, "
            "pairs, Static/Numpy/FixedWidth binning objects, or a method name whose reported bins are then used) x data "
            "(sizes 0-40, values on / one ulp beside every edge, in gaps, far outside, duplicates, NaN; 0-D..3-D shapes) "
            "x weights (absent, int, dyadic float, all-equal non-unit, zeros, float32) x dtype x keep_missed x dropna, "
            "plus a malformed stream (wrong weight shape, non-rising / zero-width / no bins, int dtype with float weights). "
            "every 10th case (stream:wide_weights): float64 weights that are powers of two (2^0..2^60, 2^0..2^30, 2^-60..2^60, "
            "2^-300..2^300) times small integers, or int64 weights up to 2^27 (also arbitrary integers below 2^28 whose squares need more than 53 bits), whose magnitudes differ by many orders between "
            "the bins / underflow / overflow / gaps of ONE h1() call (heavy left of light, light left of heavy, alternating, one "
            "huge, huge or tiny outside the bins) while every per-bin sum of weights and of squared weights is exactly "
            "representable: contents, errors2, underflow, overflow must equal the exact rational sums. "
            "every 10th case (stream:layouts): 1-D / 2-D / 3-D data that are not C-contiguous (Fortran order, transposed and "
            "axis-permuted views, strided and reversed views, inside Fortran buffers, DataFrame.to_numpy(), read-only) with "
            "non-uniform weights of the same shape in C order / the same layout / another layout / broadcast rows, dropna "
            "on and off, NaN present or not: the result must be that of the logical (C order) sequences of values and weights. "
            "In every case the oracle reads the values and weights from copies taken before the call and the caller's arrays "
            "must be unchanged after it. An exhaustive grid (layout x weights layout x dropna on 3x2 and 2x3x2 arrays; heavy "
            "weight in every place x 2^60 / 2^30 / int) is run on every seed. "
            "non-trivial = at least one value lands inside a bin; distinct = hash of the canonical op list")
    FIELDS = {"bins", "freq", "err2", "under", "over", "total", "dtype", "keep"}
    ASSUMPTIONS = ["weights are small dyadic numbers so every partial sum is exact in binary64 (bit-exact stream)",
                   "stream:wide_weights: sums WITHIN one bin / underflow / overflow are exact in any order (summable()); the "
                   "float sum ACROSS bins (`total`) is rounded and therefore not compared there",
                   "is_consecutive uses allclose in the code and exact equality in the model: for gaps below the "
                   "tolerance (tag tiny_gap) underflow/overflow are not compared"]

    def fields_for(self, case):
        f = self.FIELDS
        if "wide:float" in case.get("tags", []):
            # `total` adds the bin contents ACROSS bins in floating point: with contents of widely different magnitudes that
            # sum is rounded (the exact model's is not); the property is about the contents
            f = f - {"total"}
        if "tiny_gap" in case.get("tags", []):
            return f - {"under", "over"}
        return f

    # ------------------------------------------------------------------ generation
    def gen_case(self, rng, k, tier):
        if k % STREAM_EVERY == WIDE_SLOT:
            return self.gen_wide(rng)
        if k % STREAM_EVERY == LAYOUT_SLOT:
            return self.gen_layout(rng)
        return self.gen_main(rng, k, tier)

    # ---- weights of widely different magnitudes whose per-bin sums are exact
    def gen_wide(self, rng):
        kind = rng.choice(["float", "float", "float", "float", "int", "int_any"])
        profile = rng.choice(WIDE_PROFILES)
        pairs, t = gen1.rising_bins(rng, allow_gaps=rng.random() < 0.4)
        tags = [x for x in ("gapped", "tiny_gap") if t[x]]
        # explicit bins only (the reported bins must be the requested ones, so the places of the values are known here)
        b = gen1.binning_json(pairs, rng=rng)
        n = rng.choice([2, 3, 5, 8, 12, 20, 40])
        vals = gen1.values_for(rng, pairs, n, nan_share=rng.choice([0, 0, 0.1]))
        lo, hi = pairs[0][0], pairs[-1][1]
        inside = lambda p: p[0] + (p[1] - p[0]) * rng.choice([0.0, 0.25, 0.5])
        if profile in ("huge_outside", "tiny_outside"):
            # something below, something above and something inside the bins
            vals[:0] = [lo - rng.choice([0.25, 1.0]), hi + rng.choice([0.25, 1.0]), inside(rng.choice(pairs))]
        elif rng.random() < 0.7:
            # the first and the last bin (or a bin and the overflow) are hit
            vals[:0] = [inside(pairs[0]), inside(pairs[-1]) if len(pairs) > 1 else hi + 0.25]
        order = rng.choice(["shuffled", "shuffled", "ascending", "descending"])
        if order == "shuffled":
            rng.shuffle(vals)
        else:
            vals.sort(key=lambda v: (v is None, v or 0.0), reverse=order == "descending")
        vals = gen1.enc_vals(vals)
        fp = [(Fraction(l), Fraction(r)) for l, r in b["bins"]]
        places = [place_of(fp, None if v is None else Fraction(v)) for v in vals]
        ws = wide_weights(rng, places, kind, profile, len(fp))
        op = {"op": "construct", "out": 0, "binning": b, "data": vals, "weights": [rs(w) for w in ws],
              "wkind": "float64" if kind == "float" else "int64"}
        narrow = None
        if kind == "int" and rng.random() < 0.5:
            # weights that fit a NARROW integer type whose squares do not, with a WIDER histogram type asked for explicitly:
            # sums and squares are to be taken in the histogram's type (the class of fix: a289f62)
            narrow, top = rng.choice([("int16", 300), ("int16", 30000), ("int32", 70000), ("int32", 2000000)])   # (types the Lean driver knows)
            ws = [rng.randint(max(1, top // 3), top) for _ in vals]
            op["weights"] = [rs(w) for w in ws]
            op["wkind"] = narrow
        if rng.random() < 0.15:
            op["container"] = "list"
        op["keep"] = rng.random() < 0.85
        op["dropna"] = rng.random() < 0.9
        # (int_any: squared weights beyond 2^53 are exact in an int64 histogram only)
        op["dtype"] = rng.choice({"float": [None, None, None, "float64"], "int": [None, None, None, "int64", "float64"],
                                  "int_any": [None, None, "int64"]}[kind])
        if narrow:
            op["dtype"] = rng.choice(["int64", "int64", "float64"])
        return {"kind": "hist1", "ops": [op],
                "tags": tags + ["stream:wide_weights", f"wide:{kind}", f"wide_profile:{profile}", f"wide_order:{order}"]
                        + ([f"wide:narrow_weights:{narrow}"] if narrow else [])}

    # ---- memory layouts of the data and of the weights
    def _stream_bins(self, rng, tags):
        if rng.random() < 0.2:
            w = rng.choice([1.0, 0.5, 0.25, 2.0])
            tmin, cnt = rng.randint(-4, 4), rng.randint(1, 5)
            tags.append("fixed_width_obj")
            return gen1.fixed_json(w, tmin, cnt), [[(tmin + i) * w, (tmin + i + 1) * w] for i in range(cnt)]
        pairs, t = gen1.rising_bins(rng, allow_gaps=rng.random() < 0.5)
        tags += [x for x in ("gapped", "tiny_gap") if t[x]]
        return gen1.binning_json(pairs, rng=rng), pairs

    def gen_layout(self, rng):
        tags = ["stream:layouts"]
        b, pairs = self._stream_bins(rng, tags)
        r = rng.random()
        if r < 0.1:
            shape = [rng.choice([3, 5, 8, 12])]
        elif r < 0.6:
            shape = [rng.choice([1, 2, 2, 3, 4, 5, 6]), rng.choice([1, 2, 2, 3, 4, 5])]
        else:
            shape = [rng.choice([1, 2, 2, 3, 4]) for _ in range(3)]
        n = 1
        for d in shape:
            n *= d
        dropna = rng.random() < 0.5
        nan_share = rng.choice([0, 0, 0.15]) if dropna else rng.choice([0] * 7 + [0.1])
        vals = gen1.values_for(rng, pairs, n, nan_share=nan_share)
        wkind = rng.choice(["dyadic"] * 4 + ["int"] * 2 + ["f32", "rows", "other", "other"])
        if wkind == "dyadic":
            ws, wk = [rng.randint(1, 64) / 4 for _ in range(n)], "float64"
        elif wkind == "int":
            ws, wk = [rng.randint(0, 50) for _ in range(n)], "int64"
        elif wkind == "f32":
            ws, wk = [rng.randint(0, 32) / 8 for _ in range(n)], "float32"
        elif wkind == "rows" and len(shape) >= 2:
            row = [rng.randint(1, 64) / 4 for _ in range(n // shape[0])]       # the same weights for every row (first axis)
            ws, wk = row * shape[0], "float64"
        else:
            ws, wk = gen1.weights_for(rng, n)
        nd = len(shape)
        dl = rng.choice(layouts_for(nd)) if rng.random() < 0.88 else "C"
        r = rng.random()
        if wkind == "rows" and nd >= 2 and r < 0.6:
            wl = "bcast0"
        elif r < 0.35:
            wl = "C"
        elif r < 0.7:
            wl = dl
        else:
            wl = rng.choice(layouts_for(nd))
        op = {"op": "construct", "out": 0, "binning": b, "data": gen1.enc_vals(vals),
              "weights": None if ws is None else [rs(w) for w in ws], "wkind": wk, "dlayout": dl, "wlayout": wl}
        if nd >= 2:
            op["shape"] = shape
        if nd == 3:
            op["dperm"] = rng.choice(PERMS_3D)
            op["wperm"] = op["dperm"] if (wl == dl and rng.random() < 0.7) else rng.choice(PERMS_3D)
        if rng.random() < 0.15:
            op["frozen"] = True
            tags.append("layout:read_only")
        op["keep"] = rng.random() < 0.8
        op["dropna"] = dropna
        op["dtype"] = rng.choice([None] * 9 + ["float64"])
        tags += [f"layout_ndim:{nd}", "layout_dropna:" + ("on" if dropna else "off")]
        return {"kind": "hist1", "ops": [op], "tags": tags}

    # ---- the cases run on every seed: a grid over the layouts, and a heavy weight in every place
    def exhaustive_cases(self, tier):
        out = []
        edges = gen1.binning_json([[0.0, 1.0], [1.0, 2.0], [2.0, 3.0]], form="edges")
        base = {"op": "construct", "out": 0, "binning": edges, "keep": True, "dtype": None, "wkind": "float64"}
        grids = [([3, 2], [0.5, 2.5, 1.5, -0.5, 2.6, 3.5], [1, 2, 3.5, 4, 5.25, 6]),
                 ([2, 3, 2], [0.5, 2.5, 1.5, -0.5, 2.6, 3.5, 1.0, 3.0, 0.25, 2.25, 1.75, 0.0],
                  [1, 2, 3.5, 4, 5.25, 6, 7, 8.5, 9, 10, 11.75, 12])]
        for shape, vals, ws in grids:
            nd = len(shape)
            combos = [(dl, None) for dl in sorted(set(layouts_for(nd)) - {"perm"})] + \
                     ([("perm", p) for p in PERMS_3D] if nd == 3 else [])
            for dl, perm in combos:
                for wl in ("C", dl, "F"):
                    for dropna in (True, False):
                        op = dict(base, data=gen1.enc_vals(vals), weights=[rs(w) for w in ws], shape=shape, dlayout=dl,
                                  wlayout=wl, dropna=dropna)
                        if perm:
                            op["dperm"] = op["wperm"] = perm
                        out.append({"kind": "hist1", "ops": [op], "tags": ["grid:layouts"]})
        spots = [-1.0, 0.5, 1.5, 2.5, 4.0]                     # underflow, the three bins, overflow
        light = [0.25, 0.75, 1.25, 1.5, 2.25, -0.5, 3.5]
        for heavy, wk in ((2 ** 60, "float64"), (2 ** 30, "float64"), (3 * 2 ** 27, "int64")):
            for spot in spots:
                for order in ("ascending", "descending"):
                    fp = [(Fraction(l), Fraction(r)) for l, r in edges["bins"]]
                    where = lambda v: place_of(fp, Fraction(v))
                    pts = [(spot, heavy)] + [(v, j + 1) for j, v in enumerate(light) if where(v) != where(spot)]
                    for q in {where(v) for v, _ in pts}:
                        assert summable([w for v, w in pts if where(v) == q], integer=wk == "int64")
                    pts.sort(key=lambda p: p[0], reverse=order == "descending")
                    op = dict(base, data=gen1.enc_vals([p[0] for p in pts]), weights=[rs(p[1]) for p in pts], wkind=wk,
                              dropna=True)
                    kind = "float" if wk == "float64" else "int"
                    out.append({"kind": "hist1", "ops": [op], "tags": ["grid:wide_weights", f"wide:{kind}"]})
        return out

    # ---- the older streams
    def gen_main(self, rng, k, tier):
        tags = []
        op = {"op": "construct", "out": 0}
        malformed = rng.random() < 0.12
        kind = rng.choice(["static"] * 6 + ["fixed", "fixed", "method"])
        if kind == "static":
            pairs, t = gen1.rising_bins(rng)
            if t["gapped"]:
                tags.append("gapped")
            if t["tiny_gap"]:
                tags.append("tiny_gap")
            op["binning"] = gen1.binning_json(pairs, rng=rng)
        elif kind == "fixed":
            w = rng.choice([1.0, 0.5, 0.25, 2.0, 0.1, 0.3])
            tmin = rng.randint(-5, 5)
            cnt = rng.randint(1, 6)
            shift = rng.choice([0.0, 0.0, 0.5 * w])
            op["binning"] = gen1.fixed_json(w, tmin, cnt, shift)
            pairs = [[(tmin + i) * w + shift, (tmin + i + 1) * w + shift] for i in range(cnt)]
            tags.append("fixed_width_obj")
        else:
            pairs, _ = gen1.rising_bins(rng, allow_gaps=False)
            m = rng.choice(["int", "fixed_width", "integer", "pretty", "quantile"])
            spec = {"method": m}
            if m == "int":
                spec["n"] = rng.randint(1, 8)
            if m == "fixed_width":
                spec["bin_width"] = rng.choice([0.5, 0.25, 1.0, 0.1])
            if m == "quantile":
                spec["bin_count"] = rng.randint(1, 4)
            op["binspec"] = spec
            op["binning"] = None
            tags.append("method:" + m)
        n = rng.choice([0, 1, 2, 3, 5, 8, 12, 20, 40])
        vals = gen1.values_for(rng, pairs, n, nan_share=rng.choice([0, 0.1, 0.3]))
        if kind == "method":
            if n < 3:
                vals = gen1.values_for(rng, pairs, 5, nan_share=0)
            vals = [v for v in vals if v is not None and abs(v) < 1e6]
            if len(set(vals)) < 2:
                vals = [pairs[0][0], pairs[-1][1], (pairs[0][0] + pairs[-1][1]) / 2]
        n = len(vals)
        op["data"] = gen1.enc_vals(vals)
        ws, wk = gen1.weights_for(rng, n)
        op["weights"] = None if ws is None else [rs(w) for w in ws]
        op["wkind"] = wk
        # shapes: reshape to 2-D / 3-D when the size allows
        if n >= 4 and n % 2 == 0 and rng.random() < 0.3:
            op["shape"] = [2, n // 2] if (n % 4 or rng.random() < 0.5) else [2, 2, n // 4]
            tags.append("nd_shape")
            if rng.random() < 0.5:
                op["worder"] = "F"; tags.append("weights_F_order")
            if rng.random() < 0.3:
                op["dorder"] = "F"; tags.append("data_F_order")
        elif n == 1 and rng.random() < 0.3:
            op["shape"] = []
            if ws is not None:
                op["wshape"] = []
            tags.append("0d")
        if rng.random() < 0.2:
            op["container"] = "list"
        op["keep"] = rng.random() < 0.8
        op["dropna"] = rng.random() < 0.85
        dt = rng.choice([None] * 6 + ["int64", "int32", "float64", "float32", "int16"])
        op["dtype"] = dt
        if malformed:
            what = rng.choice(["wshape", "unsorted", "zero_width", "overlap", "nobins"])
            tags.append("malformed:" + what)
            if what == "wshape":
                base = ws if ws is not None else [1] * n
                op["weights"] = [rs(w) for w in base] + ["1"]
                op["wkind"] = wk or "int64"
                op.pop("shape", None); op.pop("wshape", None)
            elif kind == "static" and len(pairs) >= 2 and what in ("unsorted", "overlap"):
                b = op["binning"]["bins"]
                if what == "unsorted":
                    b[0], b[-1] = b[-1], b[0]
                else:
                    b[1] = [b[0][0], b[1][1]]
                op["binning"]["form"] = "pairs"
            elif kind == "static" and what == "zero_width":
                b = op["binning"]["bins"]
                b[-1] = [b[-1][0], b[-1][0]]
                op["binning"]["form"] = "pairs"
            elif kind == "static" and what == "nobins":
                op["binning"]["bins"] = []
                op["binning"]["form"] = "pairs"
            else:
                tags.remove("malformed:" + what)
        return {"kind": "hist1", "ops": [op], "tags": tags}

    # ------------------------------------------------------------------ implementation / model
    @staticmethod
    def build_inputs(op):
        """the data and the weights as the caller holds them (container, shape, memory layout, read-only flag)"""
        from .. import impl1
        shape = op.get("shape")
        data = impl1.arr(op["data"], shape=shape)
        if shape == [] and data.size == 1 and op.get("container") != "list":
            data = data.reshape(())                 # a 0-d array (as a list: the one-element list; a bare scalar is no array)
        if op.get("container") == "list":
            data = data.tolist()
        w = op.get("weights")
        if w is not None:
            wshape = op.get("wshape", shape)
            w = impl1.arr(w, np.dtype(op.get("wkind") or "float64"), wshape)
            if wshape == [] and w.size == 1 and op.get("container") != "list":
                w = w.reshape(())
        data, w = impl1.memory_order(op, data, w)
        if op.get("dlayout"):
            data = relayout(data, op["dlayout"], op.get("dperm"))
        if op.get("wlayout") and w is not None:
            w = relayout(w, op["wlayout"], op.get("wperm"))
        if op.get("frozen"):
            for x in (data, w):
                if isinstance(x, np.ndarray):
                    x.setflags(write=False)
        return data, w

    def run_impl(self, case):
        """one h1() call; the values / weights the oracle reasons about are read from copies taken BEFORE the call, and the
        caller's objects are compared with those copies after it"""
        from .. import impl1
        from physt import h1
        op = case["ops"][0]
        data, w = self.build_inputs(op)
        before = (_describe(data), _describe(w))
        seen = {"data": _flat(before[0]), "weights": _flat(before[1])}
        # the harness's own consistency: what was built is what the case says (logical order)
        as_f = lambda xs: None if xs is None else [None if x is None else Fraction(x) for x in xs]
        if as_f(seen["data"]) != as_f(op["data"]) or as_f(seen["weights"]) != as_f(op.get("weights")):
            raise RuntimeError("harness: the arrays built for the call differ from the case's lists")
        spec = op.get("binspec")
        kw = {}
        log = []
        try:
            with warnings.catch_warnings():
                warnings.simplefilter("ignore")
                if spec:        # bins chosen by physt from a method name: the reported bins are handed to the model
                    m = spec["method"]
                    bins = spec["n"] if m == "int" else m
                    if m == "fixed_width":
                        kw["bin_width"] = spec["bin_width"]
                    if m == "quantile":
                        kw["bin_count"] = spec["bin_count"]
                else:
                    bins = impl1.mk_binning(op["binning"])
                h = h1(data, bins, weights=w, dtype=impl1.np_dtype(op.get("dtype")), keep_missed=op.get("keep", True),
                       dropna=op.get("dropna", True), **kw)
            out = {"ret": "ok", "regs": [impl1.snap1(h)]}
        except Exception as e:      # a refused call: the exception class is recorded, never compared
            log.append(f"construct: {type(e).__name__}: {e}"[:200])
            out = {"ret": "REFUSED", "regs": []}
        seen["changed"] = _changed(data, before[0], "data") + _changed(w, before[1], "weights")
        out["_inputs"] = seen
        return {"outs": [out], "log": log}

    def model_case(self, case, io):
        op = case["ops"][0]
        if op.get("binspec"):
            regs = io["outs"][0]["regs"]
            if not regs:
                return None   # physt refused to derive bins from this data: nothing to compare
            import copy
            c = copy.deepcopy(case)
            snap = regs[0]
            c["ops"][0]["binning"] = {"t": "static", "bins": snap["bins"], "ire": snap["binning"]["ire"]}
            return c
        return case

    # ------------------------------------------------------------------ oracle (independent restatement)
    def oracle(self, case, io):
        op = case["ops"][0]
        out = io["outs"][0]
        fails = []
        n = len(op["data"])
        ws = op["weights"]
        malformed = [t for t in case.get("tags", []) if t.startswith("malformed:")]
        wshape_bad = ws is not None and len(ws) != n
        has_nan = any(v is None for v in op["data"])
        dt = op.get("dtype")
        float_w = ws is not None and (op.get("wkind") or "").startswith("float")
        int_dt_float_w = dt is not None and dt.startswith("int") and float_w
        must_refuse = bool(malformed) or wshape_bad or int_dt_float_w or (has_nan and not op.get("dropna", True))
        seen = out.get("_inputs") or {}
        if seen.get("changed"):
            fails.append("inputs_changed: the caller's arrays are not what they were before the call: " + "; ".join(seen["changed"])[:400])
            return fails
        if out["ret"] == "REFUSED":
            if not must_refuse and not op.get("binspec"):
                fails.append("refused_valid: a valid h1() call was refused: " + "; ".join(io["log"]))
            return fails
        if must_refuse:
            fails.append(f"accepted_invalid: an invalid specification was accepted ({malformed or 'weights/dtype/NaN'})")
            return fails
        snap = out["regs"][0]
        bins = [(Fraction(l), Fraction(r)) for l, r in snap["bins"]]
        if op.get("binning") and op["binning"]["t"] == "static":
            req = [(Fraction(l), Fraction(r)) for l, r in op["binning"]["bins"]]
            if req != bins:
                fails.append("bins_changed: reported bins differ from the explicit specification")
                return fails
        # values and weights paired by position, read from the copies taken before the call (logical order)
        vs_seen = seen.get("data", op["data"])
        ws_seen = seen.get("weights", ws)
        pts = [(Fraction(v), Fraction(ws_seen[i]) if ws_seen is not None else Fraction(1))
               for i, v in enumerate(vs_seen) if v is not None]
        nb = len(bins)
        for i, (l, r) in enumerate(bins):
            inb = [w for v, w in pts if l <= v and (v < r or (i == nb - 1 and v == r))]
            if Fraction(snap["freq"][i]) != sum(inb, Fraction(0)):
                fails.append(f"content: bin {i} [{l},{r}) holds {snap['freq'][i]}, the data give {sum(inb, Fraction(0))}")
            if Fraction(snap["err2"][i]) != sum((w * w for w in inb), Fraction(0)):
                fails.append(f"errors2: bin {i} has {snap['err2'][i]}, sum of squared weights is {sum((w*w for w in inb), Fraction(0))}")
        consecutive = all(bins[i][1] == bins[i + 1][0] for i in range(nb - 1))
        tiny = "tiny_gap" in case.get("tags", [])
        keep = op.get("keep", True)
        if not keep:
            if snap["under"] is not None or snap["over"] is not None:
                fails.append("keep_off: under/overflow reported although keep_missed=False")
        elif consecutive:
            u = sum((w for v, w in pts if v < bins[0][0]), Fraction(0))
            o = sum((w for v, w in pts if v > bins[-1][1]), Fraction(0))
            if snap["under"] is None or Fraction(snap["under"]) != u:
                fails.append(f"underflow: reported {snap['under']}, weight below the first edge is {u}")
            if snap["over"] is None or Fraction(snap["over"]) != o:
                fails.append(f"overflow: reported {snap['over']}, weight above the last edge is {o}")
            if snap["under"] is not None and snap["over"] is not None and "wide:float" not in case.get("tags", []):
                # (`total` is a float sum across bins: rounded when the contents differ by many orders of magnitude)
                if Fraction(snap["total"]) + Fraction(snap["under"]) + Fraction(snap["over"]) != sum((w for _, w in pts), Fraction(0)):
                    fails.append("accounting: total + underflow + overflow != total input weight")
        elif not tiny:
            if snap["under"] is not None or snap["over"] is not None:
                fails.append(f"gaps_unknown: non-consecutive bins but under/overflow read {snap['under']}/{snap['over']} instead of unknown")
        if snap["_freq_dtype"] != snap["dtype"] or snap["_err2_dtype"] != snap["dtype"]:
            fails.append("dtype: reported dtype differs from the arrays'")
        return fails

    # ------------------------------------------------------------------ shrinking / neighbours
    @staticmethod
    def _well_shaped(op):
        shape = op.get("shape")
        if not shape or "wshape" in op:
            return False
        n = 1
        for d in shape:
            n *= d
        return n == len(op["data"]) and (op.get("weights") is None or len(op["weights"]) == n)

    def shrink_candidates(self, case):
        op = case["ops"][0]
        # simpler layouts first, then smaller arrays (a whole slice along one axis, values and weights together)
        for key, simpler in (("frozen", [None]), ("dlayout", ["C", "F"]), ("wlayout", ["C", "F"]), ("dorder", [None]), ("worder", [None])):
            for v in simpler:
                if op.get(key) and op.get(key) != v and not (v == "F" and op.get(key) in ("C", "T", "bcast0")):
                    c = copy.deepcopy(case)
                    if v is None:
                        del c["ops"][0][key]
                    else:
                        c["ops"][0][key] = v
                    yield c
        if self._well_shaped(op):
            shape = op["shape"]
            for ax in range(len(shape)):
                for i in range(shape[ax]):
                    if shape[ax] <= 1:
                        continue
                    c = copy.deepcopy(case)
                    o = c["ops"][0]
                    for key in ("data", "weights"):
                        if o.get(key) is None:
                            continue
                        a = np.empty(len(o[key]), dtype=object)
                        a[:] = o[key]
                        o[key] = np.delete(a.reshape(shape), i, axis=ax).flatten().tolist()
                    o["shape"] = [d - 1 if j == ax else d for j, d in enumerate(shape)]
                    yield c
            if all(d == 1 for d in shape[:-1]) or all(d == 1 for d in shape[1:]):
                c = copy.deepcopy(case)         # a single row / column: the 1-D array
                o = c["ops"][0]
                for key in ("shape", "dperm", "wperm"):
                    o.pop(key, None)
                for key in ("dlayout", "wlayout"):
                    if o.get(key) not in (None, "C", "strided", "rev"):
                        o[key] = "C"
                yield c
        yield from super().shrink_candidates(case)

    def neighbours(self, case):
        """around a case on which model and implementation differ: the same values / weights in the other layouts and with
        dropna the other way round (NaNs taken out when it is off), in other orders"""
        op = case["ops"][0]
        n = len(op["data"])
        if op.get("weights") is not None and len(op["weights"]) != n:
            return
        finite = [i for i, v in enumerate(op["data"]) if v is not None]
        for order in ("reversed", "ascending", "descending"):
            if op.get("shape"):
                break
            idx = list(range(n))
            if order == "reversed":
                idx.reverse()
            else:
                idx.sort(key=lambda i: (op["data"][i] is None, Fraction(op["data"][i] or 0)), reverse=order == "descending")
            c = copy.deepcopy(case)
            o = c["ops"][0]
            o["data"] = [op["data"][i] for i in idx]
            if op.get("weights") is not None:
                o["weights"] = [op["weights"][i] for i in idx]
            yield c
        if self._well_shaped(op) and len(op["shape"]) >= 2:
            nd = len(op["shape"])
            for dl in ["C"] + sorted(set(layouts_for(nd))):
                for wl in ("C", dl):
                    for dropna in (True, False):
                        c = copy.deepcopy(case)
                        o = c["ops"][0]
                        o.pop("dorder", None); o.pop("worder", None); o.pop("container", None)
                        o.update(dlayout=dl, wlayout=wl, dropna=dropna)
                        if not dropna and len(finite) < n:
                            if not finite:
                                continue
                            o["data"] = [v if v is not None else op["data"][finite[0]] for v in op["data"]]
                        yield c

    def nontrivial(self, case, io):
        out = io["outs"][0]
        return out["ret"] == "ok" and any(Fraction(x) != 0 for x in out["regs"][0]["freq"])

    def tags(self, case, io):
        t = super().tags(case, io)
        op = case["ops"][0]
        t.append("n:" + str(min(len(op["data"]), 40) // 10 * 10))
        t.append("weights:" + str(op.get("wkind")))
        if op.get("dlayout"):       # (read off the op, so that they stay right for shrunk cases)
            dl, wl = op["dlayout"], op.get("wlayout")
            t.append(f"dlayout:{dl}")
            t.append("wlayout:" + ("none" if op.get("weights") is None else "same" if (wl == dl and wl != "C") else str(wl)))
        if op.get("binning"):
            t.append("form:" + str(op["binning"].get("form", op["binning"]["t"])))
        return t


PROP = C01()

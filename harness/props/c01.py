"""C01 — 1D construction: each value counted once, in the bin that contains it."""
from __future__ import annotations

from fractions import Fraction

import numpy as np

from .. import gen1
from ..core import rs
from .base1 import Hist1Prop


class C01(Hist1Prop):
    ID = "C01"
    N_QUICK = 500
    N_THOROUGH = 20000
    RULE = ("h1() calls generated from rising bin sets (regular/irregular/gapped/tiny-gap/single bin; as edges, "
            "pairs, Static/Numpy/FixedWidth binning objects, or a method name whose reported bins are then used) x data "
            "(sizes 0-40, values on / one ulp beside every edge, in gaps, far outside, duplicates, NaN; 0-D..3-D shapes) "
            "x weights (absent, int, dyadic float, all-equal non-unit, zeros, float32) x dtype x keep_missed x dropna, "
            "plus a malformed stream (wrong weight shape, non-rising / zero-width / no bins, int dtype with float weights). "
            "non-trivial = at least one value lands inside a bin; distinct = hash of the canonical op list")
    FIELDS = {"bins", "freq", "err2", "under", "over", "total", "dtype", "keep"}
    ASSUMPTIONS = ["weights are small dyadic numbers so every partial sum is exact in binary64 (bit-exact stream)",
                   "is_consecutive uses allclose in the code and exact equality in the model: for gaps below the "
                   "tolerance (tag tiny_gap) underflow/overflow are not compared"]

    def fields_for(self, case):
        if "tiny_gap" in case.get("tags", []):
            return self.FIELDS - {"under", "over"}
        return self.FIELDS

    # ------------------------------------------------------------------ generation
    def gen_case(self, rng, k, tier):
        tags = []
        op = {"op": "construct", "out": 0}
        malformed = rng.random() < 0.12
        kind = rng.choice(["static"] * 6 + ["fixed", "fixed", "method"])
        if kind == "static":
            pairs, t = gen1.rising_bins(rng)
            if t["gapped"]:
                tags.append("gapped")
            if t["tiny_gap"]:
                tags.append("tiny_gap")
            op["binning"] = gen1.binning_json(pairs, rng=rng)
        elif kind == "fixed":
            w = rng.choice([1.0, 0.5, 0.25, 2.0, 0.1, 0.3])
            tmin = rng.randint(-5, 5)
            cnt = rng.randint(1, 6)
            shift = rng.choice([0.0, 0.0, 0.5 * w])
            op["binning"] = gen1.fixed_json(w, tmin, cnt, shift)
            pairs = [[(tmin + i) * w + shift, (tmin + i + 1) * w + shift] for i in range(cnt)]
            tags.append("fixed_width_obj")
        else:
            pairs, _ = gen1.rising_bins(rng, allow_gaps=False)
            m = rng.choice(["int", "fixed_width", "integer", "pretty", "quantile"])
            spec = {"method": m}
            if m == "int":
                spec["n"] = rng.randint(1, 8)
            if m == "fixed_width":
                spec["bin_width"] = rng.choice([0.5, 0.25, 1.0, 0.1])
            if m == "quantile":
                spec["bin_count"] = rng.randint(1, 4)
            op["binspec"] = spec
            op["binning"] = None
            tags.append("method:" + m)
        n = rng.choice([0, 1, 2, 3, 5, 8, 12, 20, 40])
        vals = gen1.values_for(rng, pairs, n, nan_share=rng.choice([0, 0.1, 0.3]))
        if kind == "method":
            if n < 3:
                vals = gen1.values_for(rng, pairs, 5, nan_share=0)
            vals = [v for v in vals if v is not None and abs(v) < 1e6]
            if len(set(vals)) < 2:
                vals = [pairs[0][0], pairs[-1][1], (pairs[0][0] + pairs[-1][1]) / 2]
        n = len(vals)
        op["data"] = gen1.enc_vals(vals)
        ws, wk = gen1.weights_for(rng, n)
        op["weights"] = None if ws is None else [rs(w) for w in ws]
        op["wkind"] = wk
        # shapes: reshape to 2-D / 3-D when the size allows
        if n >= 4 and n % 2 == 0 and rng.random() < 0.3:
            op["shape"] = [2, n // 2] if (n % 4 or rng.random() < 0.5) else [2, 2, n // 4]
            tags.append("nd_shape")
            if rng.random() < 0.5:
                op["worder"] = "F"; tags.append("weights_F_order")
            if rng.random() < 0.3:
                op["dorder"] = "F"; tags.append("data_F_order")
        elif n == 1 and rng.random() < 0.3:
            op["shape"] = []
            if ws is not None:
                op["wshape"] = []
            tags.append("0d")
        if rng.random() < 0.2:
            op["container"] = "list"
        op["keep"] = rng.random() < 0.8
        op["dropna"] = rng.random() < 0.85
        dt = rng.choice([None] * 6 + ["int64", "int32", "float64", "float32", "int16"])
        op["dtype"] = dt
        if malformed:
            what = rng.choice(["wshape", "unsorted", "zero_width", "overlap", "nobins"])
            tags.append("malformed:" + what)
            if what == "wshape":
                base = ws if ws is not None else [1] * n
                op["weights"] = [rs(w) for w in base] + ["1"]
                op["wkind"] = wk or "int64"
                op.pop("shape", None); op.pop("wshape", None)
            elif kind == "static" and len(pairs) >= 2 and what in ("unsorted", "overlap"):
                b = op["binning"]["bins"]
                if what == "unsorted":
                    b[0], b[-1] = b[-1], b[0]
                else:
                    b[1] = [b[0][0], b[1][1]]
                op["binning"]["form"] = "pairs"
            elif kind == "static" and what == "zero_width":
                b = op["binning"]["bins"]
                b[-1] = [b[-1][0], b[-1][0]]
                op["binning"]["form"] = "pairs"
            elif kind == "static" and what == "nobins":
                op["binning"]["bins"] = []
                op["binning"]["form"] = "pairs"
            else:
                tags.remove("malformed:" + what)
        return {"kind": "hist1", "ops": [op], "tags": tags}

    # ------------------------------------------------------------------ implementation / model
    def run_impl(self, case):
        op = case["ops"][0]
        if op.get("binspec"):
            return self._run_method(case)
        return super().run_impl(case)

    def _run_method(self, case):
        """bins chosen by physt from a method name: run it, report, hand the reported bins to the model"""
        import warnings
        from .. import impl1
        from physt import h1
        op = case["ops"][0]
        spec = op["binspec"]
        data = impl1.arr(op["data"], shape=op.get("shape"))
        w = op.get("weights")
        if w is not None:
            w = impl1.arr(w, np.dtype(op.get("wkind") or "float64"), op.get("wshape", op.get("shape")))
        data, w = impl1.memory_order(op, data, w)
        kw = {}
        m = spec["method"]
        bins = spec["n"] if m == "int" else m
        if m == "fixed_width":
            kw["bin_width"] = spec["bin_width"]
        if m == "quantile":
            kw["bin_count"] = spec["bin_count"]
        log = []
        try:
            with warnings.catch_warnings():
                warnings.simplefilter("ignore")
                h = h1(data, bins, weights=w, dtype=impl1.np_dtype(op.get("dtype")), keep_missed=op.get("keep", True),
                       dropna=op.get("dropna", True), **kw)
            return {"outs": [{"ret": "ok", "regs": [impl1.snap1(h)]}], "log": log}
        except Exception as e:
            log.append(f"{type(e).__name__}: {e}"[:200])
            return {"outs": [{"ret": "REFUSED", "regs": []}], "log": log}

    def model_case(self, case, io):
        op = case["ops"][0]
        if op.get("binspec"):
            regs = io["outs"][0]["regs"]
            if not regs:
                return None   # physt refused to derive bins from this data: nothing to compare
            import copy
            c = copy.deepcopy(case)
            snap = regs[0]
            c["ops"][0]["binning"] = {"t": "static", "bins": snap["bins"], "ire": snap["binning"]["ire"]}
            return c
        return case

    # ------------------------------------------------------------------ oracle (independent restatement)
    def oracle(self, case, io):
        op = case["ops"][0]
        out = io["outs"][0]
        fails = []
        n = len(op["data"])
        ws = op["weights"]
        malformed = [t for t in case.get("tags", []) if t.startswith("malformed:")]
        wshape_bad = ws is not None and len(ws) != n
        has_nan = any(v is None for v in op["data"])
        dt = op.get("dtype")
        float_w = ws is not None and (op.get("wkind") or "").startswith("float")
        int_dt_float_w = dt is not None and dt.startswith("int") and float_w
        must_refuse = bool(malformed) or wshape_bad or int_dt_float_w or (has_nan and not op.get("dropna", True))
        if out["ret"] == "REFUSED":
            if not must_refuse and not op.get("binspec"):
                fails.append("refused_valid: a valid h1() call was refused: " + "; ".join(io["log"]))
            return fails
        if must_refuse:
            fails.append(f"accepted_invalid: an invalid specification was accepted ({malformed or 'weights/dtype/NaN'})")
            return fails
        snap = out["regs"][0]
        bins = [(Fraction(l), Fraction(r)) for l, r in snap["bins"]]
        if op.get("binning") and op["binning"]["t"] == "static":
            req = [(Fraction(l), Fraction(r)) for l, r in op["binning"]["bins"]]
            if req != bins:
                fails.append("bins_changed: reported bins differ from the explicit specification")
                return fails
        pts = [(Fraction(v), Fraction(ws[i]) if ws is not None else Fraction(1))
               for i, v in enumerate(op["data"]) if v is not None]
        nb = len(bins)
        for i, (l, r) in enumerate(bins):
            inb = [w for v, w in pts if l <= v and (v < r or (i == nb - 1 and v == r))]
            if Fraction(snap["freq"][i]) != sum(inb, Fraction(0)):
                fails.append(f"content: bin {i} [{l},{r}) holds {snap['freq'][i]}, the data give {sum(inb, Fraction(0))}")
            if Fraction(snap["err2"][i]) != sum((w * w for w in inb), Fraction(0)):
                fails.append(f"errors2: bin {i} has {snap['err2'][i]}, sum of squared weights is {sum((w*w for w in inb), Fraction(0))}")
        consecutive = all(bins[i][1] == bins[i + 1][0] for i in range(nb - 1))
        tiny = "tiny_gap" in case.get("tags", [])
        keep = op.get("keep", True)
        if not keep:
            if snap["under"] is not None or snap["over"] is not None:
                fails.append("keep_off: under/overflow reported although keep_missed=False")
        elif consecutive:
            u = sum((w for v, w in pts if v < bins[0][0]), Fraction(0))
            o = sum((w for v, w in pts if v > bins[-1][1]), Fraction(0))
            if snap["under"] is None or Fraction(snap["under"]) != u:
                fails.append(f"underflow: reported {snap['under']}, weight below the first edge is {u}")
            if snap["over"] is None or Fraction(snap["over"]) != o:
                fails.append(f"overflow: reported {snap['over']}, weight above the last edge is {o}")
            if snap["under"] is not None and snap["over"] is not None:
                if Fraction(snap["total"]) + Fraction(snap["under"]) + Fraction(snap["over"]) != sum((w for _, w in pts), Fraction(0)):
                    fails.append("accounting: total + underflow + overflow != total input weight")
        elif not tiny:
            if snap["under"] is not None or snap["over"] is not None:
                fails.append(f"gaps_unknown: non-consecutive bins but under/overflow read {snap['under']}/{snap['over']} instead of unknown")
        if snap["_freq_dtype"] != snap["dtype"] or snap["_err2_dtype"] != snap["dtype"]:
            fails.append("dtype: reported dtype differs from the arrays'")
        return fails

    def nontrivial(self, case, io):
        out = io["outs"][0]
        return out["ret"] == "ok" and any(Fraction(x) != 0 for x in out["regs"][0]["freq"])

    def tags(self, case, io):
        t = super().tags(case, io)
        op = case["ops"][0]
        t.append("n:" + str(min(len(op["data"]), 40) // 10 * 10))
        t.append("weights:" + str(op.get("wkind")))
        if op.get("binning"):
            t.append("form:" + str(op["binning"].get("form", op["binning"]["t"])))
        return t


PROP = C01()

"""C15 — transformed histograms bin points by their true coordinates."""
from __future__ import annotations

import copy
import math
import warnings
from fractions import Fraction

import numpy as np

from .. import gen1, implnd, impl1
from ..core import nrs, rs, run_model
from ..runner import diff_outputs
from .c16 import KIND, axis_edges

warnings.simplefilter("ignore")

SRC_DIM = {"RadialHistogram": (2, 3), "AzimuthalHistogram": (2,), "PolarHistogram": (2,), "SphericalSurfaceHistogram": (3,),
           "SphericalHistogram": (3,), "CylindricalHistogram": (3,), "CylindricalSurfaceHistogram": (3,)}
TWO_PI = 2 * math.pi


def py_transform(klass, p):
    """independent restatement: true coordinates of a Cartesian point"""
    if klass == "RadialHistogram":
        return [math.hypot(*p)] if len(p) == 2 else [math.hypot(math.hypot(p[0], p[1]), p[2])]
    phi = math.atan2(p[1], p[0]) % TWO_PI
    if klass == "AzimuthalHistogram":
        return [phi]
    if klass == "PolarHistogram":
        return [math.hypot(p[0], p[1]), phi]
    rho = math.hypot(p[0], p[1])
    theta = math.atan2(rho, p[2]) % TWO_PI
    if klass == "SphericalSurfaceHistogram":
        return [theta, phi]
    if klass == "SphericalHistogram":
        return [math.hypot(rho, p[2]), theta, phi]
    if klass == "CylindricalHistogram":
        return [rho, phi, p[2]]
    if klass == "CylindricalSurfaceHistogram":
        return [phi, p[2]]
    raise KeyError(klass)


def ulps(a, b):
    if a == b:
        return 0
    if math.isnan(a) or math.isnan(b):
        return 10**9
    return abs(a - b) / max(np.spacing(abs(a)), np.spacing(abs(b)))


def points(rng, dim, n):
    out = []
    for _ in range(n):
        r = rng.random()
        if r < 0.5:
            p = [rng.uniform(-3, 3) for _ in range(dim)]
        elif r < 0.7:    # on an axis / a coordinate plane
            p = [rng.choice([0.0, -0.0, rng.uniform(-3, 3)]) for _ in range(dim)]
        elif r < 0.8:
            p = [rng.choice([0.0, -0.0]) for _ in range(dim)]      # the origin with signed zeros
        elif r < 0.9:    # negative x half-axis, signed zero y
            p = [-abs(rng.uniform(0.1, 3)), rng.choice([0.0, -0.0])] + [rng.uniform(-2, 2)] * (dim - 2)
        else:
            p = [float(rng.randint(-3, 3)) for _ in range(dim)]
        out.append(p)
    return out


class C15:
    ID = "C15"
    N_QUICK = 250
    N_THOROUGH = 6000
    N_SEARCH = 250
    RULE = ("the six transformed classes (+ cylinder surface) with irregular bins in their own coordinates (full or partial "
            "angular ranges) x Cartesian points in all quadrants / octants, on axes and coordinate planes, at the origin, with "
            "signed zeros, on the negative x half-axis x entry paths: Class.transform, find_bin / fill of single points, fill_n "
            "of arrays (the same array entered twice), the same with already transformed coordinates (transformed=True), the "
            "facade function (weights, dropna) x every projection; wrong dimensionality. non-trivial = points in at least two "
            "different bins; distinct = case hash")
    ASSUMPTIONS = ["libm hypot / atan2 / cos are accurate to a few ulps; transformed coordinates are compared within 4 ulps, "
                   "bins exactly on the implementation's own coordinates"]
    EXTRA_TRUST = ["the coordinate theorems are over the real numbers with Complex.arg as atan2; floating-point evaluation is checked by correspondence"]

    def gen_case(self, rng, k, tier):
        klass = rng.choice(list(SRC_DIM))
        dim = rng.choice(SRC_DIM[klass])
        full = rng.random() < 0.6
        axes = [axis_edges(rng, kd, full) for kd in KIND[klass]]
        n = rng.choice([1, 2, 4, 8, 15])
        pts = points(rng, dim, n)
        ws = None
        if rng.random() < 0.3:
            ws = [rng.choice([1, 2, 0.5]) for _ in range(n)]
        return {"kind": "special", "class": klass, "dim": dim, "axes": [[float(x) for x in e] for e in axes], "points": pts,
                "weights": ws, "nan_row": rng.random() < 0.15, "tags": ["class:" + klass, f"dim:{dim}"]}

    # ------------------------------------------------------------------ implementation
    def run_impl(self, case):
        from physt import special_histograms as sp
        klass = getattr(sp, case["class"])
        log = []
        P = np.array(case["points"], dtype=float)
        edges = [np.array(e) for e in case["axes"]]
        nd = len(edges)

        def new():
            return klass(edges[0]) if nd == 1 else klass([e for e in edges])
        out = {}
        T = klass.transform(P)
        T = np.asarray(T, dtype=float).reshape(len(P), -1)
        out["transformed"] = [[nrs(x) for x in row] for row in T]
        out["single_transform"] = [[nrs(x) for x in np.atleast_1d(klass.transform(p))] for p in P]

        def snap(h):
            s = implnd.snapn(h)
            return {k: s[k] for k in ("freq", "err2", "missed", "shape", "_class", "names")}

        def idx(i):
            if i is None:
                return None
            return [int(j) for j in np.atleast_1d(i)] if nd > 1 else int(i)
        ws = case["weights"]
        # path A: fill one by one
        a = new(); rets_fill = []
        for j, p in enumerate(P):
            rets_fill.append(idx(a.fill(p, 1 if ws is None else ws[j])))
        # path B: find_bin on a fresh histogram (does not change it)
        b = new(); before = snap(b)
        rets_find = [idx(b.find_bin(p)) for p in P]
        out["find_changes"] = snap(b) != before
        # path C: fill_n of the whole array (weights), entered from the same ndarray twice in two histograms
        c = new(); c.fill_n(P, weights=None if ws is None else np.array(ws, dtype=float))
        c2 = new(); c2.fill_n(P, weights=None if ws is None else np.array(ws, dtype=float))
        # path D: already transformed coordinates
        d = new(); rets_t = []
        for j, t in enumerate(T):
            tv = t if nd > 1 else float(t[0])
            rets_t.append(idx(d.fill(tv, 1 if ws is None else ws[j], transformed=True)))
        e = new(); e.fill_n(T if nd > 1 else T[:, 0], weights=None if ws is None else np.array(ws, dtype=float), transformed=True)
        rets_find_t = [idx(b.find_bin(t if nd > 1 else float(t[0]), transformed=True)) for t in T]
        out.update({"fill": snap(a), "fill_n": snap(c), "fill_n_again": snap(c2), "fill_t": snap(d), "fill_n_t": snap(e),
                    "rets_fill": rets_fill, "rets_find": rets_find, "rets_fill_t": rets_t, "rets_find_t": rets_find_t})
        out["points_after"] = [[nrs(x) for x in row] for row in P]
        # facade
        try:
            out["facade"] = snap(self.facade(sp, case, P, edges))
        except Exception as ex:
            out["facade"] = None
            log.append(f"facade: {type(ex).__name__}: {ex}"[:200])
        # projections of the filled histogram
        projs = {}
        if nd > 1:
            import itertools
            for m in range(1, nd):
                for axs in itertools.combinations(range(nd), m):
                    try:
                        p = c.projection(*axs)
                        projs[",".join(map(str, axs))] = {"class": type(p).__name__, "freq": [nrs(x) for x in np.asarray(p.frequencies).ravel()],
                                                         "radius": nrs(getattr(p, "radius", float("nan"))) if type(p).__name__ == "CylindricalSurfaceHistogram" else None}
                    except Exception as ex:
                        projs[",".join(map(str, axs))] = {"class": "ERROR", "freq": [], "radius": None}
                        log.append(f"projection{axs}: {type(ex).__name__}: {ex}"[:200])
        out["projections"] = projs
        # wrong dimensionality must be refused
        bad = np.zeros((2, case["dim"] + 2))
        try:
            klass.transform(bad); out["wrong_dim"] = "accepted"
        except Exception:
            out["wrong_dim"] = "REFUSED"
        try:
            new().fill_n(bad); out["wrong_dim_fill_n"] = "accepted"
        except Exception:
            out["wrong_dim_fill_n"] = "REFUSED"
        return {"outs": out, "log": log}

    @staticmethod
    def facade(sp, case, P, edges):
        klass = case["class"]
        ws = case["weights"]
        kw = {}
        if case["nan_row"]:
            P = np.vstack([P, np.full((1, P.shape[1]), np.nan)])
            ws = None if ws is None else list(ws) + [7]
            kw["dropna"] = True
        if ws is not None:
            kw["weights"] = np.array(ws, dtype=float)
        if klass == "PolarHistogram":
            return sp.polar(P[:, 0], P[:, 1], radial_bins=edges[0], phi_bins=edges[1], **kw)
        if klass == "AzimuthalHistogram":
            return sp.azimuthal(P[:, 0], P[:, 1], bins=edges[0], **kw)
        if klass == "RadialHistogram":
            cols = [P[:, i] for i in range(P.shape[1])]
            return sp.radial(*cols, bins=edges[0], **kw)
        if klass == "SphericalHistogram":
            return sp.spherical(P, radial_bins=edges[0], theta_bins=edges[1], phi_bins=edges[2], **kw)
        if klass == "SphericalSurfaceHistogram":
            return sp.spherical_surface(P, theta_bins=edges[0], phi_bins=edges[1], **kw)
        if klass == "CylindricalHistogram":
            return sp.cylindrical(P, rho_bins=edges[0], phi_bins=edges[1], z_bins=edges[2], **kw)
        if klass == "CylindricalSurfaceHistogram":
            return sp.cylindrical_surface(P, phi_bins=edges[0], z_bins=edges[1], **kw)
        raise KeyError(klass)

    # ------------------------------------------------------------------ model: base ND histogram on the transformed coordinates
    def model_case(self, case, io):
        T = io["outs"]["transformed"]
        if any(v is None for row in T for v in row):
            return None
        nd = len(case["axes"])
        ws = case["weights"]
        axes = [{"t": "static", "bins": [[rs(e[i]), rs(e[i + 1])] for i in range(len(e) - 1)], "ire": True} for e in case["axes"]]
        wenc = None if ws is None else [rs(w) for w in ws]
        if nd == 1:
            ops = [{"op": "empty", "out": 0, "binning": axes[0]}]
            for j, row in enumerate(T):
                ops.append({"op": "fill", "h": 0, "v": row[0], "w": "1" if ws is None else wenc[j], "wk": "pyint" if ws is None or float(ws[j]).is_integer() else "pyfloat"})
            ops.append({"op": "empty", "out": 1, "binning": axes[0]})
            ops.append({"op": "fill_n", "h": 1, "vs": [r[0] for r in T], "ws": wenc, "wkind": "float64"})
            return {"kind": "hist1", "ops": ops}
        ops = [{"op": "empty", "out": 0, "axes": axes}]
        for j, row in enumerate(T):
            ops.append({"op": "fill", "h": 0, "v": row, "w": "1" if ws is None else wenc[j], "wk": "pyint" if ws is None or float(ws[j]).is_integer() else "pyfloat"})
        ops.append({"op": "empty", "out": 1, "axes": axes})
        ops.append({"op": "fill_n", "h": 1, "rows": T, "ws": wenc, "wkind": "float64"})
        return {"kind": "histn", "ops": ops}

    def diff(self, case, model_ok, io):
        o = io["outs"]
        nd = len(case["axes"])
        n = len(case["points"])
        d = []
        final = model_ok[-1]["regs"]
        for name, reg in (("fill", 0), ("fill_n", 1)):
            m = final[reg]
            if [Fraction(x) for x in m["freq"]] != [Fraction(x) for x in o[name]["freq"]]:
                d.append(f"{name}.freq: model={m['freq']} impl={o[name]['freq']}")
            if [Fraction(x) for x in m["err2"]] != [Fraction(x) for x in o[name]["err2"]]:
                d.append(f"{name}.err2: model={m['err2']} impl={o[name]['err2']}")
        rets = [model_ok[1 + j]["ret"] for j in range(n)]
        nb = len(case["axes"][0]) - 1
        for j, (a, b) in enumerate(zip(rets, o["rets_fill"])):
            a2 = (nb if a == "over" else a) if nd == 1 else a
            if a2 != b:
                d.append(f"fill return {j}: model={a} impl={b}")
        return d[:6]

    # ------------------------------------------------------------------ oracle
    def oracle(self, case, io):
        o = io["outs"]
        fails = []
        klass = case["class"]
        P = case["points"]
        for j, p in enumerate(P):
            exp = py_transform(klass, p)
            for name in ("transformed", "single_transform"):
                got = [float(Fraction(x)) if x not in (None, "inf", "-inf") else float("nan") for x in o[name][j]]
                if len(got) != len(exp) or any(ulps(a, b) > 4 for a, b in zip(got, exp)):
                    fails.append(f"transform: {klass}.transform({p}) = {got}, true coordinates {exp} ({name})")
                    break
            if fails:
                break
        for j, row in enumerate(o["transformed"]):
            vals = [float(Fraction(x)) for x in row if x is not None]
            for kd, v in zip(KIND[klass], vals):
                if kd == "r" and v < 0:
                    fails.append(f"range: r = {v} < 0")
                if kd == "phi" and not (0 <= v <= TWO_PI):
                    fails.append(f"range: phi = {v} outside [0, 2pi] for point {P[j]}")
                if kd == "theta" and not (0 <= v <= math.pi):
                    fails.append(f"range: theta = {v} outside [0, pi]")
        if o["points_after"] != [[nrs(x) for x in p] for p in P]:
            fails.append("input_modified: the caller's array of points was modified")
        if o["find_changes"]:
            fails.append("find_bin_mutates: find_bin changed the histogram")
        # all entry paths agree
        base = o["fill_n_t"]
        for name in ("fill", "fill_n", "fill_n_again", "fill_t"):
            for f in ("freq", "err2", "missed"):
                if o[name][f] != base[f]:
                    fails.append(f"paths_{f}: {name} gives {o[name][f]}, entering the transformed coordinates gives {base[f]}")
        for name in ("rets_fill", "rets_find", "rets_fill_t"):
            if o[name] != o["rets_find_t"]:
                k = next(i for i, (a, b) in enumerate(zip(o[name], o["rets_find_t"])) if a != b)
                fails.append(f"paths_index: {name}[{k}] = {o[name][k]} for point {P[k]}, find_bin of its transformed coordinates = {o['rets_find_t'][k]}")
        if o["facade"] is None:
            fails.append("facade_refused: the facade function raised: " + "; ".join(io["log"][:1]))
        else:
            for f in ("freq", "err2"):
                if o["facade"][f] != base[f]:
                    fails.append(f"facade_{f}: the facade gives {o['facade'][f]}, fill_n gives {base[f]}")
            if o["facade"]["_class"] != klass:
                fails.append(f"facade_class: {o['facade']['_class']}")
        # the bin found is the bin containing the true coordinates (independent check)
        edges = case["axes"]
        for j, p in enumerate(P):
            exp = py_transform(klass, p)
            cell = []
            ok = True
            for v, e in zip(exp, edges):
                # skip points within 4 ulps of an edge (libm tolerance)
                if any(ulps(v, x) <= 4 for x in e):
                    ok = False
                    break
                i = np.searchsorted(e, v, side="right") - 1
                cell.append(int(i) if 0 <= i < len(e) - 1 else None)
            if not ok:
                continue
            want = None if any(c is None for c in cell) else (cell if len(edges) > 1 else cell[0])
            got = o["rets_find"][j]
            if len(edges) == 1:
                got = got if got is not None and 0 <= got < len(edges[0]) - 1 else None
            if got != want:
                fails.append(f"wrong_bin: point {p} with true coordinates {exp} is put in bin {o['rets_find'][j]}, it belongs to {want}")
        # projections: class map and marginal contents
        from ..core import run_model as _rm
        PM = {("PolarHistogram", "0"): "RadialHistogram", ("PolarHistogram", "1"): "AzimuthalHistogram",
              ("SphericalHistogram", "1,2"): "SphericalSurfaceHistogram", ("SphericalHistogram", "0"): "RadialHistogram",
              ("CylindricalHistogram", "0"): "RadialHistogram", ("CylindricalHistogram", "1"): "AzimuthalHistogram",
              ("CylindricalHistogram", "0,1"): "PolarHistogram", ("CylindricalHistogram", "1,2"): "CylindricalSurfaceHistogram",
              ("CylindricalSurfaceHistogram", "0"): "AzimuthalHistogram"}
        if len(edges) > 1:
            F = np.array([Fraction(x) for x in o["fill_n"]["freq"]], dtype=object).reshape(o["fill_n"]["shape"])
            for key, pr in o["projections"].items():
                axs = [int(a) for a in key.split(",")]
                want = PM.get((klass, key), "Histogram1D" if len(axs) == 1 else ("Histogram2D" if len(axs) == 2 else "HistogramND"))
                if pr["class"] != want:
                    fails.append(f"projection_class: projection({key}) of {klass} is a {pr['class']}, expected {want}")
                drop = tuple(i for i in range(len(edges)) if i not in axs)
                if pr["class"] != "ERROR" and [Fraction(x) for x in pr["freq"]] != list(np.asarray(F.sum(axis=drop), dtype=object).ravel()):
                    fails.append(f"projection_content: projection({key}) is not the marginal")
                if pr["class"] == "CylindricalSurfaceHistogram" and float(Fraction(pr["radius"])) != edges[0][-1]:
                    fails.append(f"surface_radius: cylinder-surface projection has radius {pr['radius']}, the outer rho edge is {edges[0][-1]}")
        if o["wrong_dim"] != "REFUSED" or o["wrong_dim_fill_n"] != "REFUSED":
            fails.append("accepted_invalid: input of the wrong dimensionality accepted")
        return fails[:6]

    def nontrivial(self, case, io):
        r = [str(x) for x in io["outs"]["rets_find_t"] if x is not None]
        return len(set(r)) >= 2

    def tags(self, case, io):
        return list(case["tags"]) + (["weights"] if case["weights"] else [])

    def matches_known(self, finding, case):
        return True

    def neighbours(self, case):
        return []

    def shrink_candidates(self, case):
        for j in range(len(case["points"])):
            if len(case["points"]) <= 1:
                break
            c = copy.deepcopy(case)
            del c["points"][j]
            if c["weights"] is not None:
                del c["weights"][j]
            yield c


PROP = C15()

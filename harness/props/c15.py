"""C15 — transformed histograms bin points by their true coordinates."""
from __future__ import annotations

import bisect
import copy
import itertools
import math
import warnings
from collections import defaultdict
from fractions import Fraction

import numpy as np

from .. import gen1, implnd, impl1
from ..core import nrs, rs, run_model
from ..runner import diff_outputs
from .c16 import KIND, axis_edges

warnings.simplefilter("ignore")

SRC_DIM = {"RadialHistogram": (2, 3), "AzimuthalHistogram": (2,), "PolarHistogram": (2,), "SphericalSurfaceHistogram": (3,),
           "SphericalHistogram": (3,), "CylindricalHistogram": (3,), "CylindricalSurfaceHistogram": (3,)}
TWO_PI = 2 * math.pi


def py_transform(klass, p):
    """independent restatement: true coordinates of a Cartesian point"""
    if klass == "RadialHistogram":
        return [math.hypot(*p)] if len(p) == 2 else [math.hypot(math.hypot(p[0], p[1]), p[2])]
    phi = math.atan2(p[1], p[0]) % TWO_PI
    if klass == "AzimuthalHistogram":
        return [phi]
    if klass == "PolarHistogram":
        return [math.hypot(p[0], p[1]), phi]
    rho = math.hypot(p[0], p[1])
    theta = math.atan2(rho, p[2]) % TWO_PI
    if klass == "SphericalSurfaceHistogram":
        return [theta, phi]
    if klass == "SphericalHistogram":
        return [math.hypot(rho, p[2]), theta, phi]
    if klass == "CylindricalHistogram":
        return [rho, phi, p[2]]
    if klass == "CylindricalSurfaceHistogram":
        return [phi, p[2]]
    raise KeyError(klass)


def ulps(a, b):
    if a == b:
        return 0
    if math.isnan(a) or math.isnan(b):
        return 10**9
    return abs(a - b) / max(np.spacing(abs(a)), np.spacing(abs(b)))


def points(rng, dim, n):
    out = []
    for _ in range(n):
        r = rng.random()
        if r < 0.5:
            p = [rng.uniform(-3, 3) for _ in range(dim)]
        elif r < 0.7:    # on an axis / a coordinate plane
            p = [rng.choice([0.0, -0.0, rng.uniform(-3, 3)]) for _ in range(dim)]
        elif r < 0.8:
            p = [rng.choice([0.0, -0.0]) for _ in range(dim)]      # the origin with signed zeros
        elif r < 0.9:    # negative x half-axis, signed zero y
            p = [-abs(rng.uniform(0.1, 3)), rng.choice([0.0, -0.0])] + [rng.uniform(-2, 2)] * (dim - 2)
        else:
            p = [float(rng.randint(-3, 3)) for _ in range(dim)]
        out.append(p)
    return out


# ====================================================================== facade / refusal / radius case kinds
# facade function -> (class, prefix of the `<prefix>_bins` / `<prefix>_range` keyword of every axis; "" = `bins` / `range`)
FACADES = {
    "polar": ("PolarHistogram", ["radial", "phi"]),
    "azimuthal": ("AzimuthalHistogram", [""]),
    "radial": ("RadialHistogram", [""]),
    "spherical": ("SphericalHistogram", ["radial", "theta", "phi"]),
    "spherical_surface": ("SphericalSurfaceHistogram", ["theta", "phi"]),
    "cylindrical": ("CylindricalHistogram", ["rho", "phi", "z"]),
    "cylindrical_surface": ("CylindricalSurfaceHistogram", ["phi", "z"]),
}
FACADE_OF = {v[0]: k for k, v in FACADES.items()}
ANGLE_FULL = {"phi": (0.0, TWO_PI), "theta": (0.0, math.pi)}
DEFAULT_ANGLE_BINS = 16
METHODS = ["numpy", "pretty", "fixed_width", "integer", "sqrt", "sturges"]
# not generated, because the unchanged library fails there for reasons outside this property (reported, not repaired):
#  * radial(x, y, bins="integer") without range raises TypeError (the facade hands range=None on to integer_binning):
#    generated with a range only;
#  * cylindrical_surface(list of rows) without radius raises TypeError (data[:, 0] on a list) -- the (n, 3) facades get ndarrays;
#  * 1-D classes flatten 2-D input with transformed=True (azimuthal(ones((6, 2)), transformed=True) counts 12 angles), as
#    Histogram1D does with any input: not listed among the calls that must be refused.
RANGE_REQUIRED = {("radial", "integer")}
RANGE_METHODS = ("numpy", "pretty", "fixed_width", "integer")
RADIUS_CLASSES = ["AzimuthalHistogram", "SphericalSurfaceHistogram", "CylindricalSurfaceHistogram"]
EDGE_TOL = 1e-9


def data_dependent(s, kd):
    """are the bins of this axis computed from the data?"""
    if s["t"] == "edges":
        return False
    if kd in ANGLE_FULL:
        return False                      # int / default angular bins: linspace of the (default) range
    if s["t"] == "default":
        return True
    return s.get("range") is None or (s["t"] == "method" and s["name"] in ("sqrt", "sturges"))


def facade_kwargs(case):
    _, prefixes = FACADES[case["facade"]]
    kw = {}
    for s, pre in zip(case["spec"], prefixes):
        bname, rname = (pre + "_bins", pre + "_range") if pre else ("bins", "range")
        if s["t"] == "int":
            kw[bname] = int(s["n"])
        elif s["t"] == "edges":
            kw[bname] = np.array(s["e"], dtype=float)
        elif s["t"] == "method":
            kw[bname] = s["name"]
        if s["t"] in ("int", "method") and s.get("range") is not None:
            kw[rname] = (float(s["range"][0]), float(s["range"][1]))
    kw.update(case.get("method_kw") or {})
    if case.get("radius") is not None:
        kw["radius"] = case["radius"]
    return kw


def call_facade(sp, case, D, ws, dropna, transformed):
    """D: the Cartesian points (n, dim) or, with transformed, their coordinates (n, ndim of the histogram)"""
    fn = case["facade"]
    kw = facade_kwargs(case)
    kw["dropna"] = dropna
    if ws is not None:
        kw["weights"] = np.array(ws, dtype=float)
    if transformed:
        kw["transformed"] = True
    f = getattr(sp, fn)
    if fn == "polar":
        return f(D[:, 0].copy(), D[:, 1].copy(), **kw)
    if fn == "azimuthal":
        return f(D[:, 0].copy(), **kw) if transformed else f(D[:, 0].copy(), D[:, 1].copy(), **kw)
    if fn == "radial":
        if transformed:
            return f(D[:, 0].copy(), **kw)
        if case["form"] == "array":
            return f(D.copy(), **kw)
        return f(*[D[:, i].copy() for i in range(D.shape[1])], **kw)
    return f(D.copy(), **kw)


def pairs_of(snapshot):
    """bins of a snapshot as floats: per axis a list of (left, right)"""
    return [[(float(Fraction(l)), float(Fraction(r))) for l, r in ax] for ax in snapshot["bins"]]


def edges_of(pairs):
    """edge list of one axis if its bins are consecutive, else None"""
    if not pairs or any(pairs[i][1] != pairs[i + 1][0] for i in range(len(pairs) - 1)):
        return None
    return [pairs[0][0]] + [r for _, r in pairs]


def axis_candidates(v, E):
    """regions of a consecutive axis that may hold the coordinate v: -1 below, 0..nb-1 the bins, nb above; a value within
    EDGE_TOL (relative, at least absolute 1e-9) of an edge belongs to either side"""
    nb = len(E) - 1
    out = []
    for i in range(-1, nb + 1):
        lo = -math.inf if i < 0 else E[i]
        hi = E[0] if i < 0 else (math.inf if i == nb else E[i + 1])
        tl = 0.0 if math.isinf(lo) else EDGE_TOL * max(1.0, abs(v), abs(lo))
        th = 0.0 if math.isinf(hi) else EDGE_TOL * max(1.0, abs(v), abs(hi))
        if lo - tl <= v <= hi + th:
            out.append(i)
    return out


def slot(combo, nbs):
    """where a tuple of per-axis regions is counted: a cell, or (1-D) 'under' / 'over', or (N-D) 'missed'"""
    if len(nbs) == 1:
        i = combo[0]
        return "under" if i < 0 else ("over" if i >= nbs[0] else (i,))
    return "missed" if any(i < 0 or i >= nb for i, nb in zip(combo, nbs)) else tuple(combo)


def expected_bounds(E, coords, ws):
    """independent count: for every slot the weight that must be there (points strictly inside) and the weight that may be
    there in addition (points within rounding of an edge). Returns lower / upper bounds for contents and errors2, the
    slots every point may be in, and whether any point is ambiguous."""
    nbs = [len(e) - 1 for e in E]
    L, U, L2, U2 = defaultdict(Fraction), defaultdict(Fraction), defaultdict(Fraction), defaultdict(Fraction)
    per_point, ambiguous = [], False
    for t, w in zip(coords, ws):
        cands = [axis_candidates(v, e) for v, e in zip(t, E)]
        slots = {slot(c, nbs) for c in itertools.product(*cands)}
        per_point.append(slots)
        w = Fraction(w)
        if len(slots) == 1:
            k = next(iter(slots))
            L[k] += w; L2[k] += w * w
        else:
            ambiguous = True
        for k in slots:
            U[k] += w; U2[k] += w * w
    return L, U, L2, U2, per_point, ambiguous


def check_counts(name, S, nbs, bounds, total_w):
    """contents of snapshot S against the independent bounds"""
    L, U, L2, U2 = bounds[:4]
    fails = []
    if list(S["shape"]) != list(nbs):
        return [f"shape: {name} has shape {S['shape']}, its bins {nbs}"]
    F = [Fraction(x) for x in S["freq"]]
    E2 = [Fraction(x) for x in S["err2"]]
    for n, cell in enumerate(itertools.product(*[range(nb) for nb in nbs])):
        if not (L[cell] <= F[n] <= U[cell]):
            fails.append(f"wrong_bin: {name}: bin {list(cell)} holds {float(F[n])}, the points with true coordinates inside it weigh "
                         f"{float(L[cell])}" + (f" (up to {float(U[cell])} with points on its edges)" if U[cell] != L[cell] else ""))
            break
        if not (L2[cell] <= E2[n] <= U2[cell]):
            fails.append(f"wrong_err2: {name}: bin {list(cell)} has errors2 {float(E2[n])}, expected {float(L2[cell])}..{float(U2[cell])}")
            break
    missed = Fraction(S["missed"]) if S["missed"] not in (None, "inf", "-inf") else None
    if len(nbs) == 1:
        for k, f in (("under", "under"), ("over", "over")):
            v = Fraction(S[f]) if S.get(f) is not None else None
            if v is None or not (L[k] <= v <= U[k]):
                fails.append(f"outside_range: {name}: {k}flow = {S.get(f)}, the points outside on that side weigh {float(L[k])}..{float(U[k])}")
    elif missed is None or not (L["missed"] <= missed <= U["missed"]):
        fails.append(f"outside_range: {name}: missed = {S['missed']}, the points outside the bins weigh {float(L['missed'])}..{float(U['missed'])}")
    if missed is not None and sum(F) + missed != total_w:
        fails.append(f"lost_weight: {name}: contents {float(sum(F))} + missed {float(missed)} != entered weight {float(total_w)}")
    return fails


def same_counts(a, b, keys=("bins", "shape", "freq", "err2", "missed", "under", "over")):
    """first observable in which two snapshots differ (numbers compared as exact rationals), else None"""
    def norm(v):
        if isinstance(v, list):
            return [norm(x) for x in v]
        if isinstance(v, str) and v not in ("inf", "-inf"):
            return Fraction(v)
        return v
    for k in keys:
        if k in a or k in b:
            if norm(a.get(k)) != norm(b.get(k)):
                return k
    return None


# ====================================================================== projection chains (kind "chain")
# the coordinate every axis of the N-d classes holds (rho = distance from the z axis, r3 = distance from the origin)
SEM = {"SphericalHistogram": ["r3", "theta", "phi"], "CylindricalHistogram": ["rho", "phi", "z"], "PolarHistogram": ["rho", "phi"],
       "SphericalSurfaceHistogram": ["theta", "phi"], "CylindricalSurfaceHistogram": ["phi", "z"]}
# kept coordinates -> (the special type that bins by exactly these coordinates, columns of the Cartesian points it takes)
MATCH = {("r3",): ("RadialHistogram", 3), ("rho",): ("RadialHistogram", 2), ("phi",): ("AzimuthalHistogram", 2),
         ("rho", "phi"): ("PolarHistogram", 2), ("theta", "phi"): ("SphericalSurfaceHistogram", 3),
         ("phi", "z"): ("CylindricalSurfaceHistogram", 3)}
# phi alone out of a spherical / spherical-surface histogram: the unchanged library gives a plain Histogram1D (its azimuthal
# class takes 2-D points, these classes 3-D ones); either is accepted
PHI_OPTIONAL = ("SphericalHistogram", "SphericalSurfaceHistogram")
PLAIN = {1: "Histogram1D", 2: "Histogram2D"}
DEFAULT_NAMES = {"SphericalHistogram": ["r", "theta", "phi"], "CylindricalHistogram": ["rho", "phi", "z"], "PolarHistogram": ["r", "phi"],
                 "SphericalSurfaceHistogram": ["theta", "phi"], "CylindricalSurfaceHistogram": ["phi", "z"]}
NAME_VOCAB = ["r", "rho", "phi", "theta", "z", "x", "y"]
NAME_LABELS = ["distance", "bearing", "height", "a", "b", "c", "R", "Theta", "Phi", "polar angle", "first"]


def pick_names(rng, defaults, n):
    """n different axis labels: the usual names of the coordinates in another order, coordinate names of other classes, or
    free labels"""
    r = rng.random()
    if r < 0.3 and n > 1:
        names = list(defaults)
        while names == list(defaults):
            rng.shuffle(names)
        return names
    if r < 0.6:
        return rng.sample(NAME_VOCAB, n)
    return rng.sample(NAME_LABELS, n)


def sem_coord(kind, p):
    """independent restatement: one true coordinate of a Cartesian point"""
    rho = math.hypot(p[0], p[1])
    if kind == "rho":
        return rho
    if kind == "phi":
        return math.atan2(p[1], p[0]) % TWO_PI
    if kind == "z":
        return p[2]
    if kind == "theta":
        return math.atan2(rho, p[2]) % TWO_PI
    if kind == "r3":
        return math.hypot(rho, p[2])
    raise KeyError(kind)


def rnd_data(rng, shape):
    if not shape:
        return round(rng.uniform(0.1, 2.0), 3)
    return [rnd_data(rng, shape[1:]) for _ in range(shape[0])]


# ====================================================================== finite points of extreme magnitude (kind "extreme")
# Coordinates far outside the range where x*x is representable: above sqrt(DBL_MAX) ~ 1.34e154 the squares overflow, below
# ~1.5e-162 they underflow to 0, although the radius itself is an ordinary finite double. The true radius is compared with the
# edges exactly (r^2 = x^2 + y^2 (+ z^2) and edge^2 as Fractions), z exactly, the angles through the coordinates rescaled by an
# exact power of two (an angle does not depend on the magnitude of the point).
EXT_MAX = 1e307                   # largest |coordinate| generated: r <= sqrt(3) * 1e307 stays finite
EXT_LADDER = [0.0, 1e-200, 1e-100, 1.0, 1e100, 1e150, 1e160, 1e250, 1e308]
EXT_EXPONENTS = [-320, -300, -250, -200, -170, -162, -150, -100, -10, 0, 10, 100, 150, 153, 155, 160, 200, 250, 300, 308]
EXT_PHI = [[0.0, TWO_PI], [0.0, 0.5, 2.0, 3.5, 5.0, TWO_PI], [0.0, 1.0, 2.5, 4.0, 5.5, TWO_PI], [0.0, 2.0, 4.0, TWO_PI]]
EXT_PHI_PARTIAL = [[0.3, 2.0, 4.0], [1.0, 2.5, 5.5]]
EXT_THETA = [[0.0, math.pi], [0.0, 0.7, 2.0, math.pi], [0.0, 0.4, 1.2, 1.9, 2.6, math.pi]]
EXT_THETA_PARTIAL = [[0.4, 1.2, 2.6]]
EXT_Z = [[-8e307, -1e150, -1.0, 0.0, 1.0, 1e150, 8e307], [-8e307, -1e200, -1e-200, 1e-200, 1e200, 8e307],
         [-1e308, 0.0, 1e308], [-8e307, -1e155, -1e-165, 0.0, 1e-165, 1e155, 8e307]]
EXT_Z_PARTIAL = [[-1e150, 0.0, 1e150], [1e-300, 1e-100, 1e100, 1e300]]
SQ_OVER = 1.3407807929942596e154   # sqrt(DBL_MAX): above it x*x overflows
SQ_UNDER = 1.5e-162                # below it x*x underflows to 0 (or a subnormal without precision)
ENABLE_EXTREME = True
# the columns of the Cartesian point the radial axis of a class measures
R_COLUMNS = {"RadialHistogram": None, "PolarHistogram": 2, "SphericalHistogram": 3, "CylindricalHistogram": 2}


def ext_value(rng, style, e=None):
    """one coordinate of the given style (a decimal literal m * 10**e, rounded to the nearest double)"""
    sgn = rng.choice([-1.0, 1.0])
    if style == "zero":
        return rng.choice([0.0, -0.0])
    if style == "ordinary":
        return round(rng.uniform(-3, 3), 3)
    if style == "subnormal":
        k = rng.choice([1, 2, 3, rng.randint(4, 2 ** 20), rng.randint(2 ** 20, 2 ** 51)])
        return sgn * k * 5e-324
    if e is None:
        e = {"huge": (157, 306), "sq_over": (152, 156), "tiny": (-306, -166), "sq_under": (-165, -159)}[style]
        e = rng.randint(*e)
    return sgn * float("%.3fe%d" % (rng.uniform(1, 9.99), e))


def ext_point(rng, dim):
    r = rng.random()
    if r < 0.4:          # all coordinates of one magnitude: the angles are ordinary, the radius is not
        style = rng.choice(["huge", "huge", "sq_over", "tiny", "tiny", "sq_under", "subnormal"])
        e = None if style == "subnormal" else rng.randint(*{"huge": (157, 306), "sq_over": (152, 156), "tiny": (-306, -166),
                                                             "sq_under": (-165, -159)}[style])
        p = [ext_value(rng, style, e) for _ in range(dim)]
        if rng.random() < 0.25:
            p[rng.randrange(dim)] = ext_value(rng, "zero")
        return p
    if r < 0.55:         # on an axis: one extreme coordinate, signed zeros elsewhere
        p = [ext_value(rng, "zero") for _ in range(dim)]
        p[rng.randrange(dim)] = ext_value(rng, rng.choice(["huge", "sq_over", "tiny", "sq_under", "subnormal"]))
        return p
    if r < 0.65:         # a huge coordinate together with ordinary ones
        p = [ext_value(rng, "ordinary") for _ in range(dim)]
        p[rng.randrange(dim)] = ext_value(rng, rng.choice(["huge", "sq_over", "tiny", "subnormal"]))
        return p
    # mixed magnitudes: 1e200 with 1e-200
    return [ext_value(rng, rng.choice(["huge", "huge", "sq_over", "tiny", "tiny", "sq_under", "subnormal", "ordinary", "zero"]))
            for _ in range(dim)]


def r2_exact(p):
    return sum(Fraction(float(c)) ** 2 for c in p)


def edge_tol(e):
    """rounding allowance of a computed radius next to the edge e: 1e-9 relative, a few subnormal steps at least"""
    return max(Fraction(e) / 10 ** 9, Fraction(16, 2 ** 1074))


def exact_regions(v, E, squared=False, tolerant=True):
    """regions of the consecutive axis E (floats) that may hold a coordinate: -1 below, 0..nb-1 the bins (the last one closed on
    the right), nb above. `v` is the exact coordinate, or with `squared` its exact square (the coordinate being >= 0) -- compared
    with the (squared) edges as rationals. With `tolerant` a coordinate within rounding of an edge belongs to either side."""
    nb = len(E) - 1
    F = [Fraction(e) for e in E]

    def below(edge):           # is the coordinate < edge?
        if not squared:
            return v < edge
        return edge > 0 and v < edge * edge
    k = sum(1 for e in F if not below(e)) - 1                        # last edge <= coordinate
    if k == nb and ((v == F[-1] ** 2) if squared else (v == F[-1])):
        k = nb - 1
    out = {k}
    if tolerant:
        for j, e in enumerate(F):
            t = edge_tol(e)
            lo, hi = e - t, e + t
            if squared:
                near = (lo <= 0 or v >= lo * lo) and v <= hi * hi and hi >= 0
            else:
                near = lo <= v <= hi
            if near:
                out |= {j - 1, j}
    return sorted(out)


def near_any_edge(p, E):
    """is the true radius of p within rounding of an edge of E (kept out of the bins' interiors)?"""
    r2 = r2_exact(p)
    wide = [Fraction(e) * Fraction(1, 1000) for e in E]              # generator: stay 1e-3 (relative) away
    for e, w in zip(E, wide):
        lo, hi = Fraction(e) - w, Fraction(e) + w
        if e != 0 and lo * lo <= r2 <= hi * hi:
            return True
    return False


def scaled_pair(*cs):
    """the coordinates multiplied by one exact power of two that brings the largest magnitude into [1, 2) (a coordinate more than
    2**1022 times smaller underflows towards a signed zero: its share of any angle is below every double anyway)"""
    m = max(abs(c) for c in cs)
    if m == 0 or math.isinf(m) or math.isnan(m):
        return list(cs)
    k = 1 - math.frexp(m)[1]
    return [math.ldexp(c, k) for c in cs]


def true_angle(kind, p):
    """phi / theta of a Cartesian point of any magnitude"""
    if kind == "phi":
        x, y = scaled_pair(p[0], p[1])
        return math.atan2(y, x) % TWO_PI
    x, y, z = scaled_pair(p[0], p[1], p[2])
    return math.atan2(math.hypot(x, y), z)


def theta_span(p):
    """theta is computed from rho = hypot(x, y); a subnormal rho is rounded to a multiple of 2**-1074 (no relative precision
    left), which is rounding, not a wrong coordinate: the interval of theta for rho within two such steps, else None"""
    if math.hypot(p[0], p[1]) >= 2.0 ** -1000:
        return None
    k = 1 - math.frexp(max(abs(c) for c in p))[1] if any(c != 0 for c in p) else 0
    x, y, z = [math.ldexp(c, k) for c in p]
    rho, d = math.hypot(x, y), math.ldexp(2.0 ** -1073, k)
    return tuple(sorted((math.atan2(max(rho - d, 0.0), z), math.atan2(rho + d, z))))


def angle_close(kind, got, exp, span=None):
    if ulps(got, exp) <= 4 or abs(got - exp) <= 1e-300:
        return True
    if span is not None and span[0] - 1e-15 <= got <= span[1] + 1e-15:
        return True
    # the fold: 0 and 2 pi are one direction (an angle of -1e-400 is rounded to -0.0 before it is folded)
    return kind == "phi" and abs(abs(got - exp) - TWO_PI) <= 1e-12


def angle_regions(kind, v, E, span=None):
    c = set(axis_candidates(v, E))
    if span is not None:
        both = axis_candidates(span[0], E) + axis_candidates(span[1], E)
        c |= set(range(min(both), max(both) + 1))
    if kind == "phi" and (v <= 1e-9 or v >= TWO_PI - 1e-9):
        c |= set(axis_candidates(0.0, E)) | set(axis_candidates(TWO_PI, E))
    return sorted(c)


# ====================================================================== adaptive axes of transformed histograms (kind "adaptive")
# A transformed histogram in which SOME axes are adaptive fixed-width binnings (the radial / rho / z axis of the facades with
# `<axis>_bins="fixed_width", bin_width=w, adaptive=True`; the angular axes are static linspace bins), so that is_adaptive() of
# the histogram (= all axes) is False while single axes grow. Widths are dyadic and the grid is k * w: every edge is exact.
# Coordinates of the points are multiples of 1/8: r^2 is exact, and a radius is either exactly on a grid edge or at least
# ~1e-4 away from it.
ENABLE_ADAPTIVE = True
AD_WIDTHS = [0.25, 0.5, 1.0, 2.0]
AD_ANGLE_WIDTHS = [0.5, 1.0]
AD_LEGS2 = [(3, 4), (6, 8), (5, 12), (8, 15), (0, 1), (0, 3), (0, 7)]            # integer legs with an integer hypotenuse
AD_LEGS3 = [(1, 2, 2), (2, 3, 6), (4, 4, 7), (0, 3, 4), (0, 0, 5), (2, 6, 9)]
AD_STATIC_EDGES = {"r": [[0.0, 1.0, 2.0, 4.0], [0.5, 1.5, 3.0], [0.0, 0.5, 8.0]],
                   "z": [[-2.0, 0.0, 2.0], [-4.0, -1.0, 1.0, 4.0], [0.0, 1.0, 3.0]]}
AD_PATH_LABELS = {"fill": "fill(point) one by one", "lshift": "h << point one by one", "fill_t": "fill(coordinates, transformed=True) one by one",
                  "fill_n1": "fill_n([point]) one by one", "chunks": "fill_n of the points in chunks", "all": "fill_n of all points at once",
                  "all_t": "fill_n(coordinates, transformed=True) of all points at once", "perm": "fill(point) one by one in another order",
                  "mixed": "fill / fill_n([point]) / << alternating"}


def eighths(rng, lo, hi):
    return rng.randint(int(math.ceil(lo * 8)), int(math.floor(hi * 8))) / 8.0


def ad_point(rng, dim, w, wz, style):
    """one Cartesian point (coordinates in eighths) for a radial axis of width w and a z axis of width wz"""
    reach, zreach = 2.5 + 6 * w, 2.5 + 6 * wz
    sz = lambda: rng.choice([0.0, -0.0])
    if style == "origin":
        return [sz() for _ in range(dim)]
    if style == "inside":
        return [eighths(rng, -2, 2) for _ in range(dim)]
    if style == "axis":            # on a coordinate axis: a multiple of the width (exactly on the grid) or beside it
        p = [sz() for _ in range(dim)]
        i = rng.randrange(dim)
        ww = wz if i == 2 else w
        p[i] = rng.choice([-1, 1]) * (rng.randint(0, 10) * ww + rng.choice([0.0, 0.0, 0.125]))
        return p
    if style == "grid":            # integer legs times the width: the radius is exactly on the grid
        legs = list(rng.choice(AD_LEGS3 if dim == 3 and rng.random() < 0.5 else AD_LEGS2))
        rng.shuffle(legs)
        m = w * rng.choice([1, 1, 2]) if max(legs) * w * 2 <= 2 * reach else w
        p = [rng.choice([-1, 1]) * l * m for l in legs]
        if len(p) < dim:
            p.append(rng.choice([-1, 1]) * rng.randint(0, 8) * wz)
        return p
    # far: outside the range of the first points
    p = [eighths(rng, -reach, reach) for _ in range(dim)]
    i = rng.randrange(dim)
    p[i] = rng.choice([-1, 1]) * eighths(rng, 2.5, zreach if i == 2 else reach)
    return p


def window_regions(v, E, squared=False, tolerant=True, closed_last=True):
    """exact_regions for an axis whose edges are far apart compared with the rounding of a double (grids of width >= 1/4, a few
    static edges): only the edges next to the coordinate are compared exactly. `v` is the exact coordinate or its exact square;
    the result counts regions as exact_regions does (-1 below, 0..nb-1, nb above); with `closed_last` the last edge belongs to the
    last bin, else to the region above"""
    nb = len(E) - 1
    x = math.sqrt(float(v)) if squared else float(v)
    i = bisect.bisect_right(E, x) - 1
    lo, hi = max(i - 1, 0), min(i + 2, nb)

    def sign(e):               # of coordinate - e
        if squared:
            if e < 0:
                return 1
            d = v - e * e
        else:
            d = v - e
        return (d > 0) - (d < 0)
    F = {j: Fraction(E[j]) for j in range(lo, hi + 1)}
    k = lo - 1                 # the last edge <= coordinate (the edges before `lo` are, the ones after `hi` are not)
    for j in range(lo, hi + 1):
        if sign(F[j]) >= 0:
            k = j
    if k == nb and closed_last and sign(F[nb]) == 0:
        k = nb - 1
    out = {k}
    if tolerant:
        for j, e in F.items():
            t = edge_tol(e)
            l, h = e - t, e + t
            near = ((l <= 0 or v >= l * l) and v <= h * h and h >= 0) if squared else (l <= v <= h)
            if near:
                out |= {j - 1, j}
    return sorted(out)


def same_counts_quick(a, b, keys=("bins", "shape", "freq", "err2", "missed", "under", "over")):
    """same_counts; observables that are equal as written (the rational strings are canonical) are not parsed"""
    for k in keys:
        if (k in a or k in b) and a.get(k) != b.get(k):
            r = same_counts(a, b, keys=(k,))
            if r:
                return r
    return None


def sparse_counts(name, S, nbs, bounds, total_w):
    """check_counts for large, mostly empty histograms: a cell written as 0 that no point can be in is not parsed"""
    L, U, L2, U2 = bounds[:4]
    if list(S["shape"]) != list(nbs):
        return [f"shape: {name} has shape {S['shape']}, its bins {nbs}"]
    fails = []
    total = Fraction(0)
    for n, cell in enumerate(itertools.product(*[range(nb) for nb in nbs])):
        sf, se = S["freq"][n], S["err2"][n]
        if sf == "0" and se == "0" and cell not in U:
            continue
        f, e2 = Fraction(sf), Fraction(se)
        total += f
        lo, hi = L.get(cell, 0), U.get(cell, 0)
        if not (lo <= f <= hi):
            fails.append(f"wrong_bin: {name}: bin {list(cell)} holds {float(f)}, the points with true coordinates inside it weigh "
                         f"{float(lo)}" + (f" (up to {float(hi)} with points on its edges)" if hi != lo else ""))
            break
        lo, hi = L2.get(cell, 0), U2.get(cell, 0)
        if not (lo <= e2 <= hi):
            fails.append(f"wrong_err2: {name}: bin {list(cell)} has errors2 {float(e2)}, expected {float(lo)}..{float(hi)}")
            break
    if fails:
        return fails
    missed = Fraction(S["missed"]) if S["missed"] not in (None, "inf", "-inf") else None
    if len(nbs) == 1:
        for k in ("under", "over"):
            v = Fraction(S[k]) if S.get(k) is not None else None
            if v is None or not (L.get(k, 0) <= v <= U.get(k, 0)):
                fails.append(f"outside_range: {name}: {k}flow = {S.get(k)}, the points outside on that side weigh {float(L.get(k, 0))}..{float(U.get(k, 0))}")
    elif missed is None or not (L.get("missed", 0) <= missed <= U.get("missed", 0)):
        fails.append(f"outside_range: {name}: missed = {S['missed']}, the points outside the bins weigh {float(L.get('missed', 0))}..{float(U.get('missed', 0))}")
    if missed is not None and total + missed != total_w:
        fails.append(f"lost_weight: {name}: contents {float(total)} + missed {float(missed)} != entered weight {float(total_w)}")
    return fails


def ad_edges(axis_bins):
    """edge list (floats) of the bins of one axis of a snapshot ([] for an axis without bins); None if they are not consecutive"""
    pairs = [(float(Fraction(l)), float(Fraction(r))) for l, r in axis_bins]
    if not pairs:
        return []
    return edges_of(pairs)


class C15:
    ID = "C15"
    N_QUICK = 770      # 520 + the shares of the chain stream (every 8th case), the extreme-magnitude stream (every 7th) and the adaptive-axes stream (every 9th)
    N_THOROUGH = 14000
    N_SEARCH = 400
    RULE = ("the six transformed classes (+ cylinder surface) with irregular bins in their own coordinates (full or partial "
            "angular ranges) x Cartesian points in all quadrants / octants, on axes and coordinate planes, at the origin, with "
            "signed zeros, on the negative x half-axis x entry paths: Class.transform, find_bin / fill of single points, fill_n "
            "of arrays (the same array entered twice), the same with already transformed coordinates (transformed=True), the "
            "facade function (weights, dropna) x every projection; wrong dimensionality. "
            "kind facade: every facade function with integer bin counts and explicit / default / partial angular ranges, radial / z "
            "bins as int, int + range, edge array, default or a method name (+ keyword) x input forms (columns, array): edges of "
            "the angular axes, every point counted where its true coordinates lie (points within 1e-9 of an edge on either "
            "side), points outside missed, the same histogram from the class with those edges + fill / fill_n, from the facade "
            "with transformed=True, and by filling the facade's histogram again. kind baddims: a filled histogram and 6-11 calls "
            "(each of fill, fill_n, find_bin, transform; for N-d classes the first three also with transformed=True; the facade "
            "of the class 2-4 times) with a wrong number of columns (the neighbours of the right number three times as likely), a "
            "scalar, a 3-D array or superfluous ydata / zdata: refused and the histogram unchanged. kind radius: radius get / "
            "set (class and facade keyword) leaves bins, contents and find_bin alone. kind chain (every 8th case): an N-d "
            "transformed histogram (class + fill_n or facade; default axis names, axis_names= of the constructor, names set "
            "afterwards: the usual names in another order, coordinate names of other classes, free labels) and the whole tree "
            "of its projections down to 1-D, every subset of every node selected by index and by name (pairs also mixed / in "
            "the other order), 2-D results renamed before they are projected further or not: the type of every projection is "
            "the one matching the coordinates kept (r -> radial, phi -> azimuthal, (r, phi) -> polar, (theta, phi) -> spherical "
            "surface, (phi, z) -> cylinder surface with the outer rho edge as radius; other subsets and projections of plain "
            "histograms plain), its bins and contents / errors2 the marginal, and find_bin of Cartesian points on it gives the "
            "bin of the kept true coordinates. kind extreme (every 7th case, stream:extreme_magnitude): finite points with huge "
            "coordinates (above sqrt(DBL_MAX), where x*x overflows), tiny ones (x*x underflows), subnormals, signed zeros and all of "
            "these in one point (|coordinate| <= 1e307, so the radius is finite) x all seven classes x radial edges over many decades "
            "(0, 1e-200 ... 1e308, or equally wide bins on the scale of the points), full / partial angular and z edges: the "
            "transformed radius within 4 ulp of the exact sqrt(x^2+y^2(+z^2)) (rationals), z unchanged, the angles those of the point "
            "rescaled by a power of two; find_bin / fill / fill_n / facade (columns and array), each also with transformed=True, put "
            "every point into the bin holding its exact radius (r^2 against edge^2 as rationals; within 1e-9 of an edge either side) "
            "and agree with each other; the radial histogram of the points equals the r projection (a RadialHistogram) of their polar "
            "/ spherical / cylindrical histogram. kind adaptive (every 9th case, stream:adaptive_axes): transformed histograms in which "
            "SOME axes are adaptive fixed-width binnings (r / rho / z, also theta / phi; dyadic widths 0.25 .. 2 on the grid k * w) and "
            "the others static, so that is_adaptive() of the histogram is False (all axes adaptive and the 1-D classes as the control), "
            "built by the facade with adaptive= (one value / a list per axis), by the facade + set_adaptive of single binnings, or from "
            "binning objects (also without bins yet) x first points around the origin or in a shell away from it x 1-8 points inside "
            "and outside the current bins (farther out, below the first edge, negative z, exactly on a grid edge by integer legs, on the "
            "axes, the origin with signed zeros; weights) entered into independently built twins by fill, h << point, "
            "fill(transformed=True), fill_n([point]), fill_n in chunks, fill_n of all points (also transformed=True), the three single "
            "paths alternating, and fill in another order: after every single step the point lies inside the bins of every adaptive "
            "axis (nothing an adaptive axis can hold is missed), the index fill returns is the bin of the true coordinates (radius by "
            "exact squares, z exactly) in the bins as they then are and the one find_bin gives afterwards (point and transformed "
            "coordinates); find_bin before the fill changes nothing; the final bins are consecutive cells of the grid, static axes "
            "unchanged; contents / errors2 / missed are the exact expectation; all twins have identical bins, contents, errors2 and "
            "missed (after every step for the single paths; per bin for the other order). non-trivial = points in at least two "
            "different bins (special, facade, chain), at least one invalid call (baddims), a non-empty histogram (radius), an adaptive axis "
            "that had to grow (adaptive); "
            "distinct = case hash")
    ASSUMPTIONS = ["libm hypot / atan2 / cos are accurate to a few ulps; transformed coordinates are compared within 4 ulps, "
                   "bins exactly on the implementation's own coordinates",
                   "kind extreme: a subnormal rho = hypot(x, y) carries no relative precision; theta derived from it is accepted within the "
                   "interval that two subnormal steps of rho span; phi = 0 and phi = 2 pi are one direction (an angle of -1e-400 rounds to -0.0)"]
    ASSUMPTIONS = ASSUMPTIONS + ["kind adaptive: a radius lying exactly on an edge of the grid (integer legs) may be counted on either side of that edge by "
                                 "the exact expectation; the independently built twins must agree with each other exactly all the same. The first "
                                 "histogram's binnings (width, first grid index, count, flags) are read from the implementation's binning objects "
                                 "to start the model from the same state (of_arrays); its contents are judged by the oracle"]
    EXTRA_TRUST = ["the coordinate theorems are over the real numbers with Complex.arg as atan2; floating-point evaluation is checked by correspondence"]

    def gen_case(self, rng, k, tier):
        if k % 13 == 6:
            return self.gen_f32(rng)
        if k % 8 == 3:
            return self.gen_chain(rng)
        if ENABLE_EXTREME and k % 7 == 5:
            return self.gen_extreme(rng)
        if ENABLE_ADAPTIVE and k % 9 == 1:
            return self.gen_adaptive(rng)
        r = rng.random()
        if r < 0.45:
            return self.gen_special(rng)
        if r < 0.78:
            return self.gen_facade(rng)
        if r < 0.93:
            return self.gen_baddims(rng)
        return self.gen_radius(rng)

    # ------------------------------------------------------------------ float32 input: the transform must not lose precision
    def gen_f32(self, rng):
        """points given as float32 arrays lying a few 1e-8 rad beside an axis-aligned phi edge (0 = 2pi, pi/2, pi, 3pi/2):
        a transform carried out in the input's own precision rounds phi across the edge, the float64 transform does not"""
        klass = rng.choice(["PolarHistogram", "PolarHistogram", "CylindricalHistogram", "SphericalHistogram"])
        nphi = rng.choice([4, 8])
        pts = []
        for _ in range(rng.choice([2, 4, 6])):
            r = rng.choice([0.5, 1.5, 3.0])
            delta = rng.choice([2e-8, 5e-8, 1e-7, 3e-7]) * rng.choice([-1, 1])
            axis = rng.choice(["+x", "+y", "-x", "-y"])
            xy = {"+x": (r, r * delta), "+y": (-r * delta, r), "-x": (-r, -r * delta), "-y": (r * delta, -r)}[axis]
            p = [float(np.float32(xy[0])), float(np.float32(xy[1]))]
            if klass != "PolarHistogram":
                p.append(float(np.float32(rng.choice([-1.0, 0.5, 1.0]))))
            pts.append(p)
        return {"kind": "f32", "class": klass, "nphi": nphi, "points": pts,
                "tags": ["kind:f32", "class:" + klass, f"nphi:{nphi}"]}

    @staticmethod
    def _f32_edges(case):
        phi = [2 * math.pi * i / case["nphi"] for i in range(case["nphi"] + 1)]
        if case["class"] == "PolarHistogram":
            return [[0.0, 1.0, 2.0, 4.0], phi]
        if case["class"] == "CylindricalHistogram":
            return [[0.0, 1.0, 2.0, 4.0], phi, [-2.0, 0.0, 2.0]]
        return [[0.0, 1.0, 2.0, 4.0, 8.0], [0.0, math.pi / 2, math.pi], phi]

    def run_f32(self, case):
        from physt import special_histograms as sp
        klass = getattr(sp, case["class"])
        edges = [np.array(e) for e in self._f32_edges(case)]
        P64 = np.array(case["points"], dtype=np.float64)
        P32 = P64.astype(np.float32)
        assert (P32.astype(np.float64) == P64).all()        # the points are float32 numbers
        out, log = {}, []

        def guard(f):
            try:
                return f()
            except Exception as e:
                log.append(f"{type(e).__name__}: {e}"[:160])
                return "ERROR"

        def cell_of(h):
            fr = np.asarray(h.frequencies)
            return [[int(i) for i in ix] for ix in np.argwhere(fr > 0)], float(h.missed)
        for name, P in (("f64", P64), ("f32", P32)):
            h0 = klass(edges)
            out["find_" + name] = [guard(lambda p=p: (lambda r: None if r is None else [int(i) for i in r])(h0.find_bin(p))) for p in P]
            h1_ = klass(edges)
            guard(lambda: h1_.fill_n(P))
            out["fill_n_" + name] = [[int(v) for v in np.asarray(h1_.frequencies).ravel()], float(h1_.missed)]
            h2_ = klass(edges)
            out["fill_" + name] = [guard(lambda p=p: (lambda r: None if r is None else [int(i) for i in r])(h2_.fill(p))) for p in P]
            out["fill_total_" + name] = [[int(v) for v in np.asarray(h2_.frequencies).ravel()], float(h2_.missed)]
        out["shape"] = [len(e) - 1 for e in edges]
        return {"outs": out, "log": log}

    def oracle_f32(self, case, io):
        o, fails = io["outs"], []
        edges = self._f32_edges(case)
        kinds = KIND[case["class"]]

        def true_bin(p):
            x, y = p[0], p[1]
            z = p[2] if len(p) > 2 else 0.0
            phi = math.atan2(y, x) % (2 * math.pi)
            coords = {"phi": phi, "z": z}
            if case["class"] == "SphericalHistogram":
                coords["r"] = math.sqrt(x * x + y * y + z * z)
                coords["theta"] = math.atan2(math.hypot(x, y), z)
            else:
                coords["r"] = math.hypot(x, y)
            idx = []
            for kd, e in zip(kinds, edges):
                v = coords["r" if kd in ("r", "rho") else kd]
                k = None
                for i in range(len(e) - 1):
                    if e[i] <= v < e[i + 1] or (i == len(e) - 2 and v == e[-1]):
                        k = i
                if k is None:
                    return None
                idx.append(k)
            return idx
        want = [true_bin(p) for p in case["points"]]
        for name in ("f64", "f32"):
            label = "float64" if name == "f64" else "float32"
            if o["find_" + name] != want:
                fails.append(f"wrong_bin: find_bin of {label} points {case['points']} gives {o['find_' + name]}, their true coordinates lie in {want}")
            if o["fill_" + name] != want:
                fails.append(f"wrong_bin: fill of {label} points returns {o['fill_' + name]}, their true coordinates lie in {want}")
        shape = o["shape"]
        exp = [0] * int(np.prod(shape))
        missed = 0
        for w in want:
            if w is None:
                missed += 1
            else:
                exp[int(np.ravel_multi_index(w, shape))] += 1
        for key in ("fill_n_f64", "fill_n_f32", "fill_total_f64", "fill_total_f32"):
            if o[key] != [exp, float(missed)]:
                fails.append(f"paths: {key.replace('_', ' ')} gives contents {o[key][0]} (missed {o[key][1]}), the true coordinates give {exp} (missed {missed})")
        return fails[:6]

    def gen_special(self, rng):
        klass = rng.choice(list(SRC_DIM))
        dim = rng.choice(SRC_DIM[klass])
        full = rng.random() < 0.6
        axes = [axis_edges(rng, kd, full) for kd in KIND[klass]]
        n = rng.choice([1, 2, 4, 8, 15])
        pts = points(rng, dim, n)
        ws = None
        if rng.random() < 0.3:
            ws = [rng.choice([1, 2, 0.5]) for _ in range(n)]
        return {"kind": "special", "class": klass, "dim": dim, "axes": [[float(x) for x in e] for e in axes], "points": pts,
                "weights": ws, "nan_row": rng.random() < 0.15, "tags": ["kind:special", "class:" + klass, f"dim:{dim}"]}

    # ------------------------------------------------------------------ implementation
    def run_impl(self, case):
        return getattr(self, "run_" + case.get("kind", "special"))(case)

    def run_special(self, case):
        from physt import special_histograms as sp
        klass = getattr(sp, case["class"])
        log = []
        P = np.array(case["points"], dtype=float)
        edges = [np.array(e) for e in case["axes"]]
        nd = len(edges)

        def new():
            return klass(edges[0]) if nd == 1 else klass([e for e in edges])
        out = {}
        T = klass.transform(P)
        T = np.asarray(T, dtype=float).reshape(len(P), -1)
        out["transformed"] = [[nrs(x) for x in row] for row in T]
        out["single_transform"] = [[nrs(x) for x in np.atleast_1d(klass.transform(p))] for p in P]

        def snap(h):
            s = implnd.snapn(h)
            return {k: s[k] for k in ("freq", "err2", "missed", "shape", "_class", "names")}

        def idx(i):
            if i is None:
                return None
            return [int(j) for j in np.atleast_1d(i)] if nd > 1 else int(i)
        ws = case["weights"]
        # path A: fill one by one
        a = new(); rets_fill = []
        for j, p in enumerate(P):
            rets_fill.append(idx(a.fill(p, 1 if ws is None else ws[j])))
        # path B: find_bin on a fresh histogram (does not change it)
        b = new(); before = snap(b)
        rets_find = [idx(b.find_bin(p)) for p in P]
        out["find_changes"] = snap(b) != before
        # path C: fill_n of the whole array (weights), entered from the same ndarray twice in two histograms
        c = new(); c.fill_n(P, weights=None if ws is None else np.array(ws, dtype=float))
        c2 = new(); c2.fill_n(P, weights=None if ws is None else np.array(ws, dtype=float))
        # path D: already transformed coordinates
        d = new(); rets_t = []
        for j, t in enumerate(T):
            tv = t if nd > 1 else float(t[0])
            rets_t.append(idx(d.fill(tv, 1 if ws is None else ws[j], transformed=True)))
        e = new(); e.fill_n(T if nd > 1 else T[:, 0], weights=None if ws is None else np.array(ws, dtype=float), transformed=True)
        rets_find_t = [idx(b.find_bin(t if nd > 1 else float(t[0]), transformed=True)) for t in T]
        out.update({"fill": snap(a), "fill_n": snap(c), "fill_n_again": snap(c2), "fill_t": snap(d), "fill_n_t": snap(e),
                    "rets_fill": rets_fill, "rets_find": rets_find, "rets_fill_t": rets_t, "rets_find_t": rets_find_t})
        out["points_after"] = [[nrs(x) for x in row] for row in P]
        # facade
        try:
            out["facade"] = snap(self.facade(sp, case, P, edges))
        except Exception as ex:
            out["facade"] = None
            log.append(f"facade: {type(ex).__name__}: {ex}"[:200])
        # projections of the filled histogram
        projs = {}
        if nd > 1:
            import itertools
            for m in range(1, nd):
                for axs in itertools.combinations(range(nd), m):
                    try:
                        p = c.projection(*axs)
                        projs[",".join(map(str, axs))] = {"class": type(p).__name__, "freq": [nrs(x) for x in np.asarray(p.frequencies).ravel()],
                                                         "radius": nrs(getattr(p, "radius", float("nan"))) if type(p).__name__ == "CylindricalSurfaceHistogram" else None}
                    except Exception as ex:
                        projs[",".join(map(str, axs))] = {"class": "ERROR", "freq": [], "radius": None}
                        log.append(f"projection{axs}: {type(ex).__name__}: {ex}"[:200])
        out["projections"] = projs
        # wrong dimensionality must be refused
        bad = np.zeros((2, case["dim"] + 2))
        try:
            klass.transform(bad); out["wrong_dim"] = "accepted"
        except Exception:
            out["wrong_dim"] = "REFUSED"
        try:
            new().fill_n(bad); out["wrong_dim_fill_n"] = "accepted"
        except Exception:
            out["wrong_dim_fill_n"] = "REFUSED"
        return {"outs": out, "log": log}

    @staticmethod
    def facade(sp, case, P, edges):
        klass = case["class"]
        ws = case["weights"]
        kw = {}
        if case["nan_row"]:
            P = np.vstack([P, np.full((1, P.shape[1]), np.nan)])
            ws = None if ws is None else list(ws) + [7]
            kw["dropna"] = True
        if ws is not None:
            kw["weights"] = np.array(ws, dtype=float)
        if klass == "PolarHistogram":
            return sp.polar(P[:, 0], P[:, 1], radial_bins=edges[0], phi_bins=edges[1], **kw)
        if klass == "AzimuthalHistogram":
            return sp.azimuthal(P[:, 0], P[:, 1], bins=edges[0], **kw)
        if klass == "RadialHistogram":
            cols = [P[:, i] for i in range(P.shape[1])]
            return sp.radial(*cols, bins=edges[0], **kw)
        if klass == "SphericalHistogram":
            return sp.spherical(P, radial_bins=edges[0], theta_bins=edges[1], phi_bins=edges[2], **kw)
        if klass == "SphericalSurfaceHistogram":
            return sp.spherical_surface(P, theta_bins=edges[0], phi_bins=edges[1], **kw)
        if klass == "CylindricalHistogram":
            return sp.cylindrical(P, rho_bins=edges[0], phi_bins=edges[1], z_bins=edges[2], **kw)
        if klass == "CylindricalSurfaceHistogram":
            return sp.cylindrical_surface(P, phi_bins=edges[0], z_bins=edges[1], **kw)
        raise KeyError(klass)

    # ================================================================== kind "facade": integer bin counts, ranges, method names
    def gen_facade(self, rng):
        fn = rng.choice(list(FACADES))
        klass, _ = FACADES[fn]
        kinds = KIND[klass]
        dim = rng.choice(SRC_DIM[klass])
        form = "array" if fn not in ("polar", "azimuthal", "radial") else ("cols" if dim == 2 else rng.choice(["cols", "array"]))
        method = rng.choice(METHODS)
        tags = ["kind:facade", "facade:" + fn, f"dim:{dim}", "form:" + form]
        spec, method_kw = [], {}
        for kd in kinds:
            r = rng.random()
            if kd in ANGLE_FULL:
                top = ANGLE_FULL[kd][1]
                if r < 0.15:
                    s = {"t": "edges", "e": [float(x) for x in axis_edges(rng, kd, rng.random() < 0.5)]}
                elif r < 0.25:
                    s = {"t": "default"}
                else:
                    q = rng.random()
                    if q < 0.35:
                        rg = None
                    elif q < 0.45:
                        rg = [0.0, top]
                    else:
                        lo = rng.uniform(-0.5 if kd == "phi" else 0.0, 0.7 * top)
                        rg = [lo, lo + rng.uniform(0.3, top - max(lo, 0.0))]
                    s = {"t": "int", "n": rng.choice([1, 2, 3, 4, 6, 8, 16]), "range": rg}
                    tags.append("range:" + ("default" if rg is None else ("full" if q < 0.45 else "partial")))
            else:
                if kd == "r":
                    lo = rng.choice([0.0, rng.uniform(0.0, 1.0)])
                else:
                    lo = rng.uniform(-3.0, 1.0)
                rg = [lo, lo + rng.uniform(0.5, 4.0)] if (rng.random() < 0.5 or (fn, method) in RANGE_REQUIRED) else None
                if r < 0.3:
                    s = {"t": "int", "n": rng.choice([1, 2, 3, 5]), "range": rg}
                elif r < 0.5:
                    s = {"t": "edges", "e": [float(x) for x in axis_edges(rng, kd, rng.random() < 0.5)]}
                elif r < 0.6:
                    s = {"t": "default"}
                else:
                    s = {"t": "method", "name": method, "range": rg if method in RANGE_METHODS else None}
                    if method == "fixed_width":
                        method_kw = {"bin_width": rng.choice([0.25, 0.5, 1.0, 0.3])}
                    tags.append("method:" + method)
                if s["t"] in ("int", "method"):
                    tags.append("rz_range:" + ("from_data" if s["range"] is None else "given"))
            tags.append("bins:" + s["t"])
            spec.append(s)
        n = rng.choice([2, 4, 8, 15, 30])
        pts = points(rng, dim, n)
        if any(data_dependent(s, kd) for s, kd in zip(spec, kinds)):
            pts += [[rng.uniform(-3, 3) for _ in range(dim)] for _ in range(2)]     # bins from data need two different values
        ws = [rng.choice([1, 2, 0.5]) for _ in pts] if rng.random() < 0.3 else None
        nan_row = rng.random() < 0.15
        radius = round(rng.uniform(0.5, 3.0), 2) if fn in ("spherical_surface", "cylindrical_surface") and rng.random() < 0.3 else None
        if nan_row:
            tags.append("nan_row")
        return {"kind": "facade", "facade": fn, "class": klass, "dim": dim, "form": form, "spec": spec, "method_kw": method_kw,
                "points": pts, "weights": ws, "nan_row": nan_row, "dropna": True if nan_row else rng.random() < 0.5,
                "radius": radius, "tags": sorted(set(tags))}

    def run_facade(self, case):
        from physt import special_histograms as sp
        klass = getattr(sp, case["class"])
        nd = len(KIND[case["class"]])
        log, out = [], {"dyn_tags": []}
        P = np.array(case["points"], dtype=float)
        ws = case["weights"]
        W = None if ws is None else np.array(ws, dtype=float)
        T = np.asarray(klass.transform(P), dtype=float).reshape(len(P), -1)
        out["transformed"] = [[nrs(x) for x in row] for row in T]
        D, DT, wsin = P, T, ws
        if case["nan_row"]:
            D = np.vstack([P, np.full((1, P.shape[1]), np.nan)])
            DT = np.vstack([T, np.full((1, T.shape[1]), np.nan)])
            wsin = None if ws is None else list(ws) + [7]

        def snap(h):
            s = implnd.snapn(h)
            s = {k: s[k] for k in ("bins", "freq", "err2", "missed", "shape", "_class")}
            if nd == 1:
                s["under"], s["over"] = nrs(h.underflow), nrs(h.overflow)
            return s

        def idx(i):
            if i is None:
                return None
            return [int(j) for j in np.atleast_1d(i)] if nd > 1 else int(i)

        def attempt(name, f):
            try:
                return f()
            except Exception as ex:
                log.append(f"{name}: {type(ex).__name__}: {ex}"[:200])
                return None
        h = attempt("facade", lambda: call_facade(sp, case, D, wsin, case["dropna"], False))
        if h is None:
            out["facade"] = None
            return {"outs": out, "log": log}
        out["facade"] = out["h"] = snap(h)
        out["radius"] = attempt("radius", lambda: str(np.asarray(getattr(h, "radius", None)).ravel()[:1].tolist()))
        ht = attempt("facade(transformed=True)", lambda: call_facade(sp, case, DT, wsin, case["dropna"], True))
        out["h_t"] = None if ht is None else snap(ht)
        # the facade's histogram: find_bin, fill and fill_n of the same points once more
        before = snap(h)
        out["rets_find"] = attempt("find_bin", lambda: [idx(h.find_bin(p)) for p in P])
        out["rets_find_t"] = attempt("find_bin(transformed=True)", lambda: [idx(h.find_bin(t if nd > 1 else float(t[0]), transformed=True)) for t in T])
        out["find_changes"] = snap(h) != before
        h2 = attempt("copy", lambda: h.copy())
        if h2 is not None:
            out["rets_hfill"] = attempt("fill", lambda: [idx(h2.fill(p, 1 if ws is None else ws[j])) for j, p in enumerate(P)])
            out["h_fill"] = snap(h2)
            h3 = h.copy()
            ok = attempt("fill_n", lambda: (h3.fill_n(P, weights=None if W is None else W.copy()), True)[1])
            out["h_filln"] = snap(h3) if ok else None
        else:
            out["rets_hfill"] = out["h_fill"] = out["h_filln"] = None
        out["points_after"] = [[nrs(x) for x in row] for row in P]
        # the class constructed explicitly with the edges the facade produced
        pairs = pairs_of(out["h"])
        E = [edges_of(ax) for ax in pairs]
        out["explicit_ok"] = False
        if all(e is not None for e in E):
            out["edges"] = E
            arrs = [np.array(e, dtype=float) for e in E]

            def new():
                return klass(arrs[0]) if nd == 1 else klass([a.copy() for a in arrs])
            a = attempt("Class(edges)", new)
            if a is not None:
                out["rets_fill"] = attempt("Class.fill", lambda: [idx(a.fill(p, 1 if ws is None else ws[j])) for j, p in enumerate(P)])
                out["fill"] = snap(a)
                c = new(); ok1 = attempt("Class.fill_n", lambda: (c.fill_n(P, weights=None if W is None else W.copy()), True)[1])
                e = new(); ok2 = attempt("Class.fill_n(transformed=True)",
                                         lambda: (e.fill_n(T if nd > 1 else T[:, 0], weights=None if W is None else W.copy(), transformed=True), True)[1])
                out["fill_n"], out["fill_n_t"] = (snap(c) if ok1 else None), (snap(e) if ok2 else None)
                out["explicit_ok"] = bool(out["rets_fill"] is not None and ok1 and ok2)
        else:
            out["edges"] = None
        return {"outs": out, "log": log}

    def oracle_facade(self, case, io):
        o = io["outs"]
        klass = case["class"]
        kinds = KIND[klass]
        P = case["points"]
        ws = case["weights"] if case["weights"] is not None else [1] * len(P)
        true = [py_transform(klass, p) for p in P]
        if o["facade"] is None:
            # bins computed from data need two different values on that axis: refusing is then legitimate
            for a, (s, kd) in enumerate(zip(case["spec"], kinds)):
                vals = sorted(t[a] for t in true)
                if data_dependent(s, kd) and (len(vals) < 2 or vals[-1] - vals[0] <= 1e-6 * max(1.0, abs(vals[-1]))):
                    return []
            return ["facade_refused: " + case["facade"] + " raised on valid input: " + "; ".join(io["log"][:1])]
        fails = []
        h = o["h"]
        if h["_class"] != klass:
            fails.append(f"facade_class: {case['facade']} returned a {h['_class']}")
        pairs = pairs_of(h)
        if len(pairs) != len(kinds):
            return fails + [f"facade_axes: {case['facade']} returned {len(pairs)} axes, expected {len(kinds)}"]
        E = o["edges"]
        if E is None:
            return fails + [f"facade_bins: {case['facade']} returned bins with gaps or no bins: {pairs}"[:300]]
        # (a) requested bins
        for a, (s, kd) in enumerate(zip(case["spec"], kinds)):
            if s["t"] == "edges":
                if E[a] != [float(x) for x in s["e"]]:
                    fails.append(f"edges_given: axis {a} ({kd}) has edges {E[a]}, the edges passed were {s['e']}")
            elif kd in ANGLE_FULL:
                n = DEFAULT_ANGLE_BINS if s["t"] == "default" else s["n"]
                lo, hi = s.get("range") or ANGLE_FULL[kd]
                flo, fhi = Fraction(lo), Fraction(hi)
                exp = [float(flo + (fhi - flo) * i / n) for i in range(n + 1)]
                tol = 1e-12 * max(1.0, abs(lo), abs(hi))
                if len(E[a]) != n + 1 or any(abs(g - x) > tol for g, x in zip(E[a], exp)):
                    fails.append(f"angular_edges: axis {a} ({kd}) with {n} bins in range ({lo}, {hi}) has edges {E[a]}, equally spaced are {exp}"[:400])
        if o["points_after"] != [[nrs(x) for x in p] for p in P]:
            fails.append("input_modified: the caller's array of points was modified")
        if o["find_changes"]:
            fails.append("find_bin_mutates: find_bin changed the histogram")
        # (b), (c) every point is counted where its true coordinates lie; points outside are missed
        nbs = [len(e) - 1 for e in E]
        bounds = expected_bounds(E, true, ws)
        per_point, ambiguous = bounds[4], bounds[5]
        total_w = sum(Fraction(w) for w in ws)
        fails += check_counts(case["facade"], h, nbs, bounds, total_w)
        for name in ("rets_find", "rets_find_t", "rets_hfill"):
            if o[name] is None:
                fails.append(f"paths_refused: {name} raised on the facade's histogram: " + "; ".join(io["log"][:2]))
                continue
            for j, got in enumerate(o[name]):
                if len(nbs) == 1:
                    where = "under" if got is not None and got < 0 else ("over" if got is not None and got >= nbs[0] else (None if got is None else (got,)))
                else:
                    where = "missed" if got is None else tuple(got)
                if where not in per_point[j]:
                    fails.append(f"wrong_bin: {name}: point {P[j]} with true coordinates {true[j]} is put in {got}, it belongs to {sorted(map(str, per_point[j]))}")
                    break
        # (d) the same histogram on every path
        for name in ("rets_find_t", "rets_hfill"):
            if o[name] is not None and o["rets_find"] is not None and o[name] != o["rets_find"]:
                k = next(i for i, (x, y) in enumerate(zip(o[name], o["rets_find"])) if x != y)
                fails.append(f"paths_index: {name}[{k}] = {o[name][k]} for point {P[k]}, find_bin gives {o['rets_find'][k]}")
        if o["h_t"] is None:
            fails.append("paths_refused: the facade with transformed=True raised: " + "; ".join(l for l in io["log"] if "transformed" in l)[:200])
        else:
            k = same_counts(h, o["h_t"])
            if k:
                fails.append(f"facade_transformed_{k}: {case['facade']} of the points gives {h[k]}, of their transformed coordinates with transformed=True {o['h_t'][k]}"[:500])
        for name in ("h_fill", "h_filln"):
            S = o[name]
            if S is None:
                fails.append(f"paths_refused: {name} of the facade's histogram raised: " + "; ".join(io["log"][:2]))
                continue
            for f in ("freq", "err2"):
                if [Fraction(x) for x in S[f]] != [2 * Fraction(x) for x in h[f]]:
                    fails.append(f"paths_{f}: entering the points again by {name[2:]} gives {S[f]}, twice the facade's {h[f]} expected"[:500])
            if S["missed"] is not None and h["missed"] is not None and Fraction(S["missed"]) != 2 * Fraction(h["missed"]):
                fails.append(f"paths_missed: entering the points again by {name[2:]} gives missed {S['missed']}, the facade {h['missed']}")
        if not o["explicit_ok"]:
            fails.append("paths_refused: the class constructed with the facade's edges, or its fill / fill_n, raised: " + "; ".join(io["log"][:2]))
        else:
            base = o["fill_n_t"]
            for name in ("fill", "fill_n"):
                k = same_counts(o[name], base)
                if k:
                    fails.append(f"paths_{k}: Class(edges).{name} gives {o[name][k]}, entering the transformed coordinates {base[k]}"[:500])
            if ambiguous:
                fails += check_counts("Class(edges).fill_n", o["fill_n"], nbs, bounds, total_w)
            else:
                k = same_counts(h, o["fill_n"], keys=("shape", "freq", "err2", "missed", "under", "over"))
                if k:
                    fails.append(f"facade_{k}: {case['facade']} gives {h[k]}, the class with the same edges + fill_n {o['fill_n'][k]}"[:500])
        return fails[:6]

    # ================================================================== kind "baddims": wrong dimensionality is refused
    def gen_baddims(self, rng):
        klass = rng.choice(list(SRC_DIM))
        dim = rng.choice(SRC_DIM[klass])
        nd = len(KIND[klass])
        fn = FACADE_OF[klass]
        axes = [[float(x) for x in axis_edges(rng, kd, True)] for kd in KIND[klass]]
        pts = points(rng, dim, rng.choice([1, 3, 6]))
        calls, tags = [], ["kind:baddims", "class:" + klass]

        def col(n):
            return rnd_data(rng, [n])

        def wrong(valid):
            """a wrong number of columns, the neighbours of a valid one three times as likely"""
            ks = [k for k in range(1, 6) if k not in valid]
            return rng.choice([k for k in ks for _ in range(3 if (k - 1 in valid or k + 1 in valid) else 1)])
        # every method once (Cartesian input), for N-d classes also with transformed=True, then 2-4 calls of the facade
        plan = ["fill", "find_bin", "fill_n", "transform"] + (["fill:t", "find_bin:t", "fill_n:t"] if nd > 1 else [])
        rng.shuffle(plan)
        plan += ["facade"] * rng.randint(2, 4)
        for what in plan:
            n = rng.choice([1, 2, 4])
            if what in ("fill", "find_bin", "fill_n", "transform"):        # methods of the filled histogram, Cartesian input
                op = what
                if op in ("fill", "find_bin"):
                    k = 0 if rng.random() < 0.15 else wrong(SRC_DIM[klass])
                    c = {"op": op, "args": [rnd_data(rng, [k] if k else [])], "why": "bad:dims"}
                elif rng.random() < 0.25:
                    d = rng.choice(SRC_DIM[klass])
                    shape = rng.choice([[1, n, d], [n, d, 1], [n, 1, d]])
                    c = {"op": op, "args": [rnd_data(rng, shape)], "why": "bad:ndim3"}
                else:
                    c = {"op": op, "args": [rnd_data(rng, [n, wrong(SRC_DIM[klass])])], "why": "bad:dims"}
            elif what.endswith(":t"):      # the same with transformed=True
                op = what[:-2]
                k = wrong((nd,))
                c = {"op": op, "args": [rnd_data(rng, [k] if op != "fill_n" else [n, k])], "transformed": True, "why": "bad:dims_transformed"}
            elif rng.random() < 0.12 and fn not in ("azimuthal", "radial"):
                # observed only: the facades of the N-d classes refuse a `range=` keyword (not a matter of dimensionality)
                pos = [col(n), col(n)] if fn == "polar" else [rnd_data(rng, [n, 3])]
                c = {"op": "facade", "fn": fn, "args": pos, "kw": {"range": [0.0, 1.0]}, "why": "range_kw", "judged": False}
            else:               # the facade function
                t = False
                if fn == "polar":
                    pos = rng.choice([[rnd_data(rng, [n, 3]), col(n)], [rnd_data(rng, [n, 2]), rnd_data(rng, [n, 2])], [col(n), rnd_data(rng, [n, 2])],
                                      [rnd_data(rng, [n, 2]), col(n)]])
                    t = rng.random() < 0.3
                    why = "bad:dims"
                elif fn == "azimuthal":
                    v = rng.randrange(5)
                    pos = [[col(n)], [rnd_data(rng, [n, 3])], [rnd_data(rng, [n, 2]), col(n)], [rnd_data(rng, [n, 3]), col(n)], [col(n), col(n)]][v]
                    t = v == 4
                    why = "bad:superfluous" if v in (2, 4) else "bad:dims"
                elif fn == "radial":
                    v = rng.randrange(11)
                    pos = [[col(n)], [rnd_data(rng, [n, 4])], [rnd_data(rng, [n, 4]), col(n)], [rnd_data(rng, [n, 3]), col(n)],
                           [rnd_data(rng, [n, 3]), None, col(n)], [rnd_data(rng, [n, 3]), col(n), col(n)], [rnd_data(rng, [n, 2]), col(n)],
                           [rnd_data(rng, [n, 2]), rnd_data(rng, [n, 2])], [col(n), col(n)], [col(n), None, col(n)], [col(n), col(n), col(n)]][v]
                    t = v >= 8
                    why = "bad:dims" if v in (0, 1, 2, 7) else "bad:superfluous"
                else:
                    t = rng.random() < 0.35
                    if t:
                        pos, why = [rnd_data(rng, [n, wrong((nd,))])], "bad:dims_transformed"
                    elif rng.random() < 0.25:
                        pos, why = [rnd_data(rng, rng.choice([[1, n, 3], [n, 3, 1], [n, 1, 3]]))], "bad:ndim3"
                    else:
                        pos, why = [rnd_data(rng, [n, wrong((3,))])], "bad:dims"
                c = {"op": "facade", "fn": fn, "args": pos, "kw": {}, "why": why}
                if t:
                    c["transformed"] = True
            calls.append(c)
            tags += [c["why"], "op:" + c["op"]] + (["op:transformed=True"] if c.get("transformed") else [])
        return {"kind": "baddims", "class": klass, "dim": dim, "axes": axes, "points": pts, "calls": calls, "tags": sorted(set(tags))}

    def run_baddims(self, case):
        from physt import special_histograms as sp
        klass = getattr(sp, case["class"])
        edges = [np.array(e) for e in case["axes"]]
        nd = len(edges)
        _, prefixes = FACADES[FACADE_OF[case["class"]]]
        h = klass(edges[0]) if nd == 1 else klass([e for e in edges])
        h.fill_n(np.array(case["points"], dtype=float))

        def full(x):
            s = implnd.snapn(x)
            if nd == 1:
                s["one_d"] = impl1.snap1(x)
            s["meta"] = repr(sorted((str(k), repr(v)) for k, v in x.meta_data.items()))
            return s

        def arr(a):
            return None if a is None else (float(a) if not isinstance(a, list) else np.array(a, dtype=float))
        before = full(h)
        res = []
        for c in case["calls"]:
            args = [arr(a) for a in c["args"]]
            kw = {"transformed": True} if c.get("transformed") else {}
            try:
                if c["op"] == "facade":
                    for pre, e in zip(prefixes, edges):      # explicit bins: nothing but the shape of the data can be refused
                        kw[pre + "_bins" if pre else "bins"] = e.copy()
                    if "range" in (c.get("kw") or {}):
                        kw["range"] = tuple(c["kw"]["range"])
                    getattr(sp, c["fn"])(*args, **kw)
                elif c["op"] == "transform":
                    klass.transform(*args)
                else:
                    getattr(h, c["op"])(*args, **kw)
                st, exc = "accepted", None
            except Exception as ex:
                st, exc = "REFUSED", f"{type(ex).__name__}: {ex}"[:120]
            after = full(h)
            res.append({"status": st, "exc": exc, "changed": [k for k in after if after[k] != before.get(k)]})
            before = after
        dyn = sorted({"range_kw:" + r["status"] for c, r in zip(case["calls"], res) if c["why"] == "range_kw"})
        return {"outs": {"calls": res, "prefilled": float(Fraction(before["total"])) > 0, "dyn_tags": dyn}, "log": [r["exc"] for r in res if r["exc"]]}

    @staticmethod
    def describe_call(case, c):
        shapes = ", ".join("None" if a is None else ("scalar" if not isinstance(a, list) else "array of shape " + str(tuple(np.shape(a)))) for a in c["args"])
        t = ", transformed=True" if c.get("transformed") else ""
        if c["op"] == "facade":
            return f"{c['fn']}({shapes}{t})"
        return f"{case['class']}.{c['op']}({shapes}{t}) [Cartesian input has {SRC_DIM[case['class']]} columns, the histogram {len(case['axes'])} axes]"

    def oracle_baddims(self, case, io):
        fails = []
        for c, r in zip(case["calls"], io["outs"]["calls"]):
            if c.get("judged", True) and r["status"] != "REFUSED":
                fails.append("accepted_invalid: input of the wrong dimensionality accepted: " + self.describe_call(case, c))
        for c, r in zip(case["calls"], io["outs"]["calls"]):
            if c.get("judged", True) and r["status"] == "REFUSED" and r["changed"]:
                fails.append(f"refused_changed: the refused call {self.describe_call(case, c)} changed {r['changed']} of the histogram")
        return fails[:6]

    # ================================================================== kind "radius": the radius attribute does not touch the bins
    def gen_radius(self, rng):
        klass = rng.choice(RADIUS_CLASSES)
        dim = SRC_DIM[klass][0]
        via = rng.choice(["class", "class_kw", "facade"]) if klass != "AzimuthalHistogram" else rng.choice(["class", "class_kw"])
        axes = [[float(x) for x in axis_edges(rng, kd, rng.random() < 0.7)] for kd in KIND[klass]]
        return {"kind": "radius", "class": klass, "dim": dim, "axes": axes, "via": via,
                "points": points(rng, dim, rng.choice([2, 5, 10])), "points2": points(rng, dim, rng.choice([1, 4])),
                "radius0": rng.choice([2, 0.5, round(rng.uniform(0.1, 5), 2)]), "radius1": rng.choice([3, 1, 0.25, round(rng.uniform(0.1, 5), 2)]),
                "tags": ["kind:radius", "class:" + klass, "radius:" + via]}

    def run_radius(self, case):
        from physt import special_histograms as sp
        klass = getattr(sp, case["class"])
        edges = [np.array(e) for e in case["axes"]]
        nd = len(edges)
        P, P2 = np.array(case["points"], dtype=float), np.array(case["points2"], dtype=float)
        log, out = [], {"dyn_tags": []}

        def build(with_radius):
            kw = {"radius": case["radius0"]} if with_radius else {}
            if case["via"] == "facade":
                fn = FACADE_OF[case["class"]]
                _, prefixes = FACADES[fn]
                for pre, e in zip(prefixes, edges):
                    kw[pre + "_bins"] = e.copy()
                return getattr(sp, fn)(P.copy(), **kw)
            x = klass(edges[0].copy(), **kw) if nd == 1 else klass([e.copy() for e in edges], **kw)
            x.fill_n(P)
            return x

        def snap(x):
            s = implnd.snapn(x)
            return {k: s[k] for k in ("bins", "freq", "err2", "missed", "shape", "_class")}

        def find(x):
            r = []
            for p in list(P) + list(P2):
                i = x.find_bin(p)
                r.append(None if i is None else [int(j) for j in np.atleast_1d(i)])
            return r

        def rad(x, name):
            try:
                return repr(np.asarray(x.radius).ravel()[:2].tolist())
            except Exception as ex:
                log.append(f"{name}: {type(ex).__name__}: {ex}"[:160]); out["dyn_tags"].append("radius:get_raised")
                return None
        ref = build(False)                                   # never touched by a radius
        out["ref"], out["ref_find"] = snap(ref), find(ref)
        out["radius_default"] = rad(ref, "get (default)")
        h = build(case["via"] != "class")
        out["built"], out["built_find"] = snap(h), find(h)
        out["radius_built"] = rad(h, "get")
        try:
            h.radius = case["radius1"]
        except Exception as ex:
            log.append(f"set: {type(ex).__name__}: {ex}"[:160]); out["dyn_tags"].append("radius:set_raised")
        out["radius_set"] = rad(h, "get after set")
        out["after_set"], out["after_set_find"] = snap(h), find(h)
        h.fill_n(P2); ref.fill_n(P2)
        out["after_fill"], out["ref_fill"] = snap(h), snap(ref)
        out["nonempty"] = any(Fraction(x) != 0 for x in out["ref"]["freq"])
        return {"outs": out, "log": log}

    def oracle_radius(self, case, io):
        o = io["outs"]
        fails = []
        for name, a, b in (("constructing with radius", "built", "ref"), ("setting radius", "after_set", "built"),
                           ("filling after radius was set", "after_fill", "ref_fill")):
            k = same_counts(o[a], o[b], keys=("bins", "shape", "freq", "err2", "missed"))
            if k:
                fails.append(f"radius_changes_{k}: {name} = {case['radius0'] if a == 'built' else case['radius1']} gives {o[a][k]}, without it {o[b][k]}"[:500])
        for a in ("built_find", "after_set_find"):
            if o[a] != o["ref_find"]:
                j = next(i for i, (x, y) in enumerate(zip(o[a], o["ref_find"])) if x != y)
                fails.append(f"radius_changes_find_bin: point {(case['points'] + case['points2'])[j]} is found in {o[a][j]} ({a}), without a radius in {o['ref_find'][j]}")
        return fails[:6]

    # ================================================================== kind "chain": projections of projections, by index and by name
    def gen_chain(self, rng):
        """a filled N-d transformed histogram (default axis names, names given to the constructor, renamed through the setter)
        and the whole tree of its projections down to 1-D: every proper subset of the axes of every node, once selected by
        index and once by name (two axes also mixed / in the other order); 2-D results may be renamed before they are
        projected further"""
        root = rng.choice(["SphericalHistogram"] * 3 + ["CylindricalHistogram"] * 4
                          + ["PolarHistogram", "SphericalSurfaceHistogram", "CylindricalSurfaceHistogram"])
        nd = len(SEM[root])
        dim = SRC_DIM[root][0]
        full = rng.random() < 0.6
        axes = [[float(x) for x in axis_edges(rng, kd, full)] for kd in KIND[root]]
        mode = rng.choice(["default", "default", "ctor", "setter", "setter", "ctor+setter"])
        build = "class" if "ctor" in mode else rng.choice(["class", "facade"])
        names0 = pick_names(rng, DEFAULT_NAMES[root], nd) if "ctor" in mode else None
        names1 = pick_names(rng, DEFAULT_NAMES[root], nd) if "setter" in mode else None
        n = rng.choice([4, 8, 12])
        pts = points(rng, dim, n)
        ws = [rng.choice([1, 2, 0.5]) for _ in range(n)] if rng.random() < 0.3 else None
        steps = []
        renamed_mid = False

        def expand(parent, kinds, special_parent):
            nonlocal renamed_mid
            for m in range(1, len(kinds)):
                for keep in itertools.combinations(range(len(kinds)), m):
                    kept = tuple(kinds[k] for k in keep)
                    special = special_parent and kept in MATCH
                    carrier_form = rng.choice(["index", "name"]) if m >= 2 else None
                    for form in ("index", "name"):
                        order = list(keep)
                        # the other order: not for a plain result that is projected further (its axis order is not pinned)
                        if m == 2 and rng.random() < 0.4 and (special or form != carrier_form):
                            order.reverse()
                        sel = [{"pos": k, "by": form} for k in order]
                        if form == "name" and m == 2 and rng.random() < 0.3:
                            sel[rng.randrange(2)]["by"] = "index"
                        st = {"parent": parent, "sel": sel, "rename": None}
                        steps.append(st)
                        if form == carrier_form:
                            if rng.random() < 0.35:
                                st["rename"] = pick_names(rng, [DEFAULT_NAMES[root][k] for k in keep] if parent == 0 else ["r", "phi"], m)
                                renamed_mid = True
                            expand(len(steps), kept, special)
        expand(0, SEM[root], True)
        tags = ["kind:chain", "class:" + root, "names:" + mode, "build:" + build] + (["chain:renamed_between"] if renamed_mid else [])
        return {"kind": "chain", "class": root, "dim": dim, "axes": axes, "points": pts, "weights": ws, "nan_row": False,
                "build": build, "names0": names0, "names1": names1, "steps": steps, "tags": tags}

    def run_chain(self, case):
        from physt import special_histograms as sp
        klass = getattr(sp, case["class"])
        edges = [np.array(e) for e in case["axes"]]
        P = np.array(case["points"], dtype=float)
        ws = case["weights"]
        log, out = [], {"dyn_tags": []}

        def snap(h):
            s = implnd.snapn(h)
            return {k: s[k] for k in ("bins", "shape", "freq", "err2", "missed", "names", "_class")}

        def find(h, pt):
            try:
                i = h.find_bin(pt)
                return None if i is None else ([int(j) for j in i] if np.ndim(i) else int(i))
            except Exception as ex:
                return "ERROR"
        try:
            if case["build"] == "facade":
                root = self.facade(sp, case, P, edges)
            else:
                kw = {"axis_names": list(case["names0"])} if case["names0"] else {}
                root = klass([e.copy() for e in edges], **kw)
                root.fill_n(P, weights=None if ws is None else np.array(ws, dtype=float))
            if case["names1"]:
                root.axis_names = tuple(case["names1"])
        except Exception as ex:
            log.append(f"root: {type(ex).__name__}: {ex}"[:200])
            return {"outs": dict(out, root=None, steps=[]), "log": log}
        out["root"] = snap(root)
        nodes, res = [root], []
        for st in case["steps"]:
            parent = nodes[st["parent"]]
            if parent is None:
                nodes.append(None); res.append(None)
                continue
            sel = None
            try:
                sel = [s["pos"] if s["by"] == "index" else parent.axis_names[s["pos"]] for s in st["sel"]]
                p = parent.projection(*sel)
            except Exception as ex:
                log.append(f"projection{sel}: {type(ex).__name__}: {ex}"[:200])
                nodes.append(None); res.append({"_class": "ERROR", "sel": repr(sel), "exc": f"{type(ex).__name__}: {ex}"[:160]})
                continue
            o = snap(p)
            o["sel"] = repr(sel)
            o["radius"] = None
            if type(p).__name__ in SRC_DIM:
                try:
                    o["radius"] = nrs(float(p.radius)) if hasattr(p, "radius") else None
                except Exception as ex:
                    log.append(f"radius: {type(ex).__name__}: {ex}"[:160])
                for d in (2, 3):
                    if d <= P.shape[1]:
                        o[f"find{d}"] = [find(p, pt[:d]) for pt in P[:8]]
            if st["rename"]:
                try:
                    p.axis_names = tuple(st["rename"])
                    o["renamed"] = [str(x) for x in p.axis_names]
                except Exception as ex:
                    log.append(f"rename: {type(ex).__name__}: {ex}"[:160])
            nodes.append(p); res.append(o)
        out["steps"] = res
        out["nonempty_cells"] = sum(1 for x in out["root"]["freq"] if Fraction(x) != 0)
        return {"outs": out, "log": log}

    def oracle_chain(self, case, io):
        o = io["outs"]
        klass = case["class"]
        sem = SEM[klass]
        P = case["points"]
        ws = case["weights"] if case["weights"] is not None else [1] * len(P)
        named = case["names1"] or case["names0"]
        label = klass + (f" with axis names {named}" if named else "")
        R = o["root"]
        if R is None:
            return [f"chain_refused: building the {label} raised: " + "; ".join(io["log"][:1])]
        fails = []
        if R["_class"] != klass:
            fails.append(f"facade_class: the {label} is a {R['_class']}")
        E = [edges_of(ax) for ax in pairs_of(R)]
        if E != case["axes"]:
            return fails + [f"edges_given: the {label} has edges {E}, the edges passed were {case['axes']}"[:400]]
        # the contents of the histogram itself: every point where its true coordinates lie
        nbs = [len(e) - 1 for e in E]
        true = [py_transform(klass, p) for p in P]
        fails += check_counts(klass, R, nbs, expected_bounds(E, true, ws), sum(Fraction(w) for w in ws))
        if list(R["shape"]) != nbs:
            return fails[:6]
        F = np.array([Fraction(x) for x in R["freq"]], dtype=object).reshape(nbs)
        F2 = np.array([Fraction(x) for x in R["err2"]], dtype=object).reshape(nbs)

        def marginal(A, order):
            M = np.asarray(A.sum(axis=tuple(a for a in range(len(nbs)) if a not in order)), dtype=object)
            if len(order) > 1:
                M = np.transpose(M, [sorted(order).index(a) for a in order])
            return [Fraction(x) for x in M.ravel()]
        info = [{"axes": list(range(len(sem))), "special": True, "path": label}]
        for st, S in zip(case["steps"], o["steps"]):
            par = info[st["parent"]]
            req = [par["axes"][s["pos"]] for s in st["sel"]]                            # axes of the first histogram, as requested
            canon = [par["axes"][k] for k in sorted(s["pos"] for s in st["sel"])]       # ... in the order of the axes
            kept = tuple(sem[a] for a in canon)
            special = par["special"] and kept in MATCH
            if special:
                want = {MATCH[kept][0]} | ({PLAIN[1]} if kept == ("phi",) and klass in PHI_OPTIONAL else set())
            else:
                want = {PLAIN[len(kept)]}
            path = par["path"] + f".projection{'ERROR' if S is None else S['sel']}".replace("[", "(").replace("]", ")")
            info.append({"axes": canon, "special": special,
                         "path": path + (f" [axes renamed {st['rename']}]" if st["rename"] else "")})
            if S is None:
                continue
            if S["_class"] == "ERROR":
                fails.append(f"projection_refused: {path} raised {S['exc']}")
                continue
            if S["_class"] not in want:
                fails.append(f"projection_class: {path} keeps the coordinates {list(kept)} and is a {S['_class']}, expected {' or '.join(sorted(want))}")
            orders = [canon] + ([req] if req != canon and S["_class"] not in SRC_DIM else [])
            if not any(S["bins"] == [R["bins"][a] for a in order] for order in orders):
                fails.append(f"projection_bins: {path} does not have the bins of the axes {canon} of the {klass}")
            elif not any(S["bins"] == [R["bins"][a] for a in order] and [Fraction(x) for x in S["freq"]] == marginal(F, order)
                         and [Fraction(x) for x in S["err2"]] == marginal(F2, order) for order in orders):
                fails.append(f"projection_content: {path} has contents {S['freq']} (errors2 {S['err2']}), the marginal over the other axes "
                             f"is {[str(x) for x in marginal(F, canon)]} ({[str(x) for x in marginal(F2, canon)]})"[:500])
            if S["_class"] == "CylindricalSurfaceHistogram" and klass == "CylindricalHistogram" and st["parent"] == 0:
                if S["radius"] is None or float(Fraction(S["radius"])) != E[0][-1]:
                    fails.append(f"surface_radius: {path} has radius {S['radius']}, the outer rho edge is {E[0][-1]}")
            # being of that type, the projection bins Cartesian points by the kept coordinates
            if kept in MATCH and S["_class"] == MATCH[kept][0] and par["special"]:
                d = MATCH[kept][1]
                Ek = [E[a] for a in canon]
                nk = [len(e) - 1 for e in Ek]
                for pt, got in zip(P, S.get(f"find{d}") or []):
                    coords = [sem_coord(kd, pt) for kd in kept]
                    cands = {slot(c, nk) for c in itertools.product(*[axis_candidates(v, e) for v, e in zip(coords, Ek)])}
                    if got == "ERROR":
                        where = "ERROR"
                    elif len(nk) == 1:
                        where = None if got is None else ("under" if got < 0 else ("over" if got >= nk[0] else (got,)))
                    else:
                        where = "missed" if got is None else tuple(got)
                    if where not in cands:
                        fails.append(f"wrong_bin: {path} (a {S['_class']}): find_bin of the point {pt[:d]} with {list(kept)} = {coords} gives {got}, "
                                     f"it belongs to {sorted(map(str, cands))}")
                        break
        return fails[:6]

    # ================================================================== kind "extreme": finite points of extreme magnitude
    def gen_extreme(self, rng):
        """points whose coordinates are huge (their squares overflow), tiny (their squares underflow), subnormal, zero, or all of
        these at once, in every transformed class, with explicit bins over many decades so that the true radius lies well inside a
        bin"""
        klass = rng.choice(["RadialHistogram"] * 4 + ["PolarHistogram"] * 2 + ["SphericalHistogram"] * 2 + ["CylindricalHistogram"] * 2
                           + ["AzimuthalHistogram", "SphericalSurfaceHistogram", "CylindricalSurfaceHistogram"])
        dim = rng.choice(SRC_DIM[klass])
        kinds = KIND[klass]
        tags = ["kind:extreme", "stream:extreme_magnitude", "class:" + klass, f"dim:{dim}"]
        axes, scale = [], None
        for kd in kinds:
            partial = rng.random() < 0.15
            if kd == "r":
                q = rng.random()
                if q < 0.3:
                    e = list(EXT_LADDER)
                    tags.append("redges:ladder")
                elif q < 0.65:
                    ex = sorted(rng.sample(EXT_EXPONENTS, rng.randint(2, 8)))
                    e = ([0.0] if rng.random() < 0.75 else []) + [float("1e%d" % x) for x in ex]
                    if rng.random() < 0.75 and e[-1] != 1e308:
                        e.append(1e308)
                    tags.append("redges:decades")
                else:        # equally wide bins far from 1: the points are drawn on the same scale
                    scale = float("%.2fe%d" % (rng.uniform(1, 9.99), rng.choice([-300, -200, -170, -163, -161, 153, 154, 155, 200, 300])))
                    e = [0.0 if rng.random() < 0.8 else 0.5 * scale] + [m * scale for m in (1.0, 2.0, 3.0, 5.0)[:rng.randint(2, 4)]]
                    tags.append("redges:linear")
            elif kd == "phi":
                e = list(rng.choice(EXT_PHI_PARTIAL if partial else EXT_PHI))
            elif kd == "theta":
                e = list(rng.choice(EXT_THETA_PARTIAL if partial else EXT_THETA))
            else:
                e = list(rng.choice(EXT_Z_PARTIAL if partial else EXT_Z))
            axes.append([float(x) for x in e])
        n = rng.choice([1, 2, 4, 8, 12])
        rcols = R_COLUMNS.get(klass, 0) if "r" in kinds else 0
        pts = []
        for _ in range(n):
            for attempt in range(8):
                if scale is not None and rng.random() < 0.85:
                    p = [rng.choice([0.0, -0.0]) if rng.random() < 0.15 else round(rng.uniform(-2.6, 2.6), 3) * scale for _ in range(dim)]
                    if rcols == 2 and dim == 3 and rng.random() < 0.5:
                        p[2] = ext_value(rng, rng.choice(["huge", "tiny", "ordinary", "zero"]))
                else:
                    p = ext_point(rng, dim)
                p = [float(c) for c in p]
                if any(abs(c) > EXT_MAX for c in p):
                    continue
                if "r" in kinds and near_any_edge(p[:rcols] if rcols else p, axes[0]):
                    continue
                break
            pts.append(p)
        ws = [rng.choice([1, 2, 0.5]) for _ in range(n)] if rng.random() < 0.25 else None
        mags = [abs(c) for p in pts for c in p]
        if any(m > SQ_OVER for m in mags):
            tags.append("ext:square_overflows")
        if any(0 < m < SQ_UNDER for m in mags):
            tags.append("ext:square_underflows")
        if any(0 < m < 2.2250738585072014e-308 for m in mags):
            tags.append("ext:subnormal")
        if any(m == 0 for m in mags):
            tags.append("ext:zero_coordinate")
        if any(max(abs(c) for c in p) > SQ_OVER and 0 < min(abs(c) for c in p if c != 0) < SQ_UNDER for p in pts if any(c != 0 for c in p)):
            tags.append("ext:mixed_in_one_point")
        return {"kind": "extreme", "class": klass, "dim": dim, "axes": axes, "points": pts, "weights": ws, "nan_row": False,
                "form": rng.choice(["cols", "array"]) if (klass == "RadialHistogram" and dim == 3) else ("cols" if dim == 2 else "array"),
                "tags": sorted(set(tags))}

    def run_extreme(self, case):
        from physt import special_histograms as sp
        klass = getattr(sp, case["class"])
        kinds = KIND[case["class"]]
        log, out = [], {"dyn_tags": []}
        P = np.array(case["points"], dtype=float)
        edges = [np.array(e, dtype=float) for e in case["axes"]]
        nd = len(edges)
        ws = case["weights"]
        W = None if ws is None else np.array(ws, dtype=float)

        def new():
            return klass(edges[0].copy()) if nd == 1 else klass([e.copy() for e in edges])

        def snap(h):
            s = implnd.snapn(h)
            s = {k: s[k] for k in ("bins", "freq", "err2", "missed", "shape", "_class")}
            if nd == 1:
                s["under"], s["over"] = nrs(h.underflow), nrs(h.overflow)
            return s

        def idx(i):
            if i is None:
                return None
            return [int(j) for j in np.atleast_1d(i)] if nd > 1 else int(i)

        def attempt(name, f):
            try:
                return f()
            except Exception as ex:
                log.append(f"{name}: {type(ex).__name__}: {ex}"[:200])
                return None
        T = np.asarray(klass.transform(P), dtype=float).reshape(len(P), -1)
        out["transformed"] = [[nrs(x) for x in row] for row in T]
        out["single_transform"] = [[nrs(x) for x in np.atleast_1d(klass.transform(p))] for p in P]
        finite = bool(np.isfinite(T).all())

        def tv(t):
            return t if nd > 1 else float(t[0])
        # find_bin (twice: it must not change anything), fill, fill_n of the Cartesian points
        b = new(); before = snap(b)
        out["rets_find"] = attempt("find_bin", lambda: [idx(b.find_bin(p)) for p in P])
        out["rets_find_t"] = attempt("find_bin(transformed=True)", lambda: [idx(b.find_bin(tv(t), transformed=True)) for t in T])
        out["find_changes"] = snap(b) != before
        a = new()
        out["rets_fill"] = attempt("fill", lambda: [idx(a.fill(p, 1 if ws is None else ws[j])) for j, p in enumerate(P)])
        out["fill"] = snap(a)
        c = new()
        ok = attempt("fill_n", lambda: (c.fill_n(P, weights=None if W is None else W.copy()), True)[1])
        out["fill_n"] = snap(c) if ok else None
        d = new()
        out["rets_fill_t"] = attempt("fill(transformed=True)",
                                     lambda: [idx(d.fill(tv(t), 1 if ws is None else ws[j], transformed=True)) for j, t in enumerate(T)])
        out["fill_t"] = snap(d)
        e = new()
        ok = attempt("fill_n(transformed=True)",
                     lambda: (e.fill_n(T if nd > 1 else T[:, 0], weights=None if W is None else W.copy(), transformed=True), True)[1])
        out["fill_n_t"] = snap(e) if ok else None
        out["points_after"] = [[nrs(x) for x in row] for row in P]
        # the facade function (columns / array), also with the transformed coordinates
        fcase = {"facade": FACADE_OF[case["class"]], "spec": [{"t": "edges", "e": list(ax)} for ax in case["axes"]], "form": case["form"],
                 "method_kw": {}, "radius": None}
        hf = attempt("facade", lambda: call_facade(sp, fcase, P, ws, True, False))
        out["facade"] = None if hf is None else snap(hf)
        hft = attempt("facade(transformed=True)", lambda: call_facade(sp, fcase, T, ws, True, True))
        out["facade_t"] = None if hft is None else snap(hft)
        if case["class"] == "RadialHistogram" and case["dim"] == 3:
            other = dict(fcase, form="cols" if case["form"] == "array" else "array")
            ho = attempt("facade (other input form)", lambda: call_facade(sp, other, P, ws, True, False))
            out["facade_other_form"] = None if ho is None else snap(ho)
        # the radial histogram and the "r" projection of the polar / spherical / cylindrical histogram of the same points
        out["companion"] = None
        kw = {} if W is None else {"weights": W.copy()}
        if "r" in kinds:
            def companion():
                name = "r" if case["class"] != "CylindricalHistogram" else "rho"
                if case["class"] == "RadialHistogram":
                    full = (sp.polar(P[:, 0].copy(), P[:, 1].copy(), radial_bins=edges[0].copy(), phi_bins=4, **kw) if case["dim"] == 2
                            else sp.spherical(P.copy(), radial_bins=edges[0].copy(), theta_bins=3, phi_bins=4, **kw))
                    rad = hf
                else:
                    full = hf
                    cols = P if case["class"] == "SphericalHistogram" else P[:, :2]
                    rad = sp.radial(*[cols[:, i].copy() for i in range(cols.shape[1])], bins=edges[0].copy(), **kw)
                pr = full.projection(name)
                pi = full.projection(0)
                return {"proj_class": type(pr).__name__, "proj_freq": [nrs(x) for x in np.asarray(pr.frequencies).ravel()],
                        "proj_err2": [nrs(x) for x in np.asarray(pr.errors2).ravel()],
                        "proj_by_index_freq": [nrs(x) for x in np.asarray(pi.frequencies).ravel()],
                        "full_class": type(full).__name__, "full_missed": nrs(full.missed),
                        "radial_class": type(rad).__name__, "radial_freq": [nrs(x) for x in np.asarray(rad.frequencies).ravel()],
                        "radial_err2": [nrs(x) for x in np.asarray(rad.errors2).ravel()]}
            if hf is not None:
                out["companion"] = attempt("radial histogram / r projection", companion)
        out["finite"] = finite
        return {"outs": out, "log": log}

    @staticmethod
    def extreme_regions(klass, p, E, tolerant=True):
        """per axis the regions that may hold the true coordinate of the Cartesian point p (exact for r and z)"""
        kinds = KIND[klass]
        regs = []
        for a, (kd, e) in enumerate(zip(kinds, E)):
            if kd == "r":
                n = R_COLUMNS[klass]
                regs.append(exact_regions(r2_exact(p[:n] if n else p), e, squared=True, tolerant=tolerant))
            elif kd == "z":
                regs.append(exact_regions(Fraction(float(p[2])), e, tolerant=False))
            else:
                regs.append(angle_regions(kd, true_angle(kd, p), e, theta_span(p) if kd == "theta" else None))
        return regs

    def oracle_extreme(self, case, io):
        o = io["outs"]
        klass = case["class"]
        kinds = KIND[klass]
        P = case["points"]
        E = case["axes"]
        nd = len(E)
        nbs = [len(e) - 1 for e in E]
        ws = case["weights"] if case["weights"] is not None else [1] * len(P)
        fails = []
        # (a) the transformed coordinates are the true ones
        for j, p in enumerate(P):
            for name in ("transformed", "single_transform"):
                row = o[name][j]
                if len(row) != nd:
                    fails.append(f"transform: {klass}.transform({p}) has {len(row)} coordinates ({name})")
                    break
                for kd, x in zip(kinds, row):
                    if x in (None, "inf", "-inf"):
                        fails.append(f"transform: {klass}.transform({p}) gives {kd} = {x}; the point is finite and so are its true coordinates ({name})")
                        break
                    got = float(Fraction(x))
                    if kd == "r":
                        n = R_COLUMNS[klass]
                        r2 = r2_exact(p[:n] if n else p)
                        u = Fraction(float(np.spacing(got)))
                        lo, hi = max(Fraction(0), Fraction(x) - 4 * u), Fraction(x) + 4 * u
                        if got < 0 or not (lo * lo <= r2 <= hi * hi):
                            fails.append(f"transform: {klass}.transform({p}) gives r = {got!r}, the true radius sqrt(x^2 + y^2{' + z^2' if len(p[:n] if n else p) == 3 else ''}) "
                                         f"is {self.sqrt_float(r2)!r} ({name})")
                            break
                    elif kd == "z":
                        if got != float(p[2]):
                            fails.append(f"transform: {klass}.transform({p}) gives z = {got!r}, the point has z = {p[2]!r} ({name})")
                            break
                    else:
                        exp = true_angle(kd, p)
                        top = TWO_PI if kd == "phi" else math.pi
                        if not (0 <= got <= top) or not angle_close(kd, got, exp, theta_span(p) if kd == "theta" else None):
                            fails.append(f"transform: {klass}.transform({p}) gives {kd} = {got!r}, the direction of the point has {kd} = {exp!r} "
                                         f"whatever its magnitude ({name})")
                            break
                else:
                    continue
                break
            if fails:
                break
        if o["points_after"] != [[nrs(x) for x in p] for p in P]:
            fails.append("input_modified: the caller's array of points was modified")
        if o["find_changes"]:
            fails.append("find_bin_mutates: find_bin changed the histogram")
        # (b) every entry path puts every point into the bin that holds its true coordinates
        per_point = []
        L, U, L2, U2 = defaultdict(Fraction), defaultdict(Fraction), defaultdict(Fraction), defaultdict(Fraction)
        for p, w in zip(P, ws):
            slots = {slot(cmb, nbs) for cmb in itertools.product(*self.extreme_regions(klass, p, E))}
            per_point.append(slots)
            w = Fraction(w)
            if len(slots) == 1:
                k = next(iter(slots))
                L[k] += w; L2[k] += w * w
            for k in slots:
                U[k] += w; U2[k] += w * w
        bounds = (L, U, L2, U2)
        total_w = sum(Fraction(w) for w in ws)

        def where(got):
            if nd == 1:
                return None if got is None else ("under" if got < 0 else ("over" if got >= nbs[0] else (got,)))
            return "missed" if got is None else tuple(got)
        for name in ("rets_find", "rets_fill", "rets_find_t", "rets_fill_t"):
            if o[name] is None:
                fails.append(f"paths_refused: {name[5:]} raised on a finite point: " + "; ".join(io["log"][:2]))
                continue
            for j, got in enumerate(o[name]):
                if where(got) not in per_point[j]:
                    n = R_COLUMNS.get(klass, 0) if "r" in kinds else 0
                    r = f", true radius {self.sqrt_float(r2_exact(P[j][:n] if n else P[j]))!r}" if "r" in kinds else ""
                    fails.append(f"wrong_bin: {name}: the point {P[j]}{r} is put in {got} of the bins {E if nd > 1 else E[0]}, "
                                 f"it belongs to {sorted(map(str, per_point[j]))}"[:600])
                    break
        for name in ("rets_fill", "rets_find_t", "rets_fill_t"):
            if o[name] is not None and o["rets_find"] is not None and o[name] != o["rets_find"]:
                k = next(i for i, (x, y) in enumerate(zip(o[name], o["rets_find"])) if x != y)
                fails.append(f"paths_index: {name}[{k}] = {o[name][k]} for the point {P[k]}, find_bin gives {o['rets_find'][k]}")
        labels = {"fill": "fill", "fill_n": "fill_n", "fill_t": "fill(transformed=True)", "fill_n_t": "fill_n(transformed=True)",
                  "facade": FACADE_OF[klass] + "()", "facade_t": FACADE_OF[klass] + "(transformed=True)",
                  "facade_other_form": FACADE_OF[klass] + "() [other input form]"}
        base = o["fill_n_t"]
        for name, label in labels.items():
            if name not in o:
                continue
            S = o[name]
            if S is None:
                fails.append(f"paths_refused: {label} raised on finite points: " + "; ".join(io["log"][:2]))
                continue
            fails += check_counts(label, S, nbs, bounds, total_w)
            if base is not None and S is not base:
                k = same_counts(S, base)
                if k:
                    fails.append(f"paths_{k}: {label} gives {S[k]}, entering the transformed coordinates {base[k]}"[:500])
        # (c) the radial histogram is the "r" projection of the polar / spherical / cylindrical histogram of the same points
        C = o["companion"]
        if "r" in kinds:
            if C is None:
                if o["facade"] is not None:
                    fails.append("paths_refused: the radial histogram / the r projection of the same points raised: " + "; ".join(io["log"][:2]))
            else:
                if C["proj_class"] != "RadialHistogram":
                    fails.append(f"projection_class: the r projection of a {C['full_class']} is a {C['proj_class']}")
                if C["proj_by_index_freq"] != C["proj_freq"]:
                    fails.append("projection_content: the r projection by name and by index differ")
                pf_, rf = [Fraction(x) for x in C["proj_freq"]], [Fraction(x) for x in C["radial_freq"]]
                pe, re_ = [Fraction(x) for x in C["proj_err2"]], [Fraction(x) for x in C["radial_err2"]]
                nothing_missed = C["full_missed"] is not None and Fraction(C["full_missed"]) == 0
                if len(pf_) != len(rf) or any(a > b_ for a, b_ in zip(pf_, rf)) or (nothing_missed and (pf_ != rf or pe != re_)):
                    fails.append(f"radial_vs_projection: the radial histogram of the points {P} has contents {[float(x) for x in rf]}, the r "
                                 f"projection of their {C['full_class']} {[float(x) for x in pf_]} (missed there: {C['full_missed']})"[:600])
        return fails[:6]

    @staticmethod
    def sqrt_float(q):
        """the double nearest to sqrt(q) for a non-negative rational q (integer square root, 80 extra bits)"""
        q = Fraction(q)
        if q == 0:
            return 0.0
        s = 2 * 1300
        root = math.isqrt((q.numerator << s) // q.denominator)
        try:
            return float(Fraction(root, 1 << (s // 2)))
        except OverflowError:
            return math.inf

    # ================================================================== kind "adaptive": some axes grow, the others are static
    def gen_adaptive(self, rng):
        """a transformed histogram with adaptive fixed-width axes (some, not all; also all as the control) built through the facade
        (`adaptive=` keyword), through the facade + set_adaptive of single binnings, or from binning objects; then a sequence of
        points inside / outside the current bins entered by every path into independently built twins"""
        klass = rng.choice(["PolarHistogram"] * 4 + ["CylindricalHistogram"] * 4 + ["SphericalHistogram"] * 3
                           + ["CylindricalSurfaceHistogram"] * 2 + ["SphericalSurfaceHistogram", "RadialHistogram", "RadialHistogram", "AzimuthalHistogram"])
        kinds = KIND[klass]
        nd = len(kinds)
        dim = rng.choice(SRC_DIM[klass])
        build = rng.choice(["facade"] * 3 + ["set_adaptive"] * 2 + ["class"] * 2)
        lin = [a for a, kd in enumerate(kinds) if kd in ("r", "z")]
        ang = [a for a, kd in enumerate(kinds) if kd not in ("r", "z")]
        q = rng.random()
        if nd == 1:
            adaptive, pattern = [0], "all"
        elif lin and q < 0.72:
            adaptive, pattern = sorted(rng.sample(lin, rng.randint(1, len(lin)))), "some"
        elif q < 0.86 or not lin:
            adaptive, pattern = [rng.choice(ang)] + [a for a in lin if rng.random() < 0.5], "some"
        else:
            adaptive, pattern = list(range(nd)), "all"
        w = rng.choice(AD_WIDTHS)
        wz = w if rng.random() < 0.5 else rng.choice(AD_WIDTHS)
        spec = []
        for a, kd in enumerate(kinds):
            if a in adaptive or (kd in ("r", "z") and rng.random() < 0.5):
                s = {"t": "fw", "w": (w if kd == "r" else wz) if kd in ("r", "z") else rng.choice(AD_ANGLE_WIDTHS), "adaptive": a in adaptive}
                # bins of the class built from binning objects: (first grid index, number of bins); 0 bins = still empty
                if kd == "r":
                    s["tmin"], s["count"] = rng.choice([0, 0, 2, 4]), rng.choice([0, 1, 3, 6] if a in adaptive else [3, 6, 12])
                elif kd == "z":
                    s["tmin"], s["count"] = rng.choice([-4, -1, 0, 2]), rng.choice([0, 1, 3, 6] if a in adaptive else [3, 6, 12])
                else:
                    s["tmin"], s["count"] = 0, rng.choice([0, 2, 7] if a in adaptive else [7, 13])
            elif kd in ANGLE_FULL:
                top = ANGLE_FULL[kd][1]
                rg = None
                if rng.random() < 0.2:
                    lo = rng.choice([0.5, 1.0, 1.5])
                    rg = [lo, lo + rng.choice([1.0, 1.5])]
                s = {"t": "int", "n": rng.choice([1, 2, 3, 4, 4, 8]), "range": rg}
            else:
                s = {"t": "edges", "e": list(rng.choice(AD_STATIC_EDGES[kd]))}
            spec.append(s)
        # the first points (the data of the facade; entered by fill_n into the class built from binning objects)
        shell = rng.random() < 0.35           # away from the origin and above z = 1: the axes must also grow downwards later
        n0 = rng.choice([2, 3, 5, 8, 12] + ([0, 0, 1] if build == "class" else [1]))     # (a 1-D facade refuses data that give no bins)
        init = []
        for _ in range(n0):
            for attempt in range(50):
                p = [eighths(rng, -2, 2) for _ in range(dim)]
                if shell and dim == 3:
                    p[2] = eighths(rng, 1, 2.5)
                if not shell or (p[0] ** 2 + p[1] ** 2 >= 2.25):
                    break
            init.append(p)
        init_ws = [rng.choice([1, 2, 0.5]) for _ in init] if (init and rng.random() < 0.2) else None
        m = rng.choice([1, 1, 2, 3, 4, 6, 8])
        styles = [rng.choice(["far"] * 5 + ["grid"] * 3 + ["inside"] * 3 + ["axis"] * 2 + ["origin"]) for _ in range(m)]
        if "far" not in styles and "grid" not in styles and rng.random() < 0.8:
            styles[rng.randrange(m)] = "far"
        pts = [[float(c) for c in ad_point(rng, dim, w, wz, st)] for st in styles]
        ws = [rng.choice([1, 2, 0.5]) for _ in pts] if rng.random() < 0.3 else None
        chunks, left = [], m
        while left:
            c = rng.randint(1, min(4, left))
            chunks.append(c)
            left -= c
        perm = list(range(m))
        rng.shuffle(perm)
        # the keywords of the facade: one value for all axes, or a list with None for the axes that are not fixed-width
        fw = [a for a, s in enumerate(spec) if s["t"] == "fw"]
        same_w = len({spec[a]["w"] for a in fw}) == 1
        kw_form = {"bin_width": "scalar" if same_w and rng.random() < 0.5 else "list",
                   "adaptive": "scalar" if all(spec[a]["adaptive"] for a in fw) and rng.random() < 0.5 else "list"}
        tags = ["kind:adaptive", "stream:adaptive_axes", "class:" + klass, f"dim:{dim}", "build:" + build, "adaptive_axes:" + pattern]
        tags += ["adaptive:" + (kinds[a] if kinds[a] != "r" or klass != "CylindricalHistogram" else "rho") for a in adaptive]
        tags += ["points:" + st for st in set(styles)]
        if shell:
            tags.append("first_points:shell")
        if n0 == 0:
            tags.append("first_points:none")
        return {"kind": "adaptive", "class": klass, "dim": dim, "build": build, "spec": spec, "kw_form": kw_form,
                "form": rng.choice(["cols", "array"]) if (klass == "RadialHistogram" and dim == 3) else ("cols" if dim == 2 else "array"),
                "init": init, "init_weights": init_ws, "points": pts, "weights": ws, "chunks": chunks, "perm": perm,
                "nan_row": False, "tags": sorted(set(tags))}

    @staticmethod
    def adaptive_build(sp, case):
        """the histogram of the case, built anew (every call creates its own binning objects)"""
        from physt.binnings import FixedWidthBinning
        klass = getattr(sp, case["class"])
        fn = FACADE_OF[case["class"]]
        _, prefixes = FACADES[fn]
        spec = case["spec"]
        nd = len(spec)
        init = np.array(case["init"], dtype=float).reshape(len(case["init"]), case["dim"])
        W0 = None if case["init_weights"] is None else np.array(case["init_weights"], dtype=float)

        def static_edges(s, kd):
            if s["t"] == "edges":
                return np.array(s["e"], dtype=float)
            lo, hi = s["range"] or ANGLE_FULL[kd]
            return np.linspace(lo, hi, s["n"] + 1)
        if case["build"] == "class":
            bs = []
            for s, kd in zip(spec, KIND[case["class"]]):
                if s["t"] == "fw":
                    kw = {"bin_width": s["w"], "bin_count": s["count"], "adaptive": bool(s["adaptive"])}
                    if s["count"] > 0:
                        kw["bin_times_min"] = s["tmin"]
                    bs.append(FixedWidthBinning(**kw))
                else:
                    bs.append(static_edges(s, kd))
            h = klass(bs[0]) if nd == 1 else klass(bs)
            if len(init):
                h.fill_n(init, weights=W0)
            return h
        kw = {}
        for s, pre, kd in zip(spec, prefixes, KIND[case["class"]]):
            bname, rname = (pre + "_bins", pre + "_range") if pre else ("bins", "range")
            if s["t"] == "fw":
                kw[bname] = "fixed_width"
            elif s["t"] == "edges":
                kw[bname] = np.array(s["e"], dtype=float)
            else:
                kw[bname] = int(s["n"])
                if s["range"] is not None:
                    kw[rname] = (float(s["range"][0]), float(s["range"][1]))
        fw = [a for a, s in enumerate(spec) if s["t"] == "fw"]
        if nd == 1:
            kw["bin_width"] = spec[0]["w"]
        elif case["kw_form"]["bin_width"] == "scalar":
            kw["bin_width"] = spec[fw[0]]["w"]
        else:
            kw["bin_width"] = [s["w"] if s["t"] == "fw" else None for s in spec]
        if case["build"] == "facade":
            if nd == 1 or case["kw_form"]["adaptive"] == "scalar":
                kw["adaptive"] = True
            else:
                kw["adaptive"] = [bool(s["adaptive"]) if s["t"] == "fw" else None for s in spec]
        if W0 is not None:
            kw["weights"] = W0
        f = getattr(sp, fn)
        if fn in ("polar", "azimuthal"):
            h = f(init[:, 0].copy(), init[:, 1].copy(), **kw)
        elif fn == "radial" and (case["form"] == "cols" or init.shape[1] == 2):
            h = f(*[init[:, i].copy() for i in range(init.shape[1])], **kw)
        else:
            h = f(init.copy(), **kw)
        if case["build"] == "set_adaptive":
            for a, s in enumerate(spec):
                if s["t"] == "fw" and s["adaptive"]:
                    (h.binning if nd == 1 else h.binnings[a]).set_adaptive(True)
        return h

    def run_adaptive(self, case):
        from physt import special_histograms as sp
        klass = getattr(sp, case["class"])
        nd = len(case["spec"])
        log, out = [], {"dyn_tags": []}
        P = np.array(case["points"], dtype=float)
        ws = case["weights"]
        W = None if ws is None else np.array(ws, dtype=float)
        m = len(P)

        def wt(j):
            return 1 if ws is None else ws[j]

        def binnings(h):
            return [h.binning] if nd == 1 else list(h.binnings)

        def snap(h):
            s = implnd.snapn(h)
            s = {k: s[k] for k in ("bins", "freq", "err2", "missed", "shape", "dtype", "_class")}
            s["axes"] = [impl1.binning_meta(b) for b in binnings(h)]
            s["hist_adaptive"] = bool(h.is_adaptive())
            if nd == 1:
                s["under"], s["over"], s["inner"] = nrs(h.underflow), nrs(h.overflow), nrs(h.inner_missed)
            return s

        def idx(i):
            if i is None:
                return None
            return [int(j) for j in np.atleast_1d(i)] if nd > 1 else int(i)

        def edges_now(h):
            return [[nrs(x) for x in np.asarray(b.numpy_bins, dtype=float).ravel()] if b.bin_count else [] for b in binnings(h)]

        def attempt(name, f):
            try:
                return f()
            except Exception as ex:
                log.append(f"{name}: {type(ex).__name__}: {ex}"[:200])
                return None

        def make():
            return self.adaptive_build(sp, case)
        h0 = attempt("building the histogram", make)
        if h0 is None:
            out["init"] = None
            return {"outs": out, "log": log}
        out["init"] = snap(h0)
        T = np.asarray(klass.transform(P), dtype=float).reshape(m, -1)
        out["transformed"] = [[nrs(x) for x in row] for row in T]
        T0 = np.asarray(klass.transform(np.array(case["init"], dtype=float)), dtype=float).reshape(len(case["init"]), -1) if case["init"] else []
        out["init_transformed"] = [[nrs(x) for x in row] for row in T0]

        def tv(t):
            return t if nd > 1 else float(t[0])

        def single(name, enter, with_find):
            """one twin, the points entered one by one; the state of the axes is recorded after every step"""
            h = attempt(name + " (build)", make)
            if h is None:
                return None
            res = {"rets": [], "find_before": [], "find_after": [], "find_after_t": [], "edges": [], "missed": [], "find_changes": False}
            try:
                for j in range(m):
                    if with_find:
                        before = (tuple(h.shape), np.asarray(h.frequencies).copy())
                        res["find_before"].append(idx(h.find_bin(P[j])))
                        if tuple(h.shape) != before[0] or not np.array_equal(np.asarray(h.frequencies), before[1]):
                            res["find_changes"] = True
                    res["rets"].append(idx(enter(h, j)))
                    res["edges"].append(edges_now(h))
                    res["missed"].append(nrs(h.missed))
                    if with_find:
                        res["find_after"].append(idx(h.find_bin(P[j])))
                        res["find_after_t"].append(idx(h.find_bin(tv(T[j]), transformed=True)))
            except Exception as ex:
                log.append(f"{name}: {type(ex).__name__}: {ex}"[:200])
                return None
            res["final"] = snap(h)
            return res

        def lshift(h, j):
            h << P[j]

        def fill_n1(h, j):
            h.fill_n(P[j:j + 1], weights=None if W is None else W[j:j + 1].copy())

        def mixed(h, j):
            if j % 3 == 0:
                return h.fill(P[j], wt(j))
            if j % 3 == 1 or ws is not None:
                return fill_n1(h, j)
            return lshift(h, j)
        out["fill"] = single("fill", lambda h, j: h.fill(P[j], wt(j)), True)
        out["fill_t"] = single("fill(transformed=True)", lambda h, j: h.fill(tv(T[j]), wt(j), transformed=True), True)
        out["fill_n1"] = single("fill_n([point])", fill_n1, False)
        out["mixed"] = single("fill / fill_n / <<", mixed, False)
        if ws is None:
            out["lshift"] = single("h << point", lshift, False)

        def whole(name, f):
            h = attempt(name + " (build)", make)
            if h is None:
                return None
            try:
                f(h)
            except Exception as ex:
                log.append(f"{name}: {type(ex).__name__}: {ex}"[:200])
                return None
            return {"final": snap(h)}

        def chunks(h):
            a = 0
            for c in case["chunks"]:
                h.fill_n(P[a:a + c], weights=None if W is None else W[a:a + c].copy())
                a += c

        def permuted(h):
            for j in case["perm"]:
                h.fill(P[j], wt(j))
        out["chunks"] = whole("fill_n in chunks", chunks)
        out["all"] = whole("fill_n", lambda h: h.fill_n(P.copy(), weights=None if W is None else W.copy()))
        out["all_t"] = whole("fill_n(transformed=True)",
                             lambda h: h.fill_n(T.copy() if nd > 1 else T[:, 0].copy(), weights=None if W is None else W.copy(), transformed=True))
        out["perm"] = whole("fill in another order", permuted)
        out["points_after"] = [[nrs(x) for x in row] for row in P]
        req = [bool(s["t"] == "fw" and s["adaptive"]) for s in case["spec"]]
        got = [bool(a.get("adaptive", False)) for a in out["init"]["axes"]]
        if req != got:
            out["dyn_tags"].append("adaptive_flags:not_as_requested")
        out["dyn_tags"].append("hist.is_adaptive():" + str(out["init"]["hist_adaptive"]))
        fin = out["fill"]["final"] if out["fill"] else None
        out["grew"] = bool(fin is not None and fin["shape"] != out["init"]["shape"])
        if out["grew"]:
            out["dyn_tags"].append("adaptive:grew")
        return {"outs": out, "log": log}

    @staticmethod
    def adaptive_regions(klass, p, E, closed=None):
        """per axis the regions (-1 below, 0..nb-1, nb above) that may hold the true coordinate of the Cartesian point p: the
        radius by exact squares (a radius exactly on an edge: either side), z exactly (the last edge belongs to the last bin only
        where the binning includes its right edge), the angles within 1e-9 of an edge on either side"""
        regs = []
        for a, (kd, e) in enumerate(zip(KIND[klass], E)):
            if len(e) < 2:
                regs.append([0])           # no bins yet: everything is "above"
            elif kd == "r":
                n = R_COLUMNS[klass]
                regs.append(window_regions(r2_exact(p[:n] if n else p), e, squared=True, tolerant=True))
            elif kd == "z":
                regs.append(window_regions(Fraction(float(p[2])), e, tolerant=False, closed_last=True if closed is None else closed[a]))
            else:
                regs.append(axis_candidates(sem_coord(kd, p) if kd == "theta" else math.atan2(p[1], p[0]) % TWO_PI, e))
        return regs

    def oracle_adaptive(self, case, io):
        o = io["outs"]
        klass = case["class"]
        kinds = KIND[klass]
        nd = len(kinds)
        I = o["init"]
        how = {"facade": f"{FACADE_OF[klass]}(..., adaptive=...)", "set_adaptive": f"{FACADE_OF[klass]}(...) + set_adaptive of single binnings",
               "class": f"{klass}(binning objects)"}[case["build"]]
        if I is None:
            return [f"paths_refused: building the histogram by {how} raised: " + "; ".join(io["log"][:1])]
        fails = []
        if I["_class"] != klass:
            fails.append(f"facade_class: {how} returned a {I['_class']}")
        P, P0 = case["points"], case["init"]
        ws = case["weights"] if case["weights"] is not None else [1] * len(P)
        ws0 = case["init_weights"] if case["init_weights"] is not None else [1] * len(P0)
        meta = I["axes"]
        ad = [bool(a.get("adaptive", False)) for a in meta]
        if o["points_after"] != [[nrs(x) for x in p] for p in P]:
            fails.append("input_modified: the caller's array of points was modified")
        names = [("rho" if klass == "CylindricalHistogram" and kd == "r" else kd) for kd in kinds]

        closed = [bool(a.get("ire", False)) for a in meta]
        memo = {}

        def regions(p, E):
            key = (tuple(float(c).hex() for c in p), tuple(tuple(e) for e in E))      # (hex: -0.0 and 0.0 are different points)
            if key not in memo:
                regs = self.adaptive_regions(klass, p, E, closed)
                nbs = [len(e) - 1 for e in E]
                memo[key] = (regs, {slot(c, nbs) for c in itertools.product(*regs)} if all(n >= 1 for n in nbs) else None)
            return memo[key]

        def coords(p):
            return py_transform(klass, p)

        def where(got, nbs):
            if nd == 1:
                return None if got is None else ("under" if got < 0 else ("over" if got >= nbs[0] else (got,)))
            return "missed" if got is None else tuple(got)

        def grid_fail(label, S):
            """the bins of a snapshot: static axes unchanged, fixed-width axes consecutive bins on the grid of the first
            histogram that still cover its bins"""
            for a, mt in enumerate(meta):
                if mt["t"] != "fixed":
                    if S["bins"][a] != I["bins"][a]:
                        return f"grown_bins: {label}: the bins of the static axis {a} ({names[a]}) changed"
                    continue
                w, sh = Fraction(mt["w"]), Fraction(mt["shift"])
                ks = []
                for l, r in S["bins"][a]:
                    k = (Fraction(l) - sh) / w
                    if k.denominator != 1 or Fraction(r) != sh + (k + 1) * w:
                        return (f"grown_bins: {label}: axis {a} ({names[a]}) has the bin [{float(Fraction(l))}, {float(Fraction(r))}], "
                                f"not a cell of its grid of width {float(w)}")
                    ks.append(int(k))
                if any(ks[i + 1] != ks[i] + 1 for i in range(len(ks) - 1)):
                    return f"grown_bins: {label}: the bins of axis {a} ({names[a]}) are not consecutive: {[float(Fraction(l)) for l, _ in S['bins'][a]]}"[:400]
                if mt["count"] > 0 and (not ks or ks[0] > mt["tmin"] or ks[-1] < mt["tmin"] + mt["count"] - 1):
                    return f"grown_bins: {label}: axis {a} ({names[a]}) lost bins it had before the points were entered"
                if not ad[a] and len(ks) != mt["count"]:
                    return f"grown_bins: {label}: the bins of the non-adaptive axis {a} ({names[a]}) changed"
            return None

        def held_fail(label, p, E):
            """a finite point entered into the histogram lies inside the bins of every adaptive axis"""
            regs = regions(p, E)[0]
            for a in range(nd):
                nb = len(E[a]) - 1
                if ad[a] and not any(0 <= r < nb for r in regs[a]):
                    span = f"lies outside the bins [{E[a][0]}, {E[a][-1]}] of" if nb >= 1 else "was entered and there are still no bins on"
                    return (f"not_grown: {label}: the point {p} with {names[a]} = {coords(p)[a]!r} {span} the "
                            f"adaptive axis {a} ({names[a]}) after it was entered: an adaptive axis holds every finite value")
            return None

        def bounds_for(E):
            nbs = [len(e) - 1 for e in E]
            L, U, L2, U2 = defaultdict(Fraction), defaultdict(Fraction), defaultdict(Fraction), defaultdict(Fraction)
            for p, w in list(zip(P0, ws0)) + list(zip(P, ws)):
                slots = regions(p, E)[1]
                w = Fraction(w)
                if len(slots) == 1:
                    k = next(iter(slots))
                    L[k] += w; L2[k] += w * w
                for k in slots:
                    U[k] += w; U2[k] += w * w
            return (L, U, L2, U2), nbs
        total_w = sum(Fraction(w) for w in list(ws) + list(ws0))

        def final_fail(name, S):
            """the final histogram of one path against the exact expectation"""
            label = AD_PATH_LABELS[name]
            f = grid_fail(label, S)
            if f:
                return [f]
            E = [ad_edges(ax) for ax in S["bins"]]
            if any(e is None for e in E):
                return [f"grown_bins: {label}: bins with gaps"]
            for p in list(P0) + list(P):
                f = held_fail(label, p, E)
                if f:
                    return [f]
            if any(len(e) < 2 for e in E):
                return []                    # nothing entered, no bins: nothing to count
            b, nbs = bounds_for(E)
            return sparse_counts(label, S, nbs, b, total_w)
        # (a) the first histogram (facade / class + fill_n of the first points) holds the first points
        if not fails:
            E0 = [ad_edges(ax) for ax in I["bins"]]
            if any(e is None for e in E0):
                return [f"grown_bins: {how}: bins with gaps"]
            if all(len(e) >= 2 for e in E0) and P0:
                nbs0 = [len(e) - 1 for e in E0]
                L, U, L2, U2 = defaultdict(Fraction), defaultdict(Fraction), defaultdict(Fraction), defaultdict(Fraction)
                for p, w in zip(P0, ws0):
                    slots = regions(p, E0)[1]
                    w = Fraction(w)
                    if len(slots) == 1:
                        k = next(iter(slots))
                        L[k] += w; L2[k] += w * w
                    for k in slots:
                        U[k] += w; U2[k] += w * w
                fails += sparse_counts(how, I, nbs0, (L, U, L2, U2), sum(Fraction(w) for w in ws0))
                for p in P0:
                    f = held_fail(how, p, E0)
                    if f:
                        fails.append(f)
                        break
        # (b) every path: refused?, final bins on the grid, every point held by the adaptive axes, contents exact
        paths = [n for n in ("fill", "lshift", "fill_t", "fill_n1", "mixed", "chunks", "all", "all_t", "perm") if n in o]
        for name in paths:
            if o[name] is None:
                fails.append(f"paths_refused: {AD_PATH_LABELS[name]} raised on valid points: " + "; ".join(l for l in io["log"])[:300])
            else:       # (the same complaint about several paths is reported once: the twins are compared below)
                fails += [f for f in final_fail(name, o[name]["final"]) if not any(g.startswith(f.split(":")[0] + ":") for g in fails)]
        # (c) single fills: the index returned is the bin of the true coordinates in the bins as they are after the fill, and the one
        # find_bin gives afterwards (Cartesian point and transformed coordinates); find_bin before the fill changes nothing
        for name in ("fill", "fill_t"):
            R = o.get(name)
            if R is None:
                continue
            label = AD_PATH_LABELS[name]
            prev = [ad_edges(ax) for ax in I["bins"]]
            for j, p in enumerate(P):
                E = [[float(Fraction(x)) for x in e] for e in R["edges"][j]]
                nbs = [max(len(e) - 1, 0) for e in E]
                f = held_fail(label + f" (step {j})", p, E)
                if f:
                    if not any(g.startswith("not_grown:") for g in fails):
                        fails.append(f)
                    break
                if all(len(e) >= 2 for e in E):
                    slots = regions(p, E)[1]
                    if where(R["rets"][j], nbs) not in slots:
                        fails.append(f"wrong_bin: {label}: step {j}: the point {p} with true coordinates {coords(p)} is put in {R['rets'][j]} of the bins "
                                     f"{E}, it belongs to {sorted(map(str, slots))}"[:700])
                        break
                for other in ("find_after", "find_after_t"):
                    if R[other][j] != R["rets"][j]:
                        fails.append(f"paths_index: {label}: step {j}: fill returned {R['rets'][j]} for the point {p}, find_bin"
                                     f"{'(transformed=True)' if other.endswith('_t') else ''} afterwards gives {R[other][j]}")
                        break
                else:
                    if prev is not None and all(e is not None and len(e) >= 2 for e in prev):
                        nbp = [len(e) - 1 for e in prev]
                        slots = regions(p, prev)[1]
                        if where(R["find_before"][j], nbp) not in slots:
                            fails.append(f"wrong_bin: find_bin (before the point is entered): the point {p} with true coordinates {coords(p)} is found "
                                         f"in {R['find_before'][j]} of the bins {prev}, it belongs to {sorted(map(str, slots))}"[:700])
                            break
                    prev = E
                    continue
                break
            if R["find_changes"]:
                fails.append("find_bin_mutates: find_bin changed the histogram")
        def tell(X, Y, k):
            """the observable k of two snapshots in readable form"""
            def spans(S):
                return "bins " + ", ".join(f"{names[a]}: {len(ax)}" + (f" in [{float(Fraction(ax[0][0]))}, {float(Fraction(ax[-1][1]))}]" if ax else "")
                                           for a, ax in enumerate(S["bins"]))
            if k in ("bins", "shape"):
                return spans(X), spans(Y)
            if k in ("freq", "err2"):
                n = next((i for i, (x, y) in enumerate(zip(X[k], Y[k])) if x != y and Fraction(x) != Fraction(y)), 0)
                cell = list(np.unravel_index(n, X["shape"])) if X["shape"] and all(X["shape"]) else []
                word = "contents" if k == "freq" else "errors2"
                return (f"{word} {float(Fraction(X[k][n]))} in bin {[int(c) for c in cell]}", f"{float(Fraction(Y[k][n]))}")
            return f"{k} = {X.get(k)}", f"{Y.get(k)}"
        # (d) the twins: the same points through another entry path give the same histogram (bins grown alike, contents, errors2, missed)
        base = o.get("fill")
        if base is not None:
            B = base["final"]
            for name in paths:
                if name in ("fill", "perm") or o[name] is None:
                    continue
                k = same_counts_quick(o[name]["final"], B)
                if k and not any(g.startswith(f"paths_{k}:") for g in fails):
                    fails.append(f"paths_{k}: the same points entered into two histograms built by the same call: {AD_PATH_LABELS[name]} gives "
                                 f"{tell(o[name]['final'], B, k)[0]}, {AD_PATH_LABELS['fill']} {tell(o[name]['final'], B, k)[1]}"[:700])
            for name in ("fill_t", "fill_n1", "lshift", "mixed"):
                R = o.get(name)
                if R is None:
                    continue
                for j in range(len(P)):
                    if R["edges"][j] != base["edges"][j] or R["missed"][j] != base["missed"][j]:
                        what = "bins" if R["edges"][j] != base["edges"][j] else "missed"
                        fails.append(f"paths_{what}: after step {j} (point {P[j]}) {AD_PATH_LABELS[name]} has "
                                     + (f"{[max(len(e) - 1, 0) for e in R['edges'][j]]} bins" if what == "bins" else f"missed = {R['missed'][j]}") + ", "
                                     + f"{AD_PATH_LABELS['fill']} " + (f"{[max(len(e) - 1, 0) for e in base['edges'][j]]}" if what == "bins" else f"{base['missed'][j]}"))
                        break
                if name == "fill_t" and R["rets"] != base["rets"]:
                    j = next(i for i, (x, y) in enumerate(zip(R["rets"], base["rets"])) if x != y)
                    fails.append(f"paths_index: fill(transformed=True) returns {R['rets'][j]} for the coordinates of the point {P[j]}, fill of the point {base['rets'][j]}")
            # another order: the same contents in the same bins (bins without content may differ in number)
            if o.get("perm") is not None:
                def sparse(S):
                    cells = {}
                    shape = S["shape"]
                    for n, cell in enumerate(itertools.product(*[range(k) for k in shape])):
                        f, e2 = Fraction(S["freq"][n]), Fraction(S["err2"][n])
                        if f != 0 or e2 != 0:
                            cells[tuple(tuple(S["bins"][a][i]) for a, i in enumerate(cell))] = (f, e2)
                    return cells, (None if S["missed"] is None else Fraction(S["missed"]))
                if sparse(o["perm"]["final"]) != sparse(B):
                    fails.append(f"paths_order: entering the points in the order {case['perm']} by fill gives other contents per bin (or missed "
                                 f"{o['perm']['final']['missed']}) than in the given order (missed {B['missed']})")
        return fails[:6]

    # ------------------------------------------------------------------ model: base ND histogram on the transformed coordinates
    @staticmethod
    def model_axes(case, io):
        """edges of the explicitly constructed class the model follows: the case's own, or (facade kind) the ones the
        facade produced; None when there is nothing the model supports"""
        kind = case.get("kind", "special")
        if kind == "special":
            return case["axes"]
        if kind == "extreme":       # the model files the (finite) transformed coordinates into the explicit bins
            o = io["outs"]
            ok = o.get("finite") and o.get("rets_fill") is not None and o.get("fill_n") is not None
            return case["axes"] if ok else None
        if kind == "facade" and io["outs"].get("explicit_ok"):
            return io["outs"]["edges"]
        return None

    def model_case(self, case, io):
        if case.get("kind") == "adaptive":
            return self.model_adaptive(case, io)
        E = self.model_axes(case, io)
        if E is None:
            return None
        T = io["outs"]["transformed"]
        if any(v in (None, "inf", "-inf") for row in T for v in row):
            return None
        nd = len(E)
        ws = case["weights"]
        axes = [{"t": "static", "bins": [[rs(e[i]), rs(e[i + 1])] for i in range(len(e) - 1)], "ire": True} for e in E]
        wenc = None if ws is None else [rs(w) for w in ws]
        if nd == 1:
            ops = [{"op": "empty", "out": 0, "binning": axes[0]}]
            for j, row in enumerate(T):
                ops.append({"op": "fill", "h": 0, "v": row[0], "w": "1" if ws is None else wenc[j], "wk": "pyint" if ws is None or float(ws[j]).is_integer() else "pyfloat"})
            ops.append({"op": "empty", "out": 1, "binning": axes[0]})
            ops.append({"op": "fill_n", "h": 1, "vs": [r[0] for r in T], "ws": wenc, "wkind": "float64"})
            return {"kind": "hist1", "ops": ops}
        ops = [{"op": "empty", "out": 0, "axes": axes}]
        for j, row in enumerate(T):
            ops.append({"op": "fill", "h": 0, "v": row, "w": "1" if ws is None else wenc[j], "wk": "pyint" if ws is None or float(ws[j]).is_integer() else "pyfloat"})
        ops.append({"op": "empty", "out": 1, "axes": axes})
        ops.append({"op": "fill_n", "h": 1, "rows": T, "ws": wenc, "wkind": "float64"})
        return {"kind": "histn", "ops": ops}

    def model_adaptive(self, case, io):
        """the base histogram with the first histogram's binnings (static bins / fixed-width grid, adaptive or not) and contents;
        register 0 takes the transformed coordinates one by one (fill), register 1 in the chunks of the case (fill_n)"""
        o = io["outs"]
        I = o.get("init")
        if I is None or o.get("fill") is None or o.get("chunks") is None:
            return None
        T = o["transformed"]
        if any(v in (None, "inf", "-inf") for row in T for v in row) or any(x is None for x in I["freq"] + I["err2"]):
            return None
        nd = len(I["axes"])
        axes = []
        for mt, bins in zip(I["axes"], I["bins"]):
            if mt["t"] == "fixed":
                axes.append(dict(mt, align=True))
            else:
                axes.append({"t": "static", "bins": bins, "ire": mt["ire"]})
        ws = case["weights"]
        wenc = None if ws is None else [rs(w) for w in ws]

        def wk(j):
            return "pyint" if ws is None or float(ws[j]).is_integer() else "pyfloat"
        ops = []
        for reg in (0, 1):
            if nd == 1:
                ops.append({"op": "of_arrays", "out": reg, "binning": axes[0], "freq": I["freq"], "err2": I["err2"], "under": I["under"],
                            "over": I["over"], "inner": I["inner"], "dtype": I["dtype"]})
            else:
                ops.append({"op": "of_arrays", "out": reg, "axes": axes, "freq": I["freq"], "err2": I["err2"], "missed": I["missed"],
                            "dtype": I["dtype"]})
        for j, row in enumerate(T):
            ops.append({"op": "fill", "h": 0, "v": row[0] if nd == 1 else row, "w": "1" if ws is None else wenc[j], "wk": wk(j)})
        a = 0
        for c in case["chunks"]:
            if nd == 1:
                ops.append({"op": "fill_n", "h": 1, "vs": [r[0] for r in T[a:a + c]], "ws": None if ws is None else wenc[a:a + c], "wkind": "float64"})
            else:
                ops.append({"op": "fill_n", "h": 1, "rows": T[a:a + c], "ws": None if ws is None else wenc[a:a + c], "wkind": "float64"})
            a += c
        return {"kind": "hist1" if nd == 1 else "histn", "ops": ops}

    def diff_adaptive(self, case, model_ok, io):
        o = io["outs"]
        nd = len(o["init"]["axes"])
        d = []
        if model_ok[0]["ret"] != "ok" or model_ok[1]["ret"] != "ok":
            return [f"the model refuses the first histogram: {model_ok[0]['ret']}"]
        final = model_ok[-1]["regs"]
        for name, reg in (("fill", 0), ("chunks", 1)):
            m, S = final[reg], o[name]["final"]
            if [[[Fraction(x) for x in b] for b in ax] for ax in ([m["bins"]] if nd == 1 else m["bins"])] != \
                    [[[Fraction(x) for x in b] for b in ax] for ax in S["bins"]]:
                d.append(f"{name}.bins: model={m['bins']} impl={S['bins']}"[:400])
                continue
            for f in ("freq", "err2"):
                if [Fraction(x) for x in m[f]] != [Fraction(x) for x in S[f]]:
                    d.append(f"{name}.{f}: model={m[f]} impl={S[f]}"[:400])
            if nd == 1:
                for f in ("under", "over"):
                    if m[f] != S[f] and (m[f] is None or S[f] is None or Fraction(m[f]) != Fraction(S[f])):
                        d.append(f"{name}.{f}: model={m[f]} impl={S[f]}")
            elif m["missed"] != S["missed"] and (m["missed"] is None or S["missed"] is None or Fraction(m["missed"]) != Fraction(S["missed"])):
                d.append(f"{name}.missed: model={m['missed']} impl={S['missed']}")
        R = o["fill"]
        for j in range(len(case["points"])):
            a, b = model_ok[2 + j]["ret"], R["rets"][j]
            if nd == 1 and a == "over":
                a = len(R["edges"][j][0]) - 1
            if a != b:
                d.append(f"fill return {j}: model={a} impl={b}")
        return d[:6]

    def diff(self, case, model_ok, io):
        if case.get("kind") == "adaptive":
            return self.diff_adaptive(case, model_ok, io)
        o = io["outs"]
        E = self.model_axes(case, io)
        nd = len(E)
        n = len(case["points"])
        d = []
        final = model_ok[-1]["regs"]
        for name, reg in (("fill", 0), ("fill_n", 1)):
            m = final[reg]
            if [Fraction(x) for x in m["freq"]] != [Fraction(x) for x in o[name]["freq"]]:
                d.append(f"{name}.freq: model={m['freq']} impl={o[name]['freq']}")
            if [Fraction(x) for x in m["err2"]] != [Fraction(x) for x in o[name]["err2"]]:
                d.append(f"{name}.err2: model={m['err2']} impl={o[name]['err2']}")
        rets = [model_ok[1 + j]["ret"] for j in range(n)]
        nb = len(E[0]) - 1
        for j, (a, b) in enumerate(zip(rets, o["rets_fill"])):
            a2 = (nb if a == "over" else a) if nd == 1 else a
            if a2 != b:
                d.append(f"fill return {j}: model={a} impl={b}")
        return d[:6]

    # ------------------------------------------------------------------ oracle
    def oracle(self, case, io):
        return getattr(self, "oracle_" + case.get("kind", "special"))(case, io)

    def oracle_special(self, case, io):
        o = io["outs"]
        fails = []
        klass = case["class"]
        P = case["points"]
        for j, p in enumerate(P):
            exp = py_transform(klass, p)
            for name in ("transformed", "single_transform"):
                got = [float(Fraction(x)) if x not in (None, "inf", "-inf") else float("nan") for x in o[name][j]]
                if len(got) != len(exp) or any(ulps(a, b) > 4 for a, b in zip(got, exp)):
                    fails.append(f"transform: {klass}.transform({p}) = {got}, true coordinates {exp} ({name})")
                    break
            if fails:
                break
        for j, row in enumerate(o["transformed"]):
            vals = [float(Fraction(x)) for x in row if x is not None]
            for kd, v in zip(KIND[klass], vals):
                if kd == "r" and v < 0:
                    fails.append(f"range: r = {v} < 0")
                if kd == "phi" and not (0 <= v <= TWO_PI):
                    fails.append(f"range: phi = {v} outside [0, 2pi] for point {P[j]}")
                if kd == "theta" and not (0 <= v <= math.pi):
                    fails.append(f"range: theta = {v} outside [0, pi]")
        if o["points_after"] != [[nrs(x) for x in p] for p in P]:
            fails.append("input_modified: the caller's array of points was modified")
        if o["find_changes"]:
            fails.append("find_bin_mutates: find_bin changed the histogram")
        # all entry paths agree
        base = o["fill_n_t"]
        for name in ("fill", "fill_n", "fill_n_again", "fill_t"):
            for f in ("freq", "err2", "missed"):
                if o[name][f] != base[f]:
                    fails.append(f"paths_{f}: {name} gives {o[name][f]}, entering the transformed coordinates gives {base[f]}")
        for name in ("rets_fill", "rets_find", "rets_fill_t"):
            if o[name] != o["rets_find_t"]:
                k = next(i for i, (a, b) in enumerate(zip(o[name], o["rets_find_t"])) if a != b)
                fails.append(f"paths_index: {name}[{k}] = {o[name][k]} for point {P[k]}, find_bin of its transformed coordinates = {o['rets_find_t'][k]}")
        if o["facade"] is None:
            fails.append("facade_refused: the facade function raised: " + "; ".join(io["log"][:1]))
        else:
            for f in ("freq", "err2"):
                if o["facade"][f] != base[f]:
                    fails.append(f"facade_{f}: the facade gives {o['facade'][f]}, fill_n gives {base[f]}")
            if o["facade"]["_class"] != klass:
                fails.append(f"facade_class: {o['facade']['_class']}")
        # the bin found is the bin containing the true coordinates (independent check)
        edges = case["axes"]
        for j, p in enumerate(P):
            exp = py_transform(klass, p)
            cell = []
            ok = True
            for v, e in zip(exp, edges):
                # skip points within 4 ulps of an edge (libm tolerance)
                if any(ulps(v, x) <= 4 for x in e):
                    ok = False
                    break
                i = np.searchsorted(e, v, side="right") - 1
                cell.append(int(i) if 0 <= i < len(e) - 1 else None)
            if not ok:
                continue
            want = None if any(c is None for c in cell) else (cell if len(edges) > 1 else cell[0])
            got = o["rets_find"][j]
            if len(edges) == 1:
                got = got if got is not None and 0 <= got < len(edges[0]) - 1 else None
            if got != want:
                fails.append(f"wrong_bin: point {p} with true coordinates {exp} is put in bin {o['rets_find'][j]}, it belongs to {want}")
        # projections: class map and marginal contents
        from ..core import run_model as _rm
        PM = {("PolarHistogram", "0"): "RadialHistogram", ("PolarHistogram", "1"): "AzimuthalHistogram",
              ("SphericalHistogram", "1,2"): "SphericalSurfaceHistogram", ("SphericalHistogram", "0"): "RadialHistogram",
              ("CylindricalHistogram", "0"): "RadialHistogram", ("CylindricalHistogram", "1"): "AzimuthalHistogram",
              ("CylindricalHistogram", "0,1"): "PolarHistogram", ("CylindricalHistogram", "1,2"): "CylindricalSurfaceHistogram",
              ("CylindricalSurfaceHistogram", "0"): "AzimuthalHistogram"}
        if len(edges) > 1:
            F = np.array([Fraction(x) for x in o["fill_n"]["freq"]], dtype=object).reshape(o["fill_n"]["shape"])
            for key, pr in o["projections"].items():
                axs = [int(a) for a in key.split(",")]
                want = PM.get((klass, key), "Histogram1D" if len(axs) == 1 else ("Histogram2D" if len(axs) == 2 else "HistogramND"))
                if pr["class"] != want:
                    fails.append(f"projection_class: projection({key}) of {klass} is a {pr['class']}, expected {want}")
                drop = tuple(i for i in range(len(edges)) if i not in axs)
                if pr["class"] != "ERROR" and [Fraction(x) for x in pr["freq"]] != list(np.asarray(F.sum(axis=drop), dtype=object).ravel()):
                    fails.append(f"projection_content: projection({key}) is not the marginal")
                if pr["class"] == "CylindricalSurfaceHistogram" and float(Fraction(pr["radius"])) != edges[0][-1]:
                    fails.append(f"surface_radius: cylinder-surface projection has radius {pr['radius']}, the outer rho edge is {edges[0][-1]}")
        if o["wrong_dim"] != "REFUSED" or o["wrong_dim_fill_n"] != "REFUSED":
            fails.append("accepted_invalid: input of the wrong dimensionality accepted")
        return fails[:6]

    def nontrivial(self, case, io):
        kind = case.get("kind", "special")
        o = io["outs"]
        if kind == "f32":
            return True
        if kind == "baddims":
            return len(case["calls"]) >= 1 and o["prefilled"]
        if kind == "radius":
            return o["nonempty"]
        if kind == "chain":
            return o["root"] is not None and o.get("nonempty_cells", 0) >= 2
        if kind == "adaptive":      # an adaptive axis had to grow for one of the points
            return bool(o.get("init") is not None and o.get("grew") and case["points"])
        if kind == "facade" and o["facade"] is None:
            return False
        key = "rets_find_t" if kind in ("special", "extreme") else "rets_find"
        r = [str(x) for x in (o[key] or []) if x is not None]
        return len(set(r)) >= 2

    def tags(self, case, io):
        return list(case["tags"]) + (["weights"] if case.get("weights") else []) + list(io["outs"].get("dyn_tags", []))

    def matches_known(self, finding, case):
        return True

    def neighbours(self, case):
        """the same histogram and points moved to extreme magnitudes (every coordinate times one exact power of two; the radial
        axis gets the many-decade edges so that the moved points still meet bins)"""
        if ENABLE_ADAPTIVE and case.get("kind") == "adaptive":
            # the same histogram built the other ways, and the points moved outwards (times 2 and 4: still eighths)
            for b in ("facade", "set_adaptive", "class"):
                if b != case["build"] and (b == "class" or case["init"]):
                    yield dict(copy.deepcopy(case), build=b, tags=sorted(set(t for t in case["tags"] if not t.startswith("build:")) | {"build:" + b, "stream:adaptive_neighbour"}))
            for f in (2.0, 4.0):
                c = copy.deepcopy(case)
                c["points"] = [[x * f for x in p] for p in case["points"]]
                c["tags"] = sorted(set(case["tags"]) | {"stream:adaptive_neighbour"})
                yield c
            return
        if not ENABLE_EXTREME or case.get("kind", "special") not in ("special", "extreme") or not case.get("points"):
            return
        klass = case["class"]
        for k in (520, 700, 1000, -545, -700, -1000):
            try:
                pts = [[math.ldexp(float(c), k) for c in p] for p in case["points"]]
            except OverflowError:
                continue
            if any(math.isinf(c) or abs(c) > EXT_MAX for p in pts for c in p):
                continue
            axes = [list(EXT_LADDER) if kd == "r" else ([float(x) for x in e] if kd != "z" else list(EXT_Z[0]))
                    for kd, e in zip(KIND[klass], case["axes"])]
            yield {"kind": "extreme", "class": klass, "dim": case["dim"], "axes": axes, "points": pts, "weights": case.get("weights"),
                   "nan_row": False, "form": "cols" if (klass == "RadialHistogram" or case["dim"] == 2) else "array",
                   "tags": ["kind:extreme", "stream:extreme_neighbour", "class:" + klass, f"dim:{case['dim']}"]}

    def shrink_candidates(self, case):
        kind = case.get("kind", "special")
        if kind == "chain":
            # drop a projection nothing else is taken from; forget a renaming
            for j in range(len(case["steps"])):
                if len(case["steps"]) > 1 and not any(st["parent"] == j + 1 for st in case["steps"]):
                    c = copy.deepcopy(case)
                    del c["steps"][j]
                    for st in c["steps"]:
                        if st["parent"] > j + 1:
                            st["parent"] -= 1
                    yield c
            for j, st in enumerate(case["steps"]):
                if st["rename"]:
                    c = copy.deepcopy(case)
                    c["steps"][j]["rename"] = None
                    yield c
            for key in ("names1", "names0"):
                if case[key]:
                    c = copy.deepcopy(case)
                    c[key] = None
                    yield c
        if kind == "baddims":
            for j in range(len(case["calls"])):
                if len(case["calls"]) <= 1:
                    break
                c = copy.deepcopy(case)
                del c["calls"][j]
                yield c
        if kind == "extreme":
            # without weights; coordinates with one significant digit (the oracle does not need the radius inside a bin)
            if case.get("weights") is not None:
                c = copy.deepcopy(case)
                c["weights"] = None
                yield c
            if len(case["points"]) <= 2:
                for j, p in enumerate(case["points"]):
                    for i, v in enumerate(p):
                        for simpler in (0.0, float("%.0e" % v)):
                            if simpler != v and not (simpler == 0.0 and v == 0.0):
                                c = copy.deepcopy(case)
                                c["points"][j][i] = simpler
                                yield c
        if kind == "adaptive":
            # fewer points entered (chunks and the other order follow), fewer first points, no weights
            m = len(case["points"])
            for j in range(m):
                if m <= 1:
                    break
                c = copy.deepcopy(case)
                del c["points"][j]
                if c["weights"] is not None:
                    del c["weights"][j]
                a = 0
                for i, n in enumerate(c["chunks"]):
                    if a <= j < a + n:
                        c["chunks"][i] -= 1
                        break
                    a += n
                c["chunks"] = [n for n in c["chunks"] if n > 0]
                c["perm"] = [i - (i > j) for i in c["perm"] if i != j]
                yield c
            for j in range(len(case["init"])):
                if len(case["init"]) <= (0 if case["build"] == "class" else 1):
                    break
                c = copy.deepcopy(case)
                del c["init"][j]
                if c["init_weights"] is not None:
                    del c["init_weights"][j]
                yield c
            for key in ("weights", "init_weights"):
                if case[key] is not None:
                    c = copy.deepcopy(case)
                    c[key] = None
                    yield c
            if len(case["chunks"]) > 1:
                c = copy.deepcopy(case)
                c["chunks"] = [m]
                yield c
            return
        for key in ("points", "points2"):
            if key not in case:
                continue
            for j in range(len(case[key])):
                if len(case[key]) <= 1:
                    break
                c = copy.deepcopy(case)
                del c[key][j]
                if key == "points" and c.get("weights") is not None:
                    del c["weights"][j]
                yield c


PROP = C15()

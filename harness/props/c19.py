"""C19 — the free-arithmetics switch is scoped, restored and isolated per context."""
from __future__ import annotations

import asyncio
import copy
import json
import os
import subprocess
import sys
import threading
import warnings

import numpy as np

from ..runner import diff_outputs

warnings.simplefilter("ignore")


# ---------------------------------------------------------------- programs
def gen_items(rng, depth=0, maxlen=4):
    """tree program: list of items"""
    items = []
    for _ in range(rng.randint(1, maxlen)):
        r = rng.random()
        if r < 0.2:
            items.append(["set", rng.random() < 0.5])
        elif r < 0.45:
            items.append(["read"])
        elif r < 0.6:
            items.append(["arith", rng.choice(["array", "negative", "negative_nan", "array_mul", "array_div", "array_sub", "negative_factor"])])
        elif depth < 3:
            body = gen_items(rng, depth + 1, maxlen=3)
            items.append(["with", rng.random() < 0.6, body, rng.random() < 0.35])   # value, body, body raises at its end
        else:
            items.append(["read"])
    return items


def linearize(items):
    """the primitive operations a program executes, grouped into atomic actions
    returns (actions, raised) where each action is a list of primitive ops"""
    acts = []
    for it in items:
        if it[0] == "set":
            acts.append([{"op": "set", "v": it[1]}])
        elif it[0] == "read":
            acts.append([{"op": "read"}])
        elif it[0] == "arith":
            acts.append([{"op": "arith", "how": it[1]}])
        elif it[0] == "spawn":
            acts.append([{"op": it[1], "child": it[2]}])
        elif it[0] == "with":
            acts.append([{"op": "enter", "v": it[1]}])
            inner, raised = linearize(it[2])
            acts += inner
            if raised:
                # an exception from a nested block unwinds this block in the same atomic step
                acts[-1].append({"op": "exit"})
                return acts, True
            if it[3]:
                acts.append([{"op": "exit", "raised": True}])
                return acts, True
            acts.append([{"op": "exit"}])
    return acts, False


def top_level(items):
    """wrap so that an exception escaping the outermost block is caught (the thread goes on)"""
    out = []
    for it in items:
        out.append(["try", [it]] if it[0] == "with" else it)
    return out


def linearize_top(items):
    acts = []
    for it in items:
        a, _ = linearize([it])
        acts += a
    return acts


class Boom(Exception):
    pass


# ---------------------------------------------------------------- real execution
def do_arith(how):
    from physt.histogram1d import Histogram1D
    try:
        with warnings.catch_warnings():
            warnings.simplefilter("ignore")
            if how == "array":
                h = Histogram1D([0, 1, 2], [1, 2])
                h + np.ones(2)
            elif how == "array_mul":
                h = Histogram1D([0, 1, 2], [1, 2])
                h *= [2, 3]
            elif how == "array_div":
                h = Histogram1D([0, 1, 2], [1, 2])
                h /= np.array([2.0, 4.0])
                if h.frequencies.tolist() != [0.5, 0.5] or h.errors2.tolist() != [0.25, 0.125]:
                    raise AssertionError(f"h /= array gave {h.frequencies.tolist()} / {h.errors2.tolist()}")
            elif how == "array_sub":
                h = Histogram1D([0, 1, 2], [1, 2])
                h - np.ones(2)
            elif how == "negative_factor":
                h = Histogram1D([0, 1, 2], [1, 2])
                h * (-1)
            elif how == "negative_nan":
                Histogram1D([0, 1, 2, 3], [float("nan"), -1, 2])
            else:
                Histogram1D([0, 1, 2], [-1, 2])
        return True
    except (TypeError, ValueError):
        return False


def exec_sync(items, gate, obs, tid):
    from physt.config import config
    for it in items:
        if it[0] == "set":
            gate(); config.free_arithmetics = it[1]; obs.append((tid, None))
        elif it[0] == "read":
            gate(); obs.append((tid, {"value": bool(config.free_arithmetics)}))
        elif it[0] == "arith":
            gate(); obs.append((tid, {"accepted": do_arith(it[1])}))
        elif it[0] == "with":
            gate()
            with config.enable_free_arithmetics(it[1]):
                obs.append((tid, None))
                try:
                    exec_sync(it[2], gate, obs, tid)
                except Boom:
                    obs.append((tid, None))   # left by the exception of a nested block, in the same atomic step
                    raise
                gate()
                obs.append((tid, None))
                if it[3]:
                    raise Boom()


def run_threads(programs, order, spawn_parent):
    """programs: {tid: items}; order: list of tids (one entry per atomic action)"""
    obs = []
    sems = {t: threading.Semaphore(0) for t in programs}
    done = threading.Semaphore(0)
    state = {"first": {t: True for t in programs}}

    def make_gate(t):
        def gate():
            if not state["first"][t]:
                done.release()
            state["first"][t] = False
            sems[t].acquire()
        return gate

    def body(t):
        gate = make_gate(t)
        for it in programs[t]:
            try:
                exec_sync([it], _wrap(gate, obs, t), obs, t)
            except Boom:
                pass
        if not state["first"][t]:
            done.release()

    threads = {t: threading.Thread(target=body, args=(t,), daemon=True) for t in programs}
    for t in threads.values():
        t.start()
    for t in order:
        sems[t].release()
        if not done.acquire(timeout=20):
            raise RuntimeError("schedule deadlock")
    for t in threads.values():
        t.join(timeout=5)
    return obs


def _wrap(gate, obs, t):
    return gate


def run_tasks(programs, order, parent_of):
    """asyncio: every program is a task; children are created by their parent's spawn op"""
    from physt.config import config
    obs = []

    async def main():
        events = {t: asyncio.Event() for t in programs}
        done = asyncio.Event()
        first = {t: True for t in programs}
        tasks = {}

        async def gate(t):
            if not first[t]:
                done.set()
            first[t] = False
            await events[t].wait()
            events[t].clear()

        async def exec_items(items, t):
            for it in items:
                if it[0] == "set":
                    await gate(t); config.free_arithmetics = it[1]; obs.append((t, None))
                elif it[0] == "read":
                    await gate(t); obs.append((t, {"value": bool(config.free_arithmetics)}))
                elif it[0] == "arith":
                    await gate(t); obs.append((t, {"accepted": do_arith(it[1])}))
                elif it[0] == "spawn":
                    await gate(t)
                    tasks[it[2]] = asyncio.create_task(body(it[2]))
                    obs.append((t, None))
                elif it[0] == "with":
                    await gate(t)
                    with config.enable_free_arithmetics(it[1]):
                        obs.append((t, None))
                        try:
                            await exec_items(it[2], t)
                        except Boom:
                            obs.append((t, None))
                            raise
                        await gate(t)
                        obs.append((t, None))
                        if it[3]:
                            raise Boom()

        async def body(t):
            for it in programs[t]:
                try:
                    await exec_items([it], t)
                except Boom:
                    pass
            if not first[t]:
                done.set()

        roots = [t for t in programs if parent_of.get(t) is None]
        for t in roots:
            tasks[t] = asyncio.create_task(body(t))
        await asyncio.sleep(0)
        for t in order:
            done.clear()
            events[t].set()
            await asyncio.wait_for(done.wait(), timeout=20)
        for tk in list(tasks.values()):
            await asyncio.wait_for(tk, timeout=5)

    asyncio.run(main())
    return obs


ENV_SCRIPT = r'''
import json, sys, warnings
warnings.simplefilter("ignore")
sys.path.insert(0, %r)
from harness.props import c19
prog = json.loads(sys.argv[1])
obs = c19.run_threads({0: prog}, [0] * len(c19.linearize_top(prog)), {})
print(json.dumps([o for _, o in obs]))
'''


class C19:
    ID = "C19"
    N_QUICK = 150
    N_THOROUGH = 3000
    N_SEARCH = 150
    RULE = ("programs of set / read / arithmetic-with-array / negative-contents / nested `with enable_free_arithmetics(v)` blocks "
            "(depth <= 4, bodies that raise at any depth) for 1-3 real threads or asyncio tasks (children spawned mid-program), run "
            "under a generated interleaving of their atomic steps (threads stepped by semaphores, tasks by events); every read and "
            "every accept / refuse decision is recorded; each thread's program is re-run alone and compared (isolation); one "
            "subprocess run with PHYST_FREE_ARITHMETICS=1 (environment default). Thorough: all interleavings of small programs. "
            "non-trivial = at least two contexts with different values alive at once; distinct = hash of programs + schedule")
    ASSUMPTIONS = ["CPython's contextvars / threading / asyncio semantics (a new thread starts with an empty context, a task with a copy)",
                   "the GIL-level atomicity of a single set / reset is not explored: steps are scheduled deterministically"]
    EXTRA_TRUST = ["the model cannot exhibit interpreter-level races; schedules are the interleavings of whole ContextVar operations"]

    def gen_case(self, rng, k, tier):
        mode = rng.choice(["threads", "threads", "tasks", "single"])
        nthreads = 1 if mode == "single" else rng.randint(2, 3)
        programs = {t: gen_items(rng) for t in range(nthreads)}
        parent_of = {}
        if mode == "tasks" and nthreads >= 2 and rng.random() < 0.6:
            # task 1 is spawned by task 0 somewhere in the middle of task 0's top-level program
            pos = rng.randint(0, len(programs[0]))
            programs[0].insert(pos, ["spawn", "spawn_task", 1])
            parent_of[1] = 0
        return self.finish(rng, mode, programs, parent_of)

    def finish(self, rng, mode, programs, parent_of, order=None):
        acts = {t: linearize_top(p) for t, p in programs.items()}
        if order is None:
            # a random interleaving that respects spawn order
            remaining = {t: len(a) for t, a in acts.items()}
            started = {t for t in programs if parent_of.get(t) is None}
            pos = {t: 0 for t in programs}
            order = []
            while any(remaining[t] for t in remaining):
                cand = [t for t in started if remaining[t]]
                if not cand:
                    break
                t = rng.choice(cand)
                a = acts[t][pos[t]]
                for o in a:
                    if o["op"] in ("spawn_task", "spawn_thread"):
                        started.add(o["child"])
                order.append(t)
                pos[t] += 1
                remaining[t] -= 1
        sched = []
        pos = {t: 0 for t in programs}
        for t in order:
            for o in acts[t][pos[t]]:
                e = {"t": t, "op": o["op"]}
                if "v" in o:
                    e["v"] = o["v"]
                if "child" in o:
                    e["child"] = o["child"]
                sched.append(e)
            pos[t] += 1
        return {"kind": "config", "mode": mode, "default": False,
                "programs": {str(t): p for t, p in programs.items()}, "parent_of": {str(k): v for k, v in parent_of.items()},
                "order": order, "sched": sched, "tags": ["mode:" + mode, f"threads:{len(programs)}"]}

    def exhaustive_cases(self, tier):
        import itertools
        import random
        rng = random.Random(19)
        progs = [
            {0: [["with", True, [["read"], ["arith", "array"]], False], ["read"]], 1: [["read"], ["set", False], ["arith", "array"]]},
            {0: [["set", True], ["with", False, [["read"]], True], ["read"]], 1: [["with", True, [["read"]], False], ["read"]]},
        ]
        if tier == "thorough":
            progs.append({0: [["with", True, [["with", False, [["read"]], True]], False], ["read"]], 1: [["set", True], ["read"]],
                          2: [["read"], ["arith", "negative"]]})
        for p in progs:
            acts = {t: linearize_top(x) for t, x in p.items()}
            base = [t for t, a in acts.items() for _ in a]
            seen = set()
            for perm in itertools.permutations(base):
                if perm in seen:
                    continue
                seen.add(perm)
                if len(seen) > (400 if tier == "thorough" else 40):
                    break
                for mode in ("threads", "tasks"):
                    c = self.finish(rng, mode, copy.deepcopy(p), {}, order=list(perm))
                    c["tags"].append("exhaustive_interleavings")
                    yield c
        # environment default in a subprocess
        yield {"kind": "config", "mode": "env", "default": True, "programs": {"0": [["read"], ["arith", "array"], ["with", False, [["read"]], False], ["read"]]},
               "parent_of": {}, "order": [0] * 5,
               "sched": [{"t": 0, "op": "read"}, {"t": 0, "op": "arith"}, {"t": 0, "op": "enter", "v": False}, {"t": 0, "op": "read"},
                         {"t": 0, "op": "exit"}, {"t": 0, "op": "read"}], "tags": ["env_default"]}

    # ------------------------------------------------------------------ run
    def run_impl(self, case):
        programs = {int(t): p for t, p in case["programs"].items()}
        parent_of = {int(k): v for k, v in case["parent_of"].items()}
        if case["mode"] == "env":
            env = dict(os.environ, PHYST_FREE_ARITHMETICS="1")
            verif = os.path.dirname(os.path.dirname(os.path.dirname(os.path.abspath(__file__))))
            p = subprocess.run([sys.executable, "-c", ENV_SCRIPT % verif, json.dumps(programs[0])], env=env,
                               capture_output=True, text=True, timeout=120)
            if p.returncode != 0:
                raise RuntimeError("env subprocess failed: " + p.stderr[-800:])
            return {"outs": [{"t": 0, "obs": o} for o in json.loads(p.stdout.strip().splitlines()[-1])], "solo": {}, "log": []}
        runner = run_tasks if case["mode"] == "tasks" else run_threads
        obs = runner(programs, case["order"], parent_of)
        outs = [{"t": t, "obs": o} for t, o in obs]
        solo = {}
        for t, p in programs.items():
            if parent_of.get(t) is None and not any(it[0] == "spawn" for it in p):
                so = run_threads({t: p}, [t] * len(linearize_top(p)), {})
                solo[str(t)] = [o for _, o in so]
        return {"outs": outs, "solo": solo, "log": []}

    def model_case(self, case, io):
        return {"kind": "config", "default": case["default"], "sched": case["sched"]}

    def diff(self, case, model_ok, io):
        return diff_outputs(model_ok, io["outs"], None, None)

    # ------------------------------------------------------------------ oracle
    def oracle(self, case, io):
        fails = []
        outs = io["outs"]
        # isolation: what a thread observes equals what it observes alone
        for t, so in io["solo"].items():
            mine = [o["obs"] for o in outs if o["t"] == int(t)]
            if mine != so:
                k = next((i for i, (a, b) in enumerate(zip(mine, so)) if a != b), min(len(mine), len(so)))
                fails.append(f"not_isolated: thread {t} observes {mine[k] if k < len(mine) else None} at its step {k} under the schedule "
                             f"but {so[k] if k < len(so) else None} when run alone")
        # restore + gate on each thread's own trace
        per = {}
        for e, o in zip(case["sched"], outs):
            per.setdefault(e["t"], []).append((e, o["obs"]))
        for t, tr in per.items():
            stack = []
            cur = None   # last known value read in this thread
            known = None
            for e, o in tr:
                if e["op"] == "read":
                    if known is not None and o["value"] != known:
                        fails.append(f"not_restored: thread {t} reads {o['value']} where {known} was in force")
                    known = o["value"]
                elif e["op"] == "set":
                    known = e["v"]
                elif e["op"] == "enter":
                    stack.append(known)
                    known = e["v"]
                elif e["op"] == "exit":
                    known = stack.pop() if stack else None
                elif e["op"] == "arith":
                    if known is not None and o["accepted"] != known:
                        fails.append(f"gate: thread {t}: operand accepted={o['accepted']} while free_arithmetics is {known}")
                elif e["op"] in ("spawn_task", "spawn_thread"):
                    pass
        if case["mode"] == "env":
            if outs and outs[0]["obs"] != {"value": True}:
                fails.append("env_default: PHYST_FREE_ARITHMETICS=1 is not the default")
        return fails[:6]

    def nontrivial(self, case, io):
        vals = {}
        for e, o in zip(case["sched"], io["outs"]):
            if e["op"] == "read":
                vals.setdefault(e["t"], set()).add(o["obs"]["value"])
        return len(vals) >= 2 and len(set().union(*vals.values())) == 2 if vals else False

    def tags(self, case, io):
        return list(case.get("tags", [])) + [f"op:{e['op']}" for e in case["sched"]]

    def matches_known(self, finding, case):
        return True

    def neighbours(self, case):
        return []

    def shrink_candidates(self, case):
        # drop a whole top-level item of one program and rebuild with a round-robin order
        import random
        programs = {int(t): p for t, p in case["programs"].items()}
        parent_of = {int(k): v for k, v in case["parent_of"].items()}
        for t, p in programs.items():
            for i in range(len(p)):
                if p[i][0] == "spawn":
                    continue
                q = copy.deepcopy(programs)
                del q[t][i]
                if not q[t]:
                    q[t] = [["read"]]
                yield self.finish(random.Random(1), case["mode"], q, parent_of)


PROP = C19()

"""C19 — the free-arithmetics switch is scoped, restored and isolated per context.

Program items (JSON lists):
  ["set", v]  ["read"]  ["arith", how]  ["spawn", "spawn_task", child]
  ["with", v, body, raises]             a fresh `with config.enable_free_arithmetics(v):` statement
  ["with", v, body, raises, form]       the same block, entered through another way of USING the returned object:
        "stored:<k>"   cm = config.enable_free_arithmetics(v) kept in cms[k] (shared by the whole case), then `with cm:`
        "stack"        contextlib.ExitStack().enter_context(config.enable_free_arithmetics(v))
        "dec:on|off"   a call of the function decorated (once per run, shared by all threads) with
                       @config.enable_free_arithmetics() / @config.enable_free_arithmetics(False); the body is the callee's
                       body and is stepped by the schedule like the body of a with statement (real threads only)
        "adec:on|off"  the same call, carried out in ONE atomic step of the schedule (also inside asyncio tasks, where a
                       plain function cannot be suspended)
        "gen:next|close|throw"  a generator (threads) / async generator (tasks) that enters the block and yields; it is
                       resumed to its end / closed / given an exception by the context that started it
     `raises`: False | True (the body ends by raising Boom) | "fail:<how>" (the body ends with an operation physt refuses
     in every mode; physt's own exception leaves the block).  The exception is caught outside the outermost block.
  ["reenter", k]         try to enter the stored manager cms[k] again (`with cm: read`), while it is entered or after it was
                         left, from any thread / task: the unchanged library refuses (a generator-based manager is
                         single-use) -- a refusal, or an entry that is left again at once, leaves the value where it was;
                         then read
  ["gen_open", k, v]     (top level only) start a generator that enters the block and stays suspended in it: the context
                         stays inside the block for the rest of its program
  ["gen_close", k, how]  ANOTHER thread / task resumes / closes / throws into that generator (the library refuses: a token
                         belongs to the context it was made in; whatever happens is caught), then reads its OWN value
"""
from __future__ import annotations

import asyncio
import contextlib
import contextvars
import copy
import itertools
import json
import os
import subprocess
import sys
import threading
import warnings

import numpy as np

from ..runner import diff_outputs

warnings.simplefilter("ignore")

ARITH_HOWS = ["array", "negative", "negative_nan", "array_mul", "array_div", "array_sub", "negative_factor"]
GATED = ["negative_factor", "array", "array_mul", "array_div", "array_sub", "negative"]
FAIL_HOWS = ["hist_mul_hist", "hist_div_hist", "incompatible_add"]


# ---------------------------------------------------------------- programs
def gen_items(rng, depth=0, maxlen=4):
    """tree program: list of items"""
    items = []
    for _ in range(rng.randint(1, maxlen)):
        r = rng.random()
        if r < 0.2:
            items.append(["set", rng.random() < 0.5])
        elif r < 0.45:
            items.append(["read"])
        elif r < 0.6:
            items.append(["arith", rng.choice(ARITH_HOWS)])
        elif depth < 3:
            body = gen_items(rng, depth + 1, maxlen=3)
            items.append(["with", rng.random() < 0.6, body, rng.random() < 0.35])   # value, body, body raises at its end
        else:
            items.append(["read"])
    return items


def form_of(it):
    return it[4] if len(it) > 4 else "with"


def blk(v, body, raises=False, form="with"):
    return ["with", v, body, raises] if form == "with" else ["with", v, body, raises, form]


def linearize(items, atomic=False):
    """the primitive operations a program executes, grouped into atomic actions
    returns (actions, raised) where each action is a list of primitive ops"""
    acts = []
    for it in items:
        if it[0] == "set":
            acts.append([{"op": "set", "v": it[1]}])
        elif it[0] == "read":
            acts.append([{"op": "read"}])
        elif it[0] == "arith":
            acts.append([{"op": "arith", "how": it[1]}])
        elif it[0] == "spawn":
            acts.append([{"op": it[1], "child": it[2]}])
        elif it[0] == "reenter":
            acts.append([{"op": "read", "src": "reenter", "k": it[1]}])
        elif it[0] == "gen_open":
            acts.append([{"op": "enter", "v": it[2], "src": "gen_open", "k": it[1]}])
        elif it[0] == "gen_close":
            acts.append([{"op": "read", "src": "gen_close", "k": it[1]}])
        elif it[0] == "with":
            form = form_of(it)
            if form.startswith("adec:") and not atomic:
                # the whole call (entry, body, exit) is one step of the schedule
                inner, raised = linearize([it], atomic=True)
                acts.append([o for a in inner for o in a])
                if raised:
                    return acts, True
                continue
            e = {"op": "enter", "v": it[1]}
            if form != "with":
                e["form"] = form
            acts.append([e])
            inner, raised = linearize(it[2], atomic)
            acts += inner
            if raised:
                # an exception from a nested block unwinds this block in the same atomic step
                acts[-1].append({"op": "exit"})
                return acts, True
            if it[3]:
                acts.append([{"op": "exit", "raised": True}])
                return acts, True
            acts.append([{"op": "exit"}])
    return acts, False


def linearize_top(items):
    acts = []
    for it in items:
        a, _ = linearize([it])
        acts += a
    return acts


class Boom(Exception):
    pass


def is_leave(e):
    """an exception the program itself asked for: Boom, or physt's refusal of an operation refused in every mode"""
    return isinstance(e, Boom) or getattr(e, "_c19_expected", False)


# ---------------------------------------------------------------- real execution
def do_arith(how):
    from physt.histogram1d import Histogram1D
    try:
        with warnings.catch_warnings():
            warnings.simplefilter("ignore")
            if how == "array":
                h = Histogram1D([0, 1, 2], [1, 2])
                h + np.ones(2)
            elif how == "array_mul":
                h = Histogram1D([0, 1, 2], [1, 2])
                h *= [2, 3]
            elif how == "array_div":
                h = Histogram1D([0, 1, 2], [1, 2])
                h /= np.array([2.0, 4.0])
                if h.frequencies.tolist() != [0.5, 0.5] or h.errors2.tolist() != [0.25, 0.125]:
                    raise AssertionError(f"h /= array gave {h.frequencies.tolist()} / {h.errors2.tolist()}")
            elif how == "array_sub":
                h = Histogram1D([0, 1, 2], [1, 2])
                h - np.ones(2)
            elif how == "negative_factor":
                h = Histogram1D([0, 1, 2], [1, 2])
                h * (-1)
            elif how == "negative_nan":
                Histogram1D([0, 1, 2, 3], [float("nan"), -1, 2])
            else:
                Histogram1D([0, 1, 2], [-1, 2])
        return True
    except (TypeError, ValueError):
        return False


def leave_by_exception(raises):
    """the end of a body that raises: Boom, or an operation physt refuses with and without free arithmetics"""
    if isinstance(raises, str) and raises.startswith("fail:"):
        from physt.histogram1d import Histogram1D
        how = raises[5:]
        try:
            with warnings.catch_warnings():
                warnings.simplefilter("ignore")
                h = Histogram1D([0, 1, 2], [1, 2])
                if how == "hist_mul_hist":
                    h * Histogram1D([0, 1, 2], [3, 4])
                elif how == "hist_div_hist":
                    h / Histogram1D([0, 1, 2], [3, 4])
                else:
                    h + Histogram1D([0, 1, 3], [3, 4])
        except (TypeError, ValueError) as e:
            e._c19_expected = True
            raise
    raise Boom()


def NOGATE():
    return None


def make_env():
    """the objects one run shares between all its threads / tasks"""
    from physt.config import config

    @config.enable_free_arithmetics()
    def f_on(cont):
        return cont()

    @config.enable_free_arithmetics(False)
    def f_off(cont):
        return cont()

    return {"fns": {"on": f_on, "off": f_off}, "cms": {}, "gens": {}, "probes": [], "log": []}


def gen_block(v):
    from physt.config import config
    with config.enable_free_arithmetics(v):
        yield


async def agen_block(v):
    from physt.config import config
    with config.enable_free_arithmetics(v):
        yield


def finish_gen(g, how):
    if how == "close":
        g.close()
    elif how == "throw":
        try:
            g.throw(Boom())
        except Boom:
            pass
    else:
        try:
            next(g)
        except StopIteration:
            pass


async def finish_agen(g, how):
    if how == "close":
        await g.aclose()
    elif how == "throw":
        try:
            await g.athrow(Boom())
        except Boom:
            pass
    else:
        try:
            await g.__anext__()
        except StopAsyncIteration:
            pass


def probe(env, k, tid):
    """try to enter the stored manager k once more; whatever the library answers is recorded, not judged"""
    from physt.config import config
    cm, v = env["cms"].get(str(k), (None, True))
    if cm is None:
        cm = config.enable_free_arithmetics(v)     # nothing stored (yet): a first, ordinary entry
    rec = {"t": tid, "k": k, "v": v, "entered": False, "inside": None}
    try:
        with cm:
            rec["entered"] = True
            rec["inside"] = bool(config.free_arithmetics)
    except Exception as e:          # the refusal of a single-use manager (its class is not pinned)
        rec["refusal"] = type(e).__name__
    env["probes"].append(rec)


def foreign_close(env, k, how, tid):
    g, owner = env["gens"].get(str(k), (None, None))
    if g is None or owner == tid:
        return None
    del env["gens"][str(k)]
    try:
        finish_gen(g, how)
        env["log"].append(["foreign_close", k, "no error"])
    except Exception as e:
        env["log"].append(["foreign_close", k, type(e).__name__])


def exec_sync(items, gate, obs, tid, env):
    from physt.config import config
    for it in items:
        if it[0] == "set":
            gate(); config.free_arithmetics = it[1]; obs.append((tid, None))
        elif it[0] == "read":
            gate(); obs.append((tid, {"value": bool(config.free_arithmetics)}))
        elif it[0] == "arith":
            gate(); obs.append((tid, {"accepted": do_arith(it[1])}))
        elif it[0] == "reenter":
            gate(); probe(env, it[1], tid); obs.append((tid, {"value": bool(config.free_arithmetics)}))
        elif it[0] == "gen_open":
            gate()
            g = gen_block(it[2]); next(g)
            env["gens"][str(it[1])] = (g, tid)
            obs.append((tid, None))
        elif it[0] == "gen_close":
            gate(); foreign_close(env, it[1], it[2], tid); obs.append((tid, {"value": bool(config.free_arithmetics)}))
        elif it[0] == "with":
            block_sync(it, gate, obs, tid, env)
        else:
            raise RuntimeError(f"item {it[0]} cannot run here")


def block_sync(it, gate, obs, tid, env):
    from physt.config import config
    v, body, raises, form = it[1], it[2], it[3], form_of(it)
    gate()
    g2 = NOGATE if form.startswith("adec:") else gate

    def inner():
        obs.append((tid, None))
        try:
            exec_sync(body, g2, obs, tid, env)
        except Exception as e:
            if not is_leave(e):
                raise
            obs.append((tid, None))   # left by the exception of a nested block, in the same atomic step
            raise
        g2()
        obs.append((tid, None))
        if raises:
            leave_by_exception(raises)

    if form == "with":
        with config.enable_free_arithmetics(v):
            inner()
    elif form.startswith("stored:"):
        cm = config.enable_free_arithmetics(v)
        env["cms"][form[7:]] = (cm, v)
        with cm:
            inner()
    elif form == "stack":
        with contextlib.ExitStack() as st:
            st.enter_context(config.enable_free_arithmetics(v))
            inner()
    elif form.startswith(("dec:", "adec:")):
        name = form.split(":")[1]
        if (name == "on") != bool(v):
            raise RuntimeError("malformed case: decorated function and block value differ")
        env["fns"][name](inner)
    elif form.startswith("gen:"):
        g = gen_block(v)
        next(g)
        try:
            inner()
        except Exception as e:
            if is_leave(e):
                try:
                    g.throw(e)
                except Exception:
                    pass
            raise
        finish_gen(g, form[4:])
    else:
        raise RuntimeError("unknown form " + form)


def close_leftovers(env):
    """generators still suspended inside a block are finished in a throw-away context (nothing may reach a later case)"""
    for k, (g, owner) in list(env["gens"].items()):
        def fin(g=g):
            try:
                g.close()
            except Exception:
                pass
        if hasattr(g, "close"):
            contextvars.copy_context().run(fin)
    env["gens"].clear()


def run_threads(programs, order, spawn_parent, env=None):
    """programs: {tid: items}; order: list of tids (one entry per atomic action)"""
    env = make_env() if env is None else env
    obs = []
    sems = {t: threading.Semaphore(0) for t in programs}
    done = threading.Semaphore(0)
    state = {"first": {t: True for t in programs}}

    def make_gate(t):
        def gate():
            if not state["first"][t]:
                done.release()
            state["first"][t] = False
            sems[t].acquire()
        return gate

    def body(t):
        gate = make_gate(t)
        for it in programs[t]:
            try:
                exec_sync([it], gate, obs, t, env)
            except Exception as e:
                if not is_leave(e):
                    env["log"].append(["unexpected", t, repr(e)[:300]])
        if not state["first"][t]:
            done.release()

    threads = {t: threading.Thread(target=body, args=(t,), daemon=True) for t in programs}
    for t in threads.values():
        t.start()
    for t in order:
        sems[t].release()
        if not done.acquire(timeout=20):
            raise RuntimeError("schedule deadlock")
    for t in threads.values():
        t.join(timeout=5)
    close_leftovers(env)
    return obs


def run_tasks(programs, order, parent_of, env=None):
    """asyncio: every program is a task; children are created by their parent's spawn op"""
    from physt.config import config
    env = make_env() if env is None else env
    obs = []

    async def main():
        events = {t: asyncio.Event() for t in programs}
        done = asyncio.Event()
        first = {t: True for t in programs}
        tasks = {}

        async def gate(t):
            if not first[t]:
                done.set()
            first[t] = False
            await events[t].wait()
            events[t].clear()

        async def aforeign_close(k, how, t):
            g, owner = env["gens"].get(str(k), (None, None))
            if g is None or owner == t:
                return
            del env["gens"][str(k)]
            try:
                await finish_agen(g, how)
                env["log"].append(["foreign_close", k, "no error"])
            except Exception as e:
                env["log"].append(["foreign_close", k, type(e).__name__])

        async def exec_items(items, t):
            for it in items:
                if it[0] == "set":
                    await gate(t); config.free_arithmetics = it[1]; obs.append((t, None))
                elif it[0] == "read":
                    await gate(t); obs.append((t, {"value": bool(config.free_arithmetics)}))
                elif it[0] == "arith":
                    await gate(t); obs.append((t, {"accepted": do_arith(it[1])}))
                elif it[0] == "spawn":
                    await gate(t)
                    tasks[it[2]] = asyncio.create_task(body(it[2]))
                    obs.append((t, None))
                elif it[0] == "reenter":
                    await gate(t); probe(env, it[1], t); obs.append((t, {"value": bool(config.free_arithmetics)}))
                elif it[0] == "gen_open":
                    await gate(t)
                    g = agen_block(it[2]); await g.__anext__()
                    env["gens"][str(it[1])] = (g, t)
                    obs.append((t, None))
                elif it[0] == "gen_close":
                    await gate(t); await aforeign_close(it[1], it[2], t)
                    obs.append((t, {"value": bool(config.free_arithmetics)}))
                elif it[0] == "with":
                    await block_async(it, t)
                else:
                    raise RuntimeError(f"item {it[0]} cannot run here")

        async def block_async(it, t):
            v, body_items, raises, form = it[1], it[2], it[3], form_of(it)
            if form.startswith("adec:"):
                await gate(t)
                block_sync(it, NOGATE, obs, t, env)     # a plain function call: one step of the schedule
                return
            if form.startswith("dec:"):
                raise RuntimeError("malformed case: a stepped call of a plain decorated function inside an asyncio task")
            await gate(t)

            async def inner():
                obs.append((t, None))
                try:
                    await exec_items(body_items, t)
                except Exception as e:
                    if not is_leave(e):
                        raise
                    obs.append((t, None))
                    raise
                await gate(t)
                obs.append((t, None))
                if raises:
                    leave_by_exception(raises)

            if form == "with":
                with config.enable_free_arithmetics(v):
                    await inner()
            elif form.startswith("stored:"):
                cm = config.enable_free_arithmetics(v)
                env["cms"][form[7:]] = (cm, v)
                with cm:
                    await inner()
            elif form == "stack":
                with contextlib.ExitStack() as st:
                    st.enter_context(config.enable_free_arithmetics(v))
                    await inner()
            elif form.startswith("gen:"):
                g = agen_block(v)
                await g.__anext__()
                try:
                    await inner()
                except Exception as e:
                    if is_leave(e):
                        try:
                            await g.athrow(e)
                        except Exception:
                            pass
                    raise
                await finish_agen(g, form[4:])
            else:
                raise RuntimeError("unknown form " + form)

        async def body(t):
            for it in programs[t]:
                try:
                    await exec_items([it], t)
                except Exception as e:
                    if not is_leave(e):
                        env["log"].append(["unexpected", t, repr(e)[:300]])
            if not first[t]:
                done.set()

        roots = [t for t in programs if parent_of.get(t) is None]
        for t in roots:
            tasks[t] = asyncio.create_task(body(t))
        await asyncio.sleep(0)
        for t in order:
            done.clear()
            events[t].set()
            await asyncio.wait_for(done.wait(), timeout=20)
        for tk in list(tasks.values()):
            await asyncio.wait_for(tk, timeout=5)

        async def fin():
            for k, (g, owner) in list(env["gens"].items()):
                try:
                    await g.aclose()
                except Exception:
                    pass
            env["gens"].clear()
        await asyncio.create_task(fin())      # in a context of its own

    asyncio.run(main())
    return obs


ENV_SCRIPT = r'''
import json, sys, warnings
warnings.simplefilter("ignore")
sys.path.insert(0, %r)
from harness.props import c19
prog = json.loads(sys.argv[1])
obs = c19.run_threads({0: prog}, [0] * len(c19.linearize_top(prog)), {})
print(json.dumps([o for _, o in obs]))
'''


# ---------------------------------------------------------------- generators of the usage forms
def simple_items(rng, p_read=0.6, p_arith=0.35):
    out = []
    if rng.random() < p_read:
        out.append(["read"])
    if rng.random() < p_arith:
        out.append(["arith", rng.choice(GATED)])
    return out


def pick_raise(rng):
    return True if rng.random() < 0.5 else "fail:" + rng.choice(FAIL_HOWS)


def chain(rng, levels, raise_at=None):
    """nested blocks, outermost first; levels = [(value, form)]; the body of level `raise_at` ends by raising"""
    def build(i):
        body = simple_items(rng)
        if i + 1 < len(levels):
            body.append(build(i + 1))
            body += simple_items(rng, 0.5, 0.2)
        if not body:
            body.append(["read"])
        v, form = levels[i]
        return blk(v, body, pick_raise(rng) if raise_at == i else False, form)
    return build(0)


def dec_levels(rng, depth, stepped):
    r = rng.random()
    first = rng.choice(["on", "off"])
    if r < 0.35:
        names = [first] * depth                                             # f -> f -> f
    elif r < 0.7:
        names = [first if i % 2 == 0 else ("off" if first == "on" else "on") for i in range(depth)]   # f -> g -> f
    else:
        names = [rng.choice(["on", "off"]) for _ in range(depth)]
    out = []
    for n in names:
        kind = "dec:" if stepped and rng.random() < 0.8 else "adec:"
        out.append((n == "on", kind + n))
    return out


def interleavings(n0, n1):
    """all orders of n0 steps of thread 0 and n1 steps of thread 1"""
    for pos in itertools.combinations(range(n0 + n1), n0):
        s = set(pos)
        yield [0 if i in s else 1 for i in range(n0 + n1)]


class C19:
    ID = "C19"
    GEN_TIE = ["config"]     # definitions regenerated from physt/config.py (harness/gen_tie.py)
    N_QUICK = 220
    N_THOROUGH = 3600
    N_SEARCH = 150
    BASE_SHARE = 0.70        # the share of the original stream of random programs (>= 150 of the 220 quick cases)
    RULE = ("programs of set / read / arithmetic-with-array / negative-contents / nested `with enable_free_arithmetics(v)` blocks "
            "(depth <= 4, bodies that raise at any depth) for 1-3 real threads or asyncio tasks (children spawned mid-program), run "
            "under a generated interleaving of their atomic steps (threads stepped by semaphores, tasks by events); every read and "
            "every accept / refuse decision is recorded; each thread's program is re-run alone and compared (isolation); one "
            "subprocess run with PHYST_FREE_ARITHMETICS=1 (environment default). Streams (tags stream:*): base = the above; "
            "decorator = calls of functions decorated with the manager (shared by all threads), re-entering themselves directly or "
            "through the other decorated function, with exceptions at any depth, concurrently from threads with different values; "
            "exc_depth = nested blocks of mixed forms (with / stored manager / ExitStack / decorator / generator) left by Boom or by "
            "an operation physt refuses in every mode, at a chosen depth, then reads and gated operations outside; stored_cm = a "
            "kept manager object entered once and tried again (nested, afterwards, from other threads / tasks); generator = "
            "(async) generators that enter the block and yield, finished by their own context or touched by another one. "
            "Thorough: all interleavings of small programs. "
            "non-trivial = at least two contexts with different values alive at once; distinct = hash of programs + schedule")
    ASSUMPTIONS = ["CPython's contextvars / threading / asyncio semantics (a new thread starts with an empty context, a task with a copy)",
                   "the GIL-level atomicity of a single set / reset is not explored: steps are scheduled deterministically",
                   "a block entered by a generator that another context then resumes / closes is outside well-bracketed scoping: only "
                   "the OTHER context's own value is pinned there (unchanged), the opener's value is not judged afterwards"]
    EXTRA_TRUST = ["the model cannot exhibit interpreter-level races; schedules are the interleavings of whole ContextVar operations",
                   "a call of a decorated function / an entered stored manager / ExitStack / generator block is presented to the model "
                   "as the enter ... exit pair of the context that performs it"]

    # ------------------------------------------------------------------ generation
    def gen_case(self, rng, k, tier):
        r = rng.random()
        if r >= self.BASE_SHARE:
            r = (r - self.BASE_SHARE) / (1 - self.BASE_SHARE)
            if r < 0.34:
                return self.gen_decorator(rng)
            if r < 0.56:
                return self.gen_exc_depth(rng)
            if r < 0.78:
                return self.gen_stored(rng)
            return self.gen_generator(rng)
        mode = rng.choice(["threads", "threads", "tasks", "single"])
        nthreads = 1 if mode == "single" else rng.randint(2, 3)
        programs = {t: gen_items(rng) for t in range(nthreads)}
        parent_of = {}
        if mode == "tasks" and nthreads >= 2 and rng.random() < 0.6:
            # task 1 is spawned by task 0 somewhere in the middle of task 0's top-level program
            pos = rng.randint(0, len(programs[0]))
            programs[0].insert(pos, ["spawn", "spawn_task", 1])
            parent_of[1] = 0
        return self.finish(rng, mode, programs, parent_of, stream="base")

    def gen_decorator(self, rng):
        mode = rng.choice(["single", "threads", "threads", "threads", "tasks"])
        n = 1 if mode == "single" else (2 if rng.random() < 0.75 else 3)
        stepped = mode != "tasks"
        amb0 = rng.random() < 0.5
        shared = None
        programs = {}
        for t in range(n):
            amb = amb0 if t % 2 == 0 else not amb0
            p = [["set", amb]] if (t > 0 or rng.random() < 0.8) else []
            for _ in range(rng.randint(1, 2)):
                depth = rng.choice([1, 1, 2, 2, 3, 4]) if n == 1 else rng.choice([1, 1, 2, 3])
                levels = dec_levels(rng, depth, stepped)
                if n > 1:
                    # the threads mostly call the SAME decorated function, and at least the outermost call is stepped
                    if shared is None:
                        shared = levels[0][1].split(":")[1]
                    if rng.random() < 0.8:
                        levels[0] = (shared == "on", ("dec:" if stepped else "adec:") + shared)
                raise_at = rng.randrange(depth) if rng.random() < 0.4 else None
                p.append(chain(rng, levels, raise_at))
                p.append(["read"])
                if rng.random() < 0.7:
                    p.append(["arith", rng.choice(GATED)])
            programs[t] = p
        return self.finish(rng, mode, programs, {}, stream="decorator")

    def mixed_levels(self, rng, depth, stepped, kbase=0):
        out = []
        for i in range(depth):
            v = rng.random() < 0.6
            form = rng.choice(["with", "stack", "stored", "gen", "dec", "adec"])
            if form == "stored":
                form = f"stored:{kbase + i}"
            elif form == "gen":
                form = "gen:" + rng.choice(["next", "close", "throw"])
            elif form == "dec":
                form = ("dec:" if stepped else "adec:") + ("on" if v else "off")
            elif form == "adec":
                form = "adec:" + ("on" if v else "off")
            out.append((v, form))
        return out

    def gen_exc_depth(self, rng):
        mode = rng.choice(["single", "single", "threads", "tasks"])
        n = 1 if mode == "single" else 2
        programs = {}
        for t in range(n):
            p = [["set", rng.random() < 0.5]] if rng.random() < 0.7 else []
            for j in range(rng.randint(1, 2)):
                depth = rng.randint(1, 4)
                levels = self.mixed_levels(rng, depth, mode != "tasks", kbase=10 * t + 4 * j)
                p.append(chain(rng, levels, rng.randrange(depth)))
                p.append(["read"])
                p.append(["arith", rng.choice(["negative_factor", "array", "array_mul", "array_div"])])
            programs[t] = p
        return self.finish(rng, mode, programs, {}, stream="exc_depth")

    def gen_stored(self, rng):
        mode = rng.choice(["single", "threads", "threads", "tasks", "tasks"])
        n = 1 if mode == "single" else rng.randint(2, 3)
        programs = {}
        v = rng.random() < 0.6
        amb0 = (not v) if rng.random() < 0.7 else v
        body = simple_items(rng) + [["reenter", 0]] + simple_items(rng)
        if rng.random() < 0.5:
            body.append(blk(rng.random() < 0.5, [["read"], ["reenter", 0]], rng.random() < 0.3))
            body.append(["read"])
        if rng.random() < 0.3:
            # the manager left, and entered by a second `with` of a NEW stored object with the same key
            body.append(["read"])
        p0 = ([["set", amb0]] if rng.random() < 0.8 else []) + [blk(v, body, pick_raise(rng) if rng.random() < 0.3 else False, "stored:0"),
                                                               ["read"], ["reenter", 0], ["read"], ["arith", rng.choice(GATED)]]
        programs[0] = p0
        for t in range(1, n):
            amb = (not amb0) if rng.random() < 0.7 else amb0
            p = [["set", amb], ["read"]]
            for _ in range(rng.randint(1, 2)):
                p += [["reenter", 0], ["read"]]
                if rng.random() < 0.5:
                    p.append(["arith", rng.choice(GATED)])
            if rng.random() < 0.4:
                p.append(blk(rng.random() < 0.5, [["read"], ["reenter", t]], False, f"stored:{t}"))
                p.append(["read"])
            programs[t] = p
        return self.finish(rng, mode, programs, {}, stream="stored_cm")

    def gen_generator(self, rng):
        mode = rng.choice(["single", "threads", "threads", "tasks", "tasks"])
        n = 1 if mode == "single" else 2
        programs = {}
        for t in range(n):
            p = [["set", rng.random() < 0.5]] if rng.random() < 0.7 else []
            depth = rng.randint(1, 3)
            levels = [(rng.random() < 0.6, "gen:" + rng.choice(["next", "close", "throw"]) if rng.random() < 0.75 else "with")
                      for _ in range(depth)]
            p.append(chain(rng, levels, rng.randrange(depth) if rng.random() < 0.35 else None))
            p.append(["read"])
            p.append(["arith", rng.choice(GATED)])
            programs[t] = p
        if n == 2 and rng.random() < 0.75:
            # thread 0 starts a generator that stays inside the block; thread 1 resumes / closes it
            a, b = (0, 1) if rng.random() < 0.5 else (1, 0)
            va = rng.random() < 0.6
            programs[a] += [["gen_open", 0, va], ["read"], ["arith", rng.choice(GATED)]]
            if rng.random() < 0.5:
                programs[a] += [blk(rng.random() < 0.5, [["read"]], rng.random() < 0.3), ["read"]]
            programs[b] = [["set", (not va) if rng.random() < 0.7 else va]] + programs[b]
            programs[b] += [["gen_close", 0, rng.choice(["next", "close", "throw"])], ["read"], ["arith", rng.choice(GATED)]]
        return self.finish(rng, mode, programs, {}, stream="generator")

    def finish(self, rng, mode, programs, parent_of, order=None, stream=None):
        acts = {t: linearize_top(p) for t, p in programs.items()}
        if order is None:
            # a random interleaving that respects spawn order (and lets a generator be started before it is touched from outside)
            remaining = {t: len(a) for t, a in acts.items()}
            started = {t for t in programs if parent_of.get(t) is None}
            pos = {t: 0 for t in programs}
            to_open = {o["k"] for a in acts.values() for act in a for o in act if o.get("src") == "gen_open"}
            order = []
            while any(remaining[t] for t in remaining):
                cand = [t for t in started if remaining[t]]
                if not cand:
                    break
                if to_open:
                    free = [t for t in cand if not any(o.get("src") == "gen_close" and o["k"] in to_open for o in acts[t][pos[t]])]
                    cand = free or cand
                t = rng.choice(cand)
                a = acts[t][pos[t]]
                for o in a:
                    if o["op"] in ("spawn_task", "spawn_thread"):
                        started.add(o["child"])
                    if o.get("src") == "gen_open":
                        to_open.discard(o["k"])
                order.append(t)
                pos[t] += 1
                remaining[t] -= 1
        sched = []
        pos = {t: 0 for t in programs}
        for t in order:
            for o in acts[t][pos[t]]:
                e = {"t": t, "op": o["op"]}
                for key in ("v", "child", "form", "src", "k"):
                    if key in o:
                        e[key] = o[key]
                sched.append(e)
            pos[t] += 1
        tags = ["mode:" + mode, f"threads:{len(programs)}"]
        if stream:
            tags.append("stream:" + stream)
        return {"kind": "config", "mode": mode, "default": False,
                "programs": {str(t): p for t, p in programs.items()}, "parent_of": {str(k): v for k, v in parent_of.items()},
                "order": order, "sched": sched, "tags": tags}

    def exhaustive_cases(self, tier):
        import random
        rng = random.Random(19)
        progs = [
            {0: [["with", True, [["read"], ["arith", "array"]], False], ["read"]], 1: [["read"], ["set", False], ["arith", "array"]]},
            {0: [["set", True], ["with", False, [["read"]], True], ["read"]], 1: [["with", True, [["read"]], False], ["read"]]},
        ]
        if tier == "thorough":
            progs.append({0: [["with", True, [["with", False, [["read"]], True]], False], ["read"]], 1: [["set", True], ["read"]],
                          2: [["read"], ["arith", "negative"]]})
        for p in progs:
            acts = {t: linearize_top(x) for t, x in p.items()}
            base = [t for t, a in acts.items() for _ in a]
            seen = set()
            for perm in itertools.permutations(base):
                if perm in seen:
                    continue
                seen.add(perm)
                if len(seen) > (400 if tier == "thorough" else 40):
                    break
                for mode in ("threads", "tasks"):
                    c = self.finish(rng, mode, copy.deepcopy(p), {}, order=list(perm))
                    c["tags"].append("exhaustive_interleavings")
                    yield c
        # environment default in a subprocess
        yield {"kind": "config", "mode": "env", "default": True, "programs": {"0": [["read"], ["arith", "array"], ["with", False, [["read"]], False], ["read"]]},
               "parent_of": {}, "order": [0] * 5,
               "sched": [{"t": 0, "op": "read"}, {"t": 0, "op": "arith"}, {"t": 0, "op": "enter", "v": False}, {"t": 0, "op": "read"},
                         {"t": 0, "op": "exit"}, {"t": 0, "op": "read"}], "tags": ["env_default"]}
        yield from self.exhaustive_forms(tier, rng)

    def exhaustive_forms(self, tier, rng):
        """small complete sub-spaces of the usage forms"""
        # (1) one context: every chain of decorated calls of depth <= 3 (f_on / f_off in every combination, so f -> f and
        #     f -> g -> f are there), both ambient values, no exception or an exception at each depth; stepped and atomic
        for depth in (1, 2, 3):
            for names in itertools.product(["on", "off"], repeat=depth):
                for amb in (False, True):
                    for raise_at in [None] + list(range(depth)):
                        for kind, mode in (("dec:", "single"), ("adec:", "tasks")):
                            if kind == "adec:" and tier != "thorough" and depth == 3:
                                continue
                            item = None
                            for i in reversed(range(depth)):
                                body = [["read"]] + ([item, ["read"]] if item is not None else [])
                                item = blk(names[i] == "on", body, raise_at == i, kind + names[i])
                            p = {0: [["set", amb], item, ["read"], ["arith", "negative_factor"]]}
                            c = self.finish(rng, mode, p, {}, stream="decorator")
                            c["tags"].append("exhaustive_decorator_chains")
                            yield c
        # (2) two contexts with different values inside the same shared object, every interleaving (all entry and exit
        #     orders): the decorated function from two threads; a stored manager tried by the other thread / task; a generator
        #     block touched by the other thread / task
        pairs = []
        for name in (("on",) if tier != "thorough" else ("on", "off")):
            v = name == "on"
            for a0, a1 in ((not v, v),) if tier != "thorough" else ((not v, v), (v, not v)):
                pairs.append(("threads", {0: [["set", a0], blk(v, [["read"]], False, "dec:" + name), ["read"]],
                                          1: [["set", a1], blk(v, [["read"]], tier == "thorough" and a1, "dec:" + name), ["read"]]},
                              "exhaustive_decorator_threads"))
        for mode in ("threads", "tasks"):
            pairs.append((mode, {0: [["set", False], blk(True, [["read"]], False, "stored:0"), ["read"]],
                                 1: [["set", True], ["reenter", 0], ["arith", "array"]]}, "exhaustive_stored_shared"))
            for how in ("next", "close", "throw"):
                pairs.append((mode, {0: [["set", False], ["gen_open", 0, True], ["read"]],
                                     1: [["set", True], ["gen_close", 0, how], ["arith", "array"]]}, "exhaustive_generator_foreign"))
            pairs.append((mode, {0: [["set", True], blk(False, [["read"]], False, "gen:close"), ["read"]],
                                 1: [["set", False], blk(True, [["read"]], True, "gen:next"), ["arith", "array"]]},
                          "exhaustive_generator_own"))
        for mode, p, tag in pairs:
            acts = {t: linearize_top(x) for t, x in p.items()}
            n0, n1 = len(acts[0]) - 1, len(acts[1]) - 1
            for inter in interleavings(n0, n1):
                c = self.finish(rng, mode, copy.deepcopy(p), {}, order=[0, 1] + inter,
                                stream={"exhaustive_decorator_threads": "decorator", "exhaustive_stored_shared": "stored_cm"}.get(tag, "generator"))
                c["tags"].append(tag)
                yield c

    # ------------------------------------------------------------------ run
    def run_impl(self, case):
        programs = {int(t): p for t, p in case["programs"].items()}
        parent_of = {int(k): v for k, v in case["parent_of"].items()}
        if case["mode"] == "env":
            env = dict(os.environ, PHYST_FREE_ARITHMETICS="1")
            verif = os.path.dirname(os.path.dirname(os.path.dirname(os.path.abspath(__file__))))
            p = subprocess.run([sys.executable, "-c", ENV_SCRIPT % verif, json.dumps(programs[0])], env=env,
                               capture_output=True, text=True, timeout=120)
            if p.returncode != 0:
                raise RuntimeError("env subprocess failed: " + p.stderr[-800:])
            return {"outs": [{"t": 0, "obs": o} for o in json.loads(p.stdout.strip().splitlines()[-1])], "solo": {}, "log": []}
        runner = run_tasks if case["mode"] == "tasks" else run_threads
        env = make_env()
        obs = runner(programs, case["order"], parent_of, env)
        outs = [{"t": t, "obs": o} for t, o in obs]
        solo = {}
        log = list(env["log"])
        for t, p in programs.items():
            if parent_of.get(t) is None and not any(it[0] == "spawn" for it in p):
                senv = make_env()
                so = run_threads({t: p}, [t] * len(linearize_top(p)), {}, senv)
                solo[str(t)] = [o for _, o in so]
                log += [["solo"] + x for x in senv["log"] if x[0] == "unexpected"]
        return {"outs": outs, "solo": solo, "log": log, "probes": env["probes"]}

    def model_case(self, case, io):
        return {"kind": "config", "default": case["default"], "sched": case["sched"]}

    def diff(self, case, model_ok, io):
        return diff_outputs(model_ok, io["outs"], None, None)

    # ------------------------------------------------------------------ oracle
    def oracle(self, case, io):
        fails = []
        outs = io["outs"]
        sched = case["sched"]
        for x in io.get("log", []):
            if "unexpected" in x[:2]:
                fails.append(f"unexpected_exception: a use of the manager that the unchanged library supports raised in thread {x[-2]}: {x[-1]}")
        if len(outs) != len(sched):
            return (fails + [f"trace_shape: {len(outs)} observations for {len(sched)} scheduled operations"])[:6]
        # isolation: what a thread observes equals what it observes alone
        for t, so in io["solo"].items():
            mine = [o["obs"] for o in outs if o["t"] == int(t)]
            if mine != so:
                k = next((i for i, (a, b) in enumerate(zip(mine, so)) if a != b), min(len(mine), len(so)))
                fails.append(f"not_isolated: thread {t} observes {mine[k] if k < len(mine) else None} at its step {k} under the schedule "
                             f"but {so[k] if k < len(so) else None} when run alone")
        # restore + gate: well-bracketed scoping on each context's own operations, walked in schedule order
        #   known[t] = the value in force in context t as far as the property pins it (None = not pinned)
        parent_of = {int(k): v for k, v in case["parent_of"].items()}
        known, stack = {}, {}
        for t in {e["t"] for e in sched}:
            # a thread, and a task started from the unconfigured main context, start with the environment default
            known[t] = case["default"] if parent_of.get(t) is None else None
            stack[t] = []
        opener = {}
        for e, out in zip(sched, outs):
            t, o, op = e["t"], out["obs"], e["op"]
            what = {"reenter": " (after trying to enter a stored manager again)", "gen_close": " (after touching another context's generator)",
                    }.get(e.get("src"), "")
            if op == "read":
                if e.get("src") == "gen_close" and e["k"] in opener and opener[e["k"]] != t:
                    # the opener's block was torn down from outside: what it reads from now on is not pinned
                    known[opener[e["k"]]] = None
                    stack[opener[e["k"]]] = [None] * len(stack[opener[e["k"]]])
                if not isinstance(o, dict) or "value" not in o:
                    fails.append(f"trace_shape: thread {t}: a read observed {o}")
                    continue
                if known[t] is not None and o["value"] != known[t]:
                    fails.append(f"not_restored: thread {t} reads {o['value']} where {known[t]} was in force{what}")
                known[t] = o["value"]
            elif op == "set":
                known[t] = e["v"]
            elif op == "enter":
                stack[t].append(known[t])
                known[t] = e["v"]
                if e.get("src") == "gen_open":
                    opener[e["k"]] = t
            elif op == "exit":
                known[t] = stack[t].pop() if stack[t] else None
            elif op == "arith":
                if not isinstance(o, dict) or "accepted" not in o:
                    fails.append(f"trace_shape: thread {t}: an operation observed {o}")
                    continue
                if known[t] is not None and o["accepted"] != known[t]:
                    fails.append(f"gate: thread {t}: operand accepted={o['accepted']} while free_arithmetics is {known[t]}")
            elif op == "spawn_task":
                known[e["child"]] = known[t]
                stack[e["child"]] = []
            elif op == "spawn_thread":
                known[e["child"]] = case["default"]
                stack[e["child"]] = []
        # a stored manager that lets itself be entered again is a block like any other
        for p in io.get("probes", []):
            if p["entered"] and p["inside"] != p["v"]:
                fails.append(f"reentry_inside: thread {p['t']}: inside the re-entered stored manager (value {p['v']}) the switch reads {p['inside']}")
        if case["mode"] == "env":
            if outs and outs[0]["obs"] != {"value": True}:
                fails.append("env_default: PHYST_FREE_ARITHMETICS=1 is not the default")
        return fails[:6]

    def nontrivial(self, case, io):
        vals = {}
        for e, o in zip(case["sched"], io["outs"]):
            if e["op"] == "read" and isinstance(o["obs"], dict) and "value" in o["obs"]:
                vals.setdefault(e["t"], set()).add(o["obs"]["value"])
        return len(vals) >= 2 and len(set().union(*vals.values())) == 2 if vals else False

    def tags(self, case, io):
        out = list(case.get("tags", [])) + [f"op:{e['op']}" for e in case["sched"]]
        out += sorted({"form:" + e["form"].split(":")[0] for e in case["sched"] if "form" in e})
        out += sorted({"form:" + e["src"] for e in case["sched"] if "src" in e})
        if any(e.get("raised") for e in case["sched"]):
            out.append("exception_leaves_block")
        for p in io.get("probes", []) if isinstance(io, dict) else []:
            out.append("reentry:" + ("entered" if p["entered"] else "refused"))
        return out

    def matches_known(self, finding, case):
        return True

    def rebuilt(self, case, programs, seed=1):
        import random
        parent_of = {int(k): v for k, v in case["parent_of"].items()}
        stream = next((t[7:] for t in case.get("tags", []) if t.startswith("stream:")), None)
        return self.finish(random.Random(seed), case["mode"], programs, parent_of, stream=stream)

    def neighbours(self, case):
        # the same programs under other interleavings
        if case["mode"] == "env":
            return
        programs = {int(t): p for t, p in case["programs"].items()}
        for s in range(2, 8):
            yield self.rebuilt(case, copy.deepcopy(programs), seed=s)

    def shrink_candidates(self, case):
        # every candidate is strictly smaller than the case (a candidate equal to it would keep the shrinker busy for its whole budget)
        same = json.dumps(case["programs"], sort_keys=True)
        for c in self._shrink_candidates(case):
            if json.dumps(c["programs"], sort_keys=True) != same:
                yield c

    def _shrink_candidates(self, case):
        if case["mode"] == "env":
            return
        programs = {int(t): p for t, p in case["programs"].items()}
        parent_of = {int(k): v for k, v in case["parent_of"].items()}
        # drop a whole thread / task that nobody spawned and that spawns nobody
        if len(programs) > 1:
            for t in sorted(programs, reverse=True):
                if t in parent_of or t in parent_of.values() or any(it[0] == "spawn" for it in programs[t]):
                    continue
                q = {u: copy.deepcopy(p) for u, p in programs.items() if u != t}
                if 0 not in q:
                    continue
                yield self.rebuilt(case, q)
        # drop a whole top-level item of one program and rebuild with a fresh order
        for t, p in programs.items():
            for i in range(len(p)):
                if p[i][0] == "spawn":
                    continue
                q = copy.deepcopy(programs)
                del q[t][i]
                if not q[t]:
                    q[t] = [["read"]]
                yield self.rebuilt(case, q)
        # inside the blocks: drop an item of a body, take the exception away, turn the form into a plain with statement
        def paths(items, pre=()):
            for i, it in enumerate(items):
                if it[0] == "with":
                    yield pre + (i,)
                    yield from paths(it[2], pre + (i,))

        def at(items, path):
            it = items[path[0]]
            for i in path[1:]:
                it = it[2][i]
            return it

        for t, p in programs.items():
            for path in list(paths(p)):
                b = at(p, path)
                for j in range(len(b[2])):
                    q = copy.deepcopy(programs)
                    bb = at(q[t], path)
                    del bb[2][j]
                    if not bb[2]:
                        bb[2].append(["read"])
                    yield self.rebuilt(case, q)
                if b[3]:
                    q = copy.deepcopy(programs)
                    at(q[t], path)[3] = False
                    yield self.rebuilt(case, q)
                if form_of(b) != "with":
                    q = copy.deepcopy(programs)
                    bb = at(q[t], path)
                    del bb[4:]
                    yield self.rebuilt(case, q)


PROP = C19()

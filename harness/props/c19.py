"""C19 — the free-arithmetics switch is scoped, restored and isolated per context.

Program items (JSON lists):
  ["set", v]  ["read"]  ["arith", how]  ["spawn", "spawn_task", child]
  ["with", v, body, raises]             a fresh `with config.enable_free_arithmetics(v):` statement
  ["with", v, body, raises, form]       the same block, entered through another way of USING the returned object:
        "stored:<k>"   cm = config.enable_free_arithmetics(v) kept in cms[k] (shared by the whole case), then `with cm:`
        "stack"        contextlib.ExitStack().enter_context(config.enable_free_arithmetics(v))
        "dec:on|off"   a call of the function decorated (once per run, shared by all threads) with
                       @config.enable_free_arithmetics() / @config.enable_free_arithmetics(False); the body is the callee's
                       body and is stepped by the schedule like the body of a with statement (real threads only)
        "adec:on|off"  the same call, carried out in ONE atomic step of the schedule (also inside asyncio tasks, where a
                       plain function cannot be suspended)
        "gen:next|close|throw"  a generator (threads) / async generator (tasks) that enters the block and yields; it is
                       resumed to its end / closed / given an exception by the context that started it
     `raises`: False | True (the body ends by raising Boom) | "fail:<how>" (the body ends with an operation physt refuses
     in every mode; physt's own exception leaves the block) | "base:<KeyboardInterrupt|SystemExit|GeneratorExit|CancelledError>"
     (the body ends by raising an exception that is not an Exception).  The exception is caught outside the outermost block.
  ["reenter", k]         try to enter the stored manager cms[k] again (`with cm: read`), while it is entered or after it was
                         left, from any thread / task: the unchanged library refuses (a generator-based manager is
                         single-use) -- a refusal, or an entry that is left again at once, leaves the value where it was;
                         then read
  ["gen_open", k, v]     (top level only) start a generator that enters the block and stays suspended in it: the context
                         stays inside the block for the rest of its program
  ["gen_close", k, how]  ANOTHER thread / task resumes / closes / throws into that generator (the library refuses: a token
                         belongs to the context it was made in; whatever happens is caught), then reads its OWN value
  ["arith", {..}]        (stream neg_state) an operation on the operands of a SLOT of the case (case["slots"][name] = spec of a
                         histogram `a` with non-negative contents and of the way a histogram `neg` WITH NEGATIVE CONTENTS is
                         derived from it):
        {"mk": name, "g": b}                   build `a` and `neg` (adaptive classes: also `other` on another grid and
                                               `oneg = other * (-1)`) and keep them for the rest of the run; normally inside a block
        {"slot": name, "op": .., .., "g": b}   apply one operation to (copies of) the kept operands, anywhere: typically OUTSIDE,
                                               after the block in which they were built has been left
        {"slot": name, "op": "route", "how": <entry route>, "src": "neg"|"a", "g": b}   (stream routes) the contents of the kept
                                               operand arrive in a NEW histogram through a reading / constructing route
     "g" (fixed by the generator with exact arithmetic on the spec, re-derived by the oracle from the contents the implementation
     reports): the step produces negative contents, so it is a gated operation -- an `arith` step of the schedule, accepted iff
     the switch is on.  Steps with g false (re-arrangements such as copy / projection / slicing of existing negative contents,
     arithmetic whose result is non-negative) are `free` steps: recorded, not presented to the model, judged only for what the
     property pins (no negative contents may come out of an arithmetic operation outside; operands stay as they were).
"""
from __future__ import annotations

import asyncio
import contextlib
import contextvars
import copy
import itertools
import json
import os
import subprocess
import sys
import threading
import warnings
from fractions import Fraction

import numpy as np

from ..runner import diff_outputs

warnings.simplefilter("ignore")

ARITH_HOWS = ["array", "negative", "negative_nan", "array_mul", "array_div", "array_sub", "negative_factor"]
GATED = ["negative_factor", "array", "array_mul", "array_div", "array_sub", "negative"]
FAIL_HOWS = ["hist_mul_hist", "hist_div_hist", "incompatible_add"]
# exits that are NOT subclasses of Exception (raises = "base:<name>"): Ctrl-C, sys.exit(), a closed generator, a cancelled task
BASE_EXITS = ["KeyboardInterrupt", "SystemExit", "GeneratorExit", "CancelledError"]


# ---------------------------------------------------------------- programs
def gen_items(rng, depth=0, maxlen=4):
    """tree program: list of items"""
    items = []
    for _ in range(rng.randint(1, maxlen)):
        r = rng.random()
        if r < 0.2:
            items.append(["set", rng.random() < 0.5])
        elif r < 0.45:
            items.append(["read"])
        elif r < 0.6:
            items.append(["arith", rng.choice(ARITH_HOWS)])
        elif depth < 3:
            body = gen_items(rng, depth + 1, maxlen=3)
            items.append(["with", rng.random() < 0.6, body, rng.random() < 0.35])   # value, body, body raises at its end
        else:
            items.append(["read"])
    return items


def _dict_hows(items):
    """the operations on kept operands of a program, at any depth"""
    for it in items:
        if it[0] == "arith" and isinstance(it[1], dict):
            yield it[1]
        elif it[0] == "with":
            yield from _dict_hows(it[2])


def form_of(it):
    return it[4] if len(it) > 4 else "with"


def blk(v, body, raises=False, form="with"):
    return ["with", v, body, raises] if form == "with" else ["with", v, body, raises, form]


def linearize(items, atomic=False):
    """the primitive operations a program executes, grouped into atomic actions
    returns (actions, raised) where each action is a list of primitive ops"""
    acts = []
    for it in items:
        if it[0] == "set":
            acts.append([{"op": "set", "v": it[1]}])
        elif it[0] == "read":
            acts.append([{"op": "read"}])
        elif it[0] == "arith":
            if isinstance(it[1], dict):
                # an operation on kept operands: gated (produces negative contents) = `arith`, otherwise a `free` step
                acts.append([{"op": "arith" if it[1].get("g") else "free", "how": it[1], "what": negop_name(it[1])}])
            else:
                acts.append([{"op": "arith", "how": it[1]}])
        elif it[0] == "spawn":
            acts.append([{"op": it[1], "child": it[2]}])
        elif it[0] == "reenter":
            acts.append([{"op": "read", "src": "reenter", "k": it[1]}])
        elif it[0] == "gen_open":
            acts.append([{"op": "enter", "v": it[2], "src": "gen_open", "k": it[1]}])
        elif it[0] == "gen_close":
            acts.append([{"op": "read", "src": "gen_close", "k": it[1]}])
        elif it[0] == "with":
            form = form_of(it)
            if form.startswith("adec:") and not atomic:
                # the whole call (entry, body, exit) is one step of the schedule
                inner, raised = linearize([it], atomic=True)
                acts.append([o for a in inner for o in a])
                if raised:
                    return acts, True
                continue
            e = {"op": "enter", "v": it[1]}
            if form != "with":
                e["form"] = form
            acts.append([e])
            inner, raised = linearize(it[2], atomic)
            acts += inner
            if raised:
                # an exception from a nested block unwinds this block in the same atomic step
                acts[-1].append({"op": "exit"})
                return acts, True
            if it[3]:
                acts.append([{"op": "exit", "raised": True}])
                return acts, True
            acts.append([{"op": "exit"}])
    return acts, False


def linearize_top(items):
    acts = []
    for it in items:
        a, _ = linearize([it])
        acts += a
    return acts


class Boom(Exception):
    pass


def is_leave(e):
    """an exception the program itself asked for: Boom, or physt's refusal of an operation refused in every mode"""
    return isinstance(e, Boom) or getattr(e, "_c19_expected", False)


# ---------------------------------------------------------------- real execution
def do_arith(how):
    from physt.histogram1d import Histogram1D
    try:
        with warnings.catch_warnings():
            warnings.simplefilter("ignore")
            if how == "array":
                h = Histogram1D([0, 1, 2], [1, 2])
                h + np.ones(2)
            elif how == "array_mul":
                h = Histogram1D([0, 1, 2], [1, 2])
                h *= [2, 3]
            elif how == "array_div":
                h = Histogram1D([0, 1, 2], [1, 2])
                h /= np.array([2.0, 4.0])
                if h.frequencies.tolist() != [0.5, 0.5] or h.errors2.tolist() != [0.25, 0.125]:
                    raise AssertionError(f"h /= array gave {h.frequencies.tolist()} / {h.errors2.tolist()}")
            elif how == "array_sub":
                h = Histogram1D([0, 1, 2], [1, 2])
                h - np.ones(2)
            elif how == "negative_factor":
                h = Histogram1D([0, 1, 2], [1, 2])
                h * (-1)
            elif how == "negative_nan":
                Histogram1D([0, 1, 2, 3], [float("nan"), -1, 2])
            else:
                Histogram1D([0, 1, 2], [-1, 2])
        return True
    except (TypeError, ValueError):
        return False


def leave_by_exception(raises):
    """the end of a body that raises: Boom, an operation physt refuses with and without free arithmetics, or a BaseException"""
    if isinstance(raises, str) and raises.startswith("base:"):
        e = {"KeyboardInterrupt": KeyboardInterrupt, "SystemExit": SystemExit, "GeneratorExit": GeneratorExit,
             "CancelledError": asyncio.CancelledError}[raises[5:]]()
        e._c19_expected = True
        raise e
    if isinstance(raises, str) and raises.startswith("fail:"):
        from physt.histogram1d import Histogram1D
        how = raises[5:]
        try:
            with warnings.catch_warnings():
                warnings.simplefilter("ignore")
                h = Histogram1D([0, 1, 2], [1, 2])
                if how == "hist_mul_hist":
                    h * Histogram1D([0, 1, 2], [3, 4])
                elif how == "hist_div_hist":
                    h / Histogram1D([0, 1, 2], [3, 4])
                else:
                    h + Histogram1D([0, 1, 3], [3, 4])
        except (TypeError, ValueError) as e:
            e._c19_expected = True
            raise
    raise Boom()


# ---------------------------------------------------------------- operands with negative contents (stream neg_state)
# What the UNCHANGED library does outside a free-arithmetics block with a histogram `neg` whose negative contents were produced
# inside an earlier block (measured on 80b127e, 1-D / N-d / transformed / adaptive alike):
#   refused ("Cannot have negative frequencies."): every ARITHMETIC operation whose result has a negative content --
#       a + neg + neg, neg + a + neg, x += neg, sum([..]), HistogramCollection(..).sum(), addition with adaptive re-binning,
#       a - b / a -= b, neg * c / c * neg / neg *= c, neg / c, normalize() of mixed signs, the `frequencies = ..` setter, the
#       constructor with negative frequencies.  These are the GATED operations below: the property pins them.
#   passed through: copy(), set_dtype(), merge_bins() (sums of negatives included), Histogram2D.T, N-d slices that keep every axis,
#       cumulative_frequencies; refused: 1-D slicing / index arrays, N-d integer indexing, projection() and accumulate() with a
#       negative result, to_dict -> from_dict, to_json -> parse_json (they all go through the constructor).  Re-arrangements of
#       EXISTING negative contents: the property does not say which of these must be refused, the library is not consistent, so
#       they are recorded (tags rearr:*) and never judged for acceptance.
#   accepted although the result is NEW negative contents: h.fill(x, weight=-w) and h.fill_n(.., weights=-w) (no gate at all in
#       fill).  See ENABLE_FILL_NEGATIVE_WEIGHT.
ENABLE_FILL_NEGATIVE_WEIGHT = False     # `Histogram1D([0,1,2,3],[2,1,3]).fill(0.5, weight=-1)` x5 outside any block -> contents
                                        # [-3, 1, 3], no error, config.free_arithmetics False (likewise fill_n, N-d, adaptive):
                                        # negative contents produced and accepted while the switch is off.  Reported, kept out
                                        # of the generator (as a USE outside; as a way to BUILD `neg` inside a block it is used).

NEG_CLASSES_1D = ["h1", "h1f", "radial", "ad1"]
NEG_CLASSES = ["h1", "h1", "h1f", "h1f", "h2", "h2", "h2", "h3", "radial", "polar", "polar", "ad1", "ad1", "ad2", "ad2"]
NEG_ADAPTIVE = ("ad1", "ad2")
NEG_FILLABLE = ("h1", "h1f", "h2", "h3", "ad1", "ad2")          # fill() of a transformed class takes cartesian points
GATED_BUILDS = ["mul_m1", "sub_2a", "imul", "div_neg", "arr_add", "arr_sub", "setter", "ctor"]
FREE_BUILDS = ["fill_neg", "fill_n_neg"]                        # accepted by the unchanged library with the switch off as well
GATED_NEGOPS = ("add", "sub", "mul", "div", "normalize", "setter", "ctor", "fill_neg", "route")
REARR_NEGOPS = ("copy", "set_dtype", "merge_bins", "projection", "slice", "index", "transpose")


def fr(x):
    if isinstance(x, Fraction):
        return x
    if isinstance(x, str):
        return Fraction(x)
    if isinstance(x, (int, np.integer)):
        return Fraction(int(x))
    return Fraction(float(x))


def fs(x):
    f = fr(x)
    return str(f.numerator) if f.denominator == 1 else f"{f.numerator}/{f.denominator}"


def negop_name(how):
    if "mk" in how:
        return "mk"
    return how["op"] + (":" + how["how"] if "how" in how else "")


def describe_negop(how):
    op = how["op"]
    if op == "add":
        t = how["terms"]
        return {"binary": " + ".join(t), "iadd": f"x = {t[0]}.copy(); " + "; ".join(f"x += {n}" for n in t[1:]),
                "sum": "sum([" + ", ".join(t) + "])", "coll": "HistogramCollection(" + ", ".join(t) + ").sum()"}[how["how"]]
    if op == "sub":
        return f"{how['x']} - {how['y']}" if how["how"] == "binary" else f"x = {how['x']}.copy(); x -= {how['y']}"
    if op == "mul":
        return {"mul": f"{how['x']} * {how['c']}", "rmul": f"{how['c']} * {how['x']}", "imul": f"x = {how['x']}.copy(); x *= {how['c']}"}[how["how"]]
    if op == "div":
        return {"div": f"{how['x']} / {how['c']}", "idiv": f"x = {how['x']}.copy(); x /= {how['c']}"}[how["how"]]
    if op == "normalize":
        return f"{how['x']}.normalize(inplace={how['inplace']}, percent={how['percent']})"
    if op == "setter":
        return "x = a.copy(); x.frequencies = neg.frequencies"
    if op == "ctor":
        return "type(a)(<bins of a>, frequencies=neg.frequencies)"
    if op == "fill_neg":
        return f"x = a.copy(); x.fill(<centre of cell {how['cell']}>, weight=-{how['w']}) x{how['times']}"
    if op == "route":
        s = how.get("src", "neg")
        return {"from_dict": f"type({s}).from_dict(d)  [d = {s}.to_dict() written inside the block]",
                "create_from_dict": f"physt.io.create_from_dict(json.loads(t), ..)  [t = {s}.to_json() written inside the block]",
                "parse_json": f"physt.io.parse_json(t)  [t = {s}.to_json() written inside the block]",
                "load_json": f"physt.io.load_json(<scratch file holding t>)  [t = {s}.to_json() written inside the block]",
                "coll_from_dict": f"HistogramCollection.from_dict(d)  [d = HistogramCollection(a, {s}).to_dict() written inside the block]",
                "from_xarray": f"Histogram1D.from_xarray(ds)  [ds = {s}.to_xarray() written inside the block]",
                "ctor_e2": f"type(a)(<bins of a>, frequencies={s}.frequencies, errors2={s}.errors2)",
                "setter_fresh": f"x = a.copy(include_frequencies=False); x.frequencies = {s}.frequencies",
                "calc_freq": f"Histogram1D.from_calculate_frequencies(<bin centres of a>, a.binning, weights={s}.frequencies)",
                "facade": f"physt.h1 / h2 / h(<bin centres of a>, <edges of a>, weights={s}.frequencies)",
                "e2_neg": "x = a.copy(); x.errors2 = neg.frequencies"}[how["how"]]
    return f"neg: {op}"


# ---- exact contents: an operand is {"f": [Fraction] (C order), "shape": [..], "lo": [first bin of each axis, in bin widths]}
def op_cells(o):
    out = {}
    for idx, v in zip(itertools.product(*[range(n) for n in o["shape"]]), o["f"]):
        out[tuple(i + l for i, l in zip(idx, o["lo"]))] = v
    return out


def same_grid(x, y):
    return x["shape"] == y["shape"] and x["lo"] == y["lo"]


def cells_add(x, y, sign=1):
    """contents of x + sign * y on the union of the two grids (adaptive re-binning covers the whole range: empty bins are 0)"""
    out = dict(x)
    for k, v in y.items():
        out[k] = out.get(k, Fraction(0)) + sign * v
    return out


def any_negative(cells):
    return any(v < 0 for v in cells.values())


def spec_operands(spec):
    """the operands the spec describes, computed without the library"""
    F = [fr(v) for v in spec["freq"]]
    A = [fr(v) for v in spec.get("arr", [])]
    b = spec["build"]
    if b in ("mul_m1", "sub_2a"):
        N = [-v for v in F]
    elif b == "imul":
        N = [-v * fr(spec["k"]) for v in F]
    elif b == "div_neg":
        N = [-v / fr(spec["k"]) for v in F]
    elif b == "arr_add":
        N = [v + a for v, a in zip(F, A)]
    elif b == "arr_sub":
        N = [v - a for v, a in zip(F, A)]
    elif b in ("setter", "ctor"):
        N = list(A)
    else:       # fill_neg / fill_n_neg
        N = list(F)
        N[spec["cell"]] -= fr(spec["w"]) * spec["times"]
    zero = [0] * len(spec["shape"])
    ops = {"a": {"f": F, "shape": list(spec["shape"]), "lo": zero}, "neg": {"f": N, "shape": list(spec["shape"]), "lo": zero}}
    if spec["cls"] in NEG_ADAPTIVE:
        O = [fr(v) for v in spec["ofreq"]]
        ops["other"] = {"f": O, "shape": list(spec["oshape"]), "lo": list(spec["shift"])}
        ops["oneg"] = {"f": [-v for v in O], "shape": list(spec["oshape"]), "lo": list(spec["shift"])}
    return ops


def snap_operands(snaps):
    """the same structure from what the implementation reported"""
    base = snaps["a"]["lo"] if "a" in snaps else None
    out = {}
    for k, s in snaps.items():
        lo = [int(fr(x) - fr(y)) for x, y in zip(s["lo"], base)] if base is not None and len(base) == len(s["lo"]) else [0] * len(s["shape"])
        out[k] = {"f": [fr(v) for v in s["f"]], "shape": list(s["shape"]), "lo": lo}
    return out


def expect_negop(how, ops):
    """what the operation computes, exactly: {"neg": the result (or a partial result on the way) has a negative content
    (None = not determined), "keep": the contents an in-place target must still hold when the operation is refused (or None)}"""
    op = how["op"]

    def get(n):
        if n == "a2":
            a = ops["a"]
            return {"f": [2 * v for v in a["f"]], "shape": a["shape"], "lo": a["lo"]}
        return ops[n]
    if op == "add":
        terms = [get(n) for n in how["terms"]]
        acc = op_cells(terms[0])
        regrid = not all(same_grid(terms[0], t) for t in terms[1:])
        if how["how"] == "coll":
            # ONE operation of the collection: only its result is pinned (the unchanged library adds from the left and refuses a
            # negative partial sum as well; a case whose partial sums only are negative is not judged, and not generated)
            partial = False
            for t in terms[1:]:
                acc = cells_add(acc, op_cells(t))
                partial = partial or any_negative(acc)
            return {"neg": True if any_negative(acc) else (None if partial else False), "keep": None,
                    "partial": [fs(v) for _, v in sorted(acc.items())]}
        # binary chains, in-place chains and sum([..]) are sequences of separate `+` / `+=` operations, each with its own result
        for t in terms[1:]:
            nxt = cells_add(acc, op_cells(t))
            if any_negative(nxt):
                return {"neg": True, "keep": None if regrid else acc, "partial": [fs(v) for _, v in sorted(nxt.items())]}
            acc = nxt
        return {"neg": False, "keep": None}
    if op == "sub":
        x, y = get(how["x"]), get(how["y"])
        if not same_grid(x, y):
            return {"neg": None, "keep": None}
        return {"neg": any_negative(cells_add(op_cells(x), op_cells(y), -1)), "keep": op_cells(x)}
    if op in ("mul", "div"):
        x, c = get(how["x"]), fr(how["c"])
        if op == "div" and c == 0:
            return {"neg": None, "keep": None}
        vals = [v * c if op == "mul" else v / c for v in x["f"]]
        return {"neg": any(v < 0 for v in vals), "keep": op_cells(x)}
    if op == "normalize":
        x = get(how["x"])
        total = sum(x["f"])
        if total == 0:
            return {"neg": None, "keep": None}
        return {"neg": any(v / total < 0 for v in x["f"]), "keep": op_cells(x)}
    if op in ("setter", "ctor"):
        return {"neg": any(v < 0 for v in ops["neg"]["f"]), "keep": op_cells(ops["a"]) if op == "setter" else None}
    if op == "fill_neg":
        a = ops["a"]
        return {"neg": a["f"][how["cell"]] - fr(how["w"]) * how["times"] < 0, "keep": None}
    if op == "route":
        # the contents that arrive are those of the source; a negative errors2 is not "contents" of the property's clause
        return {"neg": how["how"] not in ROUTES_UNPINNED and any(v < 0 for v in ops[how.get("src", "neg")]["f"]), "keep": None}
    return {"neg": False, "keep": None}     # re-arrangements create no new contents: never gated


# ---- the real objects
def _values(spec, flat, shape):
    integral = spec["cls"] != "h1f" and all(fr(v).denominator == 1 for v in flat)
    return np.array([int(fr(v)) if integral else float(fr(v)) for v in flat], dtype=np.int64 if integral else np.float64).reshape(shape)


def make_hist(spec, flat, which="a"):
    from physt.binnings import FixedWidthBinning
    from physt.histogram1d import Histogram1D
    from physt.histogram_nd import Histogram2D, HistogramND
    from physt.special_histograms import PolarHistogram, RadialHistogram
    cls = spec["cls"]
    shape = spec["oshape"] if which == "other" else spec["shape"]
    lo = spec["shift"] if which == "other" else [0] * len(shape)
    vals = _values(spec, flat, shape)
    if cls in ("h1", "h1f"):
        return Histogram1D(list(range(shape[0] + 1)), vals)
    if cls == "radial":
        return RadialHistogram(list(range(shape[0] + 1)), vals)
    if cls == "h2":
        return Histogram2D([list(range(n + 1)) for n in shape], vals)
    if cls == "h3":
        return HistogramND([list(range(n + 1)) for n in shape], vals, dimension=len(shape))
    if cls == "polar":
        return PolarHistogram([list(range(shape[0] + 1)), np.linspace(0, 2 * np.pi, shape[1] + 1)], vals)
    bins = [FixedWidthBinning(bin_width=1, bin_count=n, min=l, adaptive=True) for n, l in zip(shape, lo)]
    if cls == "ad1":
        return Histogram1D(bins[0], vals)
    if cls == "ad2":
        return Histogram2D(bins, vals)
    raise RuntimeError("unknown class " + cls)


def cell_centre(h, cell):
    idx = np.unravel_index(cell, h.shape)
    if h.ndim == 1:
        return float(h.bin_centers[idx[0]])
    return [float(h.get_bin_centers(ax)[i]) for ax, i in enumerate(idx)]


def build_operands(spec):
    """`a`, and `neg` derived from it by an operation that yields negative contents (refused unless the switch is on, except
    the two fill builds)"""
    a = make_hist(spec, spec["freq"])
    b = spec["build"]
    shape = spec["shape"]
    if b == "mul_m1":
        neg = a * (-1)
    elif b == "sub_2a":
        neg = a - 2 * a
    elif b == "imul":
        neg = a.copy()
        neg *= -spec["k"]
    elif b == "div_neg":
        neg = a / (-spec["k"])
    elif b == "arr_add":
        neg = a + _values(spec, spec["arr"], shape)
    elif b == "arr_sub":
        neg = a - _values(spec, spec["arr"], shape)
    elif b == "setter":
        neg = a.copy()
        neg.frequencies = _values(spec, spec["arr"], shape)
    elif b == "ctor":
        neg = make_hist(spec, spec["arr"])
    elif b == "fill_neg":
        neg = a.copy()
        for _ in range(spec["times"]):
            neg.fill(cell_centre(a, spec["cell"]), weight=-spec["w"])
    elif b == "fill_n_neg":
        neg = a.copy()
        neg.fill_n([cell_centre(a, spec["cell"])] * spec["times"], weights=[-spec["w"]] * spec["times"])
    else:
        raise RuntimeError("unknown build " + b)
    ops = {"a": a, "neg": neg}
    if spec["cls"] in NEG_ADAPTIVE:
        ops["other"] = make_hist(spec, spec["ofreq"], "other")
        ops["oneg"] = ops["other"] * (-1)
    return ops


def snap_hist(h):
    bins = [np.asarray(h.bins).reshape(-1, 2)[0]] if h.ndim == 1 else [np.asarray(b).reshape(-1, 2)[0] for b in h.bins]
    return {"f": [fs(v) for v in np.asarray(h.frequencies).ravel().tolist()], "e2": [fs(v) for v in np.asarray(h.errors2).ravel().tolist()],
            "shape": [int(n) for n in h.shape], "dtype": str(h.dtype), "lo": [fs(float(b[0])) for b in bins], "cls": type(h).__name__}


# ---- entry routes (stream routes): every way by which contents REACH a histogram, fed with the contents of `neg` (or of `a`)
# The carriers (dict, JSON text, collection dict, xarray Dataset) are written inside the block in which `neg` was built
# (to_dict / to_json / to_xarray there) and read back anywhere.  Measured on the unchanged library (1cb81f8), for every class:
#   refused outside / inside enable_free_arithmetics(False), accepted inside a block (they all end in the constructor or in the
#   frequencies setter, which hold the guard): from_dict, create_from_dict, parse_json, load_json, HistogramCollection.from_dict,
#   Histogram1D.from_xarray, the constructor with frequencies= and errors2=, the frequencies setter on a fresh histogram,
#   from_calculate_frequencies(weights=negative), the facade h1 / h2 / h(.., weights=negative).  These are GATED (route).
#   passed through in every mode: copy() (stream neg_state, rearr:copy); refused in every mode: the errors2 setter / errors2=
#   with NEGATIVE values ("Cannot have negative square errors", no switch involved) -- route `e2_neg`, recorded, never judged.
ROUTES_DOC = ["from_dict", "create_from_dict", "parse_json", "load_json", "coll_from_dict", "from_xarray"]
ROUTES_VAL = ["ctor_e2", "setter_fresh", "calc_freq", "facade"]
ROUTES = ROUTES_DOC + ROUTES_VAL
ROUTES_UNPINNED = ["e2_neg"]
ROUTES_1D_ONLY = ("coll_from_dict", "from_xarray", "calc_freq")
ROUTE_SCRATCH = "/var/tmp/c19_route"
_route_counter = itertools.count()


ENABLE_ND_ARRAY_BUILD_DOCUMENT_ROUTES = False
# unchanged library, inside `with config.enable_free_arithmetics():`  n = Histogram2D([[0,1,2],[0,1,2]], [[1,2],[3,4]]) - np.ones((2,2))
# (any N-d class, h + array as well) has `missed` = NaN with dtype int64; n.to_dict() / n.to_json() write the NaN and
# type(n).from_dict / parse_json / load_json / create_from_dict of that output raise ValueError("cannot convert float NaN to
# integer") in EVERY mode, also inside the block: a document the library wrote cannot be read.  Not a matter of the switch (and not
# of negative contents: a non-negative result does the same): kept out of the generator, reported.


def routes_for(spec):
    cls = spec["cls"]
    out = ["from_dict", "create_from_dict", "parse_json", "load_json", "ctor_e2", "setter_fresh"]
    if len(spec["shape"]) > 1 and spec["build"] in ("arr_add", "arr_sub") and not ENABLE_ND_ARRAY_BUILD_DOCUMENT_ROUTES:
        out = ["ctor_e2", "setter_fresh"]
    if cls in ("h1", "h1f", "ad1"):
        out += ["coll_from_dict", "from_xarray", "calc_freq", "facade"]
    if cls in ("h2", "h3"):
        out += ["facade"]
    return out


def build_docs(ops, spec):
    """the carriers of `a` and of `neg`, written in the context of the caller (normally: inside the block that built `neg`)"""
    from physt.histogram_collection import HistogramCollection
    docs = {}
    for src in ("a", "neg"):
        h = ops[src]
        d = {"dict": h.to_dict(), "json": h.to_json()}
        if spec["cls"] in ("h1", "h1f", "ad1"):
            import physt.compat.xarray  # noqa: F401  (attaches Histogram1D.to_xarray / from_xarray)
            other = ops["a"].copy()
            d["coll"] = HistogramCollection(other, h, name="c19").to_dict()
            d["xr"] = h.to_xarray()
        docs[src] = d
    return docs


def apply_route(how, ops, spec, docs):
    """contents arrive in a NEW histogram through one entry route; returns the histogram that came out"""
    import physt
    from physt import io as pio
    from physt.histogram1d import Histogram1D
    from physt.histogram_collection import HistogramCollection
    route, src = how["how"], how.get("src", "neg")
    h = ops[src]
    d = docs[src]
    if route == "from_dict":
        return type(h).from_dict(copy.deepcopy(d["dict"]))
    if route == "create_from_dict":
        return pio.create_from_dict(json.loads(d["json"]), "c19")        # the parsed tree (to_json adds the version field)
    if route == "parse_json":
        return pio.parse_json(d["json"])
    if route == "load_json":
        path = f"{ROUTE_SCRATCH}_{os.getpid()}_{threading.get_ident()}_{next(_route_counter)}.json"      # removed below
        try:
            with open(path, "w", encoding="utf-8") as f:
                f.write(d["json"])
            return pio.load_json(path)
        finally:
            with contextlib.suppress(OSError):
                os.remove(path)
    if route == "coll_from_dict":
        return HistogramCollection.from_dict(copy.deepcopy(d["coll"])).histograms[1]
    if route == "from_xarray":
        return Histogram1D.from_xarray(d["xr"])
    freq = np.array(h.frequencies)
    if route == "ctor_e2":
        x = ops["a"]
        binnings = [b.copy() for b in x._binnings]
        if x.ndim == 1:
            return type(x)(binnings[0], frequencies=freq, errors2=np.array(h.errors2))
        kw = {"dimension": x.ndim} if spec["cls"] == "h3" else {}
        return type(x)(binnings, frequencies=freq, errors2=np.array(h.errors2), **kw)
    if route == "setter_fresh":
        x = ops["a"].copy(include_frequencies=False)
        x.frequencies = freq
        return x
    if route == "e2_neg":
        x = ops["a"].copy()
        x.errors2 = np.array(ops["neg"].frequencies)
        return x
    # one point per bin (its centre), weighted with the contents
    a = ops["a"]
    if route == "calc_freq":
        return Histogram1D.from_calculate_frequencies(np.asarray(a.bin_centers, dtype=float), a.binning.copy(), weights=freq.astype(float))
    if route == "facade":
        if a.ndim == 1:
            return physt.h1(np.asarray(a.bin_centers, dtype=float), np.asarray(a.numpy_bins, dtype=float), weights=freq.astype(float))
        centres = [np.asarray(a.get_bin_centers(ax), dtype=float) for ax in range(a.ndim)]
        pts = np.array(list(itertools.product(*centres)))
        edges = [np.asarray(e, dtype=float) for e in a.numpy_bins]
        w = freq.astype(float).ravel()
        if a.ndim == 2:
            return physt.h2(pts[:, 0], pts[:, 1], edges, weights=w)
        return physt.h(pts, edges, weights=w)
    raise RuntimeError("unknown route " + route)


def private_build(spec):
    """the operands of a slot nobody has built (a shrunk case, another thread's slot): built with the switch SET in a throw-away
    copy of the context, which the calling context never sees"""
    def f():
        from physt.config import config
        config.free_arithmetics = True
        return build_operands(spec)
    return contextvars.copy_context().run(f)


def private_docs(ops, spec):
    def f():
        from physt.config import config
        config.free_arithmetics = True
        return build_docs(ops, spec)
    return contextvars.copy_context().run(f)


def apply_negop(how, ops, spec, holder, docs=None):
    from physt.histogram_collection import HistogramCollection
    op = how["op"]
    if op == "route":
        return apply_route(how, ops, spec, docs)

    def get(n):
        return ops["a"] + ops["a"] if n == "a2" else ops[n]

    def target(h):
        holder["target"] = h.copy()
        return holder["target"]
    if op == "add":
        terms = [get(n) for n in how["terms"]]
        h = how["how"]
        if h == "binary":
            r = terms[0]
            for t in terms[1:]:
                r = r + t
            return r
        if h == "iadd":
            x = target(terms[0])
            for t in terms[1:]:
                x += t
            return x
        if h == "sum":
            return sum(terms)
        return HistogramCollection(*terms).sum()
    if op == "sub":
        x, y = get(how["x"]), get(how["y"])
        if how["how"] == "binary":
            return x - y
        x = target(x)
        x -= y
        return x
    if op == "mul":
        x, c = get(how["x"]), how["c"]
        if how["how"] == "mul":
            return x * c
        if how["how"] == "rmul":
            return c * x
        x = target(x)
        x *= c
        return x
    if op == "div":
        x, c = get(how["x"]), how["c"]
        if how["how"] == "div":
            return x / c
        x = target(x)
        x /= c
        return x
    if op == "normalize":
        x = get(how["x"])
        if how["inplace"]:
            x = target(x)
        return x.normalize(inplace=how["inplace"], percent=how["percent"])
    if op == "setter":
        x = target(ops["a"])
        x.frequencies = np.array(ops["neg"].frequencies)
        return x
    if op == "ctor":
        return make_hist(spec, np.asarray(ops["neg"].frequencies).ravel().tolist())
    if op == "fill_neg":
        x = target(ops["a"])
        for _ in range(how["times"]):
            x.fill(cell_centre(x, how["cell"]), weight=-how["w"])
        return x
    neg = ops["neg"]
    if op == "copy":
        return neg.copy()
    if op == "set_dtype":
        x = neg.copy()
        x.set_dtype(np.float64)
        return x
    if op == "merge_bins":
        return neg.merge_bins(2) if neg.ndim == 1 else neg.merge_bins(2, axis=how.get("axis", 0))
    if op == "projection":
        return neg.projection(how.get("axis", 0))
    if op == "slice":
        return neg[0:2] if neg.ndim == 1 else neg[0:1]
    if op == "index":
        return neg[[0, neg.shape[0] - 1]] if neg.ndim == 1 else neg[0]
    if op == "transpose":
        return neg.T
    raise RuntimeError("unknown operation " + op)


def neg_step(how, env):
    """one step on kept operands; everything the oracle needs is reported under `_d` (not compared with the model)"""
    from physt.config import config
    specs, slots = env["specs"], env["slots"]
    if "mk" in how:
        name = how["mk"]
        try:
            with warnings.catch_warnings():
                warnings.simplefilter("ignore")
                ops = build_operands(specs[name])
        except (TypeError, ValueError) as e:
            slots[name] = None
            return {"accepted": False, "_d": {"mk": name, "refusal": type(e).__name__}}
        slots[name] = ops
        try:
            with warnings.catch_warnings():
                warnings.simplefilter("ignore")
                env["docs"][name] = build_docs(ops, specs[name])       # written HERE: in the context that built `neg`
        except Exception:
            env["docs"].pop(name, None)                                 # (written privately when a route asks for them)
        return {"accepted": True, "_d": {"mk": name, "built": {k: snap_hist(v) for k, v in ops.items()}}}
    name = how["slot"]
    ops = slots.get(name)
    if ops is None:
        with warnings.catch_warnings():
            warnings.simplefilter("ignore")
            ops = slots[name] = private_build(specs[name])
    d = {"how": how, "cls": specs[name]["cls"], "before": {k: snap_hist(v) for k, v in ops.items()}}
    docs = None
    if how["op"] == "route":
        docs = env["docs"].get(name)
        if docs is None:
            with warnings.catch_warnings():
                warnings.simplefilter("ignore")
                docs = env["docs"][name] = private_docs(ops, specs[name])
    d["flag_before"] = bool(config.free_arithmetics)
    holder = {}
    res = None
    try:
        with warnings.catch_warnings():
            warnings.simplefilter("ignore")
            res = apply_negop(how, ops, specs[name], holder, docs)
        accepted = True
    except (TypeError, ValueError) as e:
        accepted = False
        d["refusal"] = type(e).__name__
    if accepted:
        d["result"] = snap_hist(res) if hasattr(res, "frequencies") and hasattr(res, "bins") else None
    d["after"] = {k: snap_hist(v) for k, v in ops.items()}
    if holder.get("target") is not None:
        d["target"] = snap_hist(holder["target"])
    d["flag"] = bool(config.free_arithmetics)
    return {"accepted": accepted, "_d": d}


def arith_obs(how, env):
    if isinstance(how, dict):
        return neg_step(how, env)
    return {"accepted": do_arith(how)}


# ---- generation of slots and of operations on them
def gen_spec(rng, cls=None, build=None):
    cls = cls or rng.choice(NEG_CLASSES)
    if cls in ("h1", "h1f", "radial", "ad1"):
        shape = [rng.randint(2, 4)]
    elif cls == "h3":
        shape = [2, 2, 2]
    else:
        shape = [rng.randint(2, 3), rng.randint(2, 3)]
    n = int(np.prod(shape))
    q = 4 if cls == "h1f" else 1                    # h1f: multiples of 1/4

    def num(lo, hi):
        v = rng.randint(lo * q, hi * q)
        return v if q == 1 else v / q
    freq = [num(0, 5) for _ in range(n)]
    for i in rng.sample(range(n), 2):               # at least two cells with contents
        if freq[i] == 0:
            freq[i] = num(1, 5)
    builds = GATED_BUILDS * 3 + (FREE_BUILDS if cls in NEG_FILLABLE else [])
    spec = {"cls": cls, "shape": shape, "freq": freq, "build": build or rng.choice(builds)}
    b = spec["build"]
    hit = sorted(rng.sample(range(n), rng.randint(1, max(1, n // 2))))      # the cells that become negative in a mixed build
    if rng.random() < 0.25:
        hit = list(range(n))
    if b in ("imul", "div_neg"):
        spec["k"] = rng.choice([1, 2, 3]) if b == "imul" else rng.choice([1, 2, 4])
    elif b == "arr_add":
        spec["arr"] = [-(freq[i] + num(1, 3)) if i in hit else num(0, 2) for i in range(n)]
    elif b == "arr_sub":
        spec["arr"] = [freq[i] + num(1, 3) if i in hit else -num(0, 2) for i in range(n)]
    elif b in ("setter", "ctor"):
        spec["arr"] = [-num(1, 4) if i in hit else num(0, 4) for i in range(n)]
    elif b in FREE_BUILDS:
        cell = rng.choice([i for i in range(n) if freq[i] > 0])
        w = 1 if q == 1 else rng.choice([1, 0.5, 0.25])
        spec.update(cell=cell, w=w, times=int(freq[cell] / w) + rng.randint(1, 3))
    if cls in NEG_ADAPTIVE:
        oshape = [rng.randint(1, 3) for _ in shape]
        shift = [rng.choice([-3, -2, -1, 1, 2, 3, 4, 5])] + [rng.randint(-2, 3) for _ in shape[1:]]
        ofreq = [rng.randint(0, 4) for _ in range(int(np.prod(oshape)))]
        ofreq[rng.randrange(len(ofreq))] = rng.randint(1, 4)
        spec.update(oshape=oshape, shift=shift, ofreq=ofreq)
    return spec


ADD_TERMS = [["a", "neg", "neg"], ["neg", "a", "neg"], ["neg", "neg"], ["a", "neg"], ["neg", "a"], ["neg", "neg", "a", "a", "a"],
             ["a", "a", "neg", "neg", "neg"], ["neg", "a", "a"]]
ADD_TERMS_REGRID = [["a", "oneg"], ["oneg", "a"], ["neg", "other"], ["other", "neg"], ["a", "other", "oneg", "oneg"],
                    ["a", "oneg", "other"], ["other", "a", "neg", "neg"]]


def gen_negop(rng, name, spec, kind=None):
    """one operation on slot `name`; its "g" is decided by exact arithmetic on the spec"""
    for _ in range(8):
        how = _gen_negop(rng, name, spec, kind)
        e = expect_negop(how, spec_operands(spec))["neg"]
        if e is not None:       # (None: e.g. normalize() of contents whose total is 0 -- not generated)
            how["g"] = e
            return how
    return {"slot": name, "op": "copy", "g": False}


def mk_item(name, spec):
    """building a slot is itself a gated operation (adaptive classes always: `oneg = other * (-1)`), except by fill()"""
    return ["arith", {"mk": name, "g": spec["build"] in GATED_BUILDS or spec["cls"] in NEG_ADAPTIVE}]


def _gen_negop(rng, name, spec, kind=None):
    cls = spec["cls"]
    kinds = ["add"] * 6 + ["sub"] * 3 + ["mul"] * 3 + ["div"] * 2 + ["normalize", "setter", "ctor"]
    if ENABLE_FILL_NEGATIVE_WEIGHT and cls in NEG_FILLABLE:
        kinds.append("fill_neg")
    op = kind or rng.choice(kinds)
    how = {"slot": name, "op": op}
    if op == "add":
        regrid = cls in NEG_ADAPTIVE and rng.random() < 0.5
        how["terms"] = list(rng.choice(ADD_TERMS_REGRID if regrid else ADD_TERMS))
        hows = ["binary", "binary", "iadd", "iadd", "sum"] + (["coll"] if cls in NEG_CLASSES_1D and not regrid else [])
        how["how"] = rng.choice(hows)
    elif op == "sub":
        how["x"], how["y"] = rng.choice([("a", "a2"), ("a", "a2"), ("neg", "a"), ("a", "neg"), ("neg", "neg"), ("a2", "a"), ("neg", "a2")])
        how["how"] = rng.choice(["binary", "isub"])
    elif op == "mul":
        how["x"] = rng.choice(["neg", "neg", "neg", "a"])
        how["c"] = rng.choice([2, 3, 0.5, 1, -1, -2, -0.5, 0])
        how["how"] = rng.choice(["mul", "rmul", "imul"])
    elif op == "div":
        how["x"] = rng.choice(["neg", "neg", "neg", "a"])
        how["c"] = rng.choice([2, 4, 0.5, 1, -1, -2])
        how["how"] = rng.choice(["div", "idiv"])
    elif op == "normalize":
        how.update(x="neg", inplace=rng.random() < 0.5, percent=rng.random() < 0.3)
    elif op == "fill_neg":
        cell = rng.choice([i for i, v in enumerate(spec["freq"]) if v > 0])
        how.update(cell=cell, w=1, times=int(spec["freq"][cell]) + rng.randint(1, 2))
    elif op in ("merge_bins", "projection"):
        how["axis"] = rng.randrange(len(spec["shape"]))
    return how


def gen_rearr(rng, name, spec):
    nd = len(spec["shape"])
    ops = ["copy", "set_dtype", "merge_bins", "slice", "index"] + (["projection"] if nd > 1 else []) + (["transpose"] if spec["cls"] in ("h2", "ad2") else [])
    return gen_negop(rng, name, spec, rng.choice(ops))


def gen_gated(rng, name, spec, kind=None):
    """an operation that produces negative contents (a few tries; the last one is taken as it is)"""
    for _ in range(12):
        how = gen_negop(rng, name, spec, kind)
        if how["g"]:
            break
    return how


def gen_route(rng, name, spec, src=None, route=None):
    """contents arriving through an entry route: mostly those of `neg` (gated), sometimes those of `a` (valid in every mode),
    rarely the unpinned negative-errors2 probe"""
    how = {"slot": name, "op": "route", "how": route or rng.choice(routes_for(spec)),
           "src": src or ("neg" if rng.random() < 0.85 else "a")}
    if route is None and src is None and rng.random() < 0.05:
        how.update(how="e2_neg", src="neg")
    how["g"] = expect_negop(how, spec_operands(spec))["neg"] is True
    return how


def raises_of(items):
    for it in items:
        if it[0] == "with":
            if it[3]:
                yield it[3]
            yield from raises_of(it[2])


def NOGATE():
    return None


def make_env(specs=None):
    """the objects one run shares between all its threads / tasks"""
    from physt.config import config

    @config.enable_free_arithmetics()
    def f_on(cont):
        return cont()

    @config.enable_free_arithmetics(False)
    def f_off(cont):
        return cont()

    return {"fns": {"on": f_on, "off": f_off}, "cms": {}, "gens": {}, "probes": [], "log": [], "specs": specs or {}, "slots": {}, "docs": {}}


def gen_block(v):
    from physt.config import config
    with config.enable_free_arithmetics(v):
        yield


async def agen_block(v):
    from physt.config import config
    with config.enable_free_arithmetics(v):
        yield


def finish_gen(g, how):
    if how == "close":
        g.close()
    elif how == "throw":
        try:
            g.throw(Boom())
        except Boom:
            pass
    else:
        try:
            next(g)
        except StopIteration:
            pass


async def finish_agen(g, how):
    if how == "close":
        await g.aclose()
    elif how == "throw":
        try:
            await g.athrow(Boom())
        except Boom:
            pass
    else:
        try:
            await g.__anext__()
        except StopAsyncIteration:
            pass


def probe(env, k, tid):
    """try to enter the stored manager k once more; whatever the library answers is recorded, not judged"""
    from physt.config import config
    cm, v = env["cms"].get(str(k), (None, True))
    if cm is None:
        cm = config.enable_free_arithmetics(v)     # nothing stored (yet): a first, ordinary entry
    rec = {"t": tid, "k": k, "v": v, "entered": False, "inside": None}
    try:
        with cm:
            rec["entered"] = True
            rec["inside"] = bool(config.free_arithmetics)
    except Exception as e:          # the refusal of a single-use manager (its class is not pinned)
        rec["refusal"] = type(e).__name__
    env["probes"].append(rec)


def foreign_close(env, k, how, tid):
    g, owner = env["gens"].get(str(k), (None, None))
    if g is None or owner == tid:
        return None
    del env["gens"][str(k)]
    try:
        finish_gen(g, how)
        env["log"].append(["foreign_close", k, "no error"])
    except Exception as e:
        env["log"].append(["foreign_close", k, type(e).__name__])


def exec_sync(items, gate, obs, tid, env):
    from physt.config import config
    for it in items:
        if it[0] == "set":
            gate(); config.free_arithmetics = it[1]; obs.append((tid, None))
        elif it[0] == "read":
            gate(); obs.append((tid, {"value": bool(config.free_arithmetics)}))
        elif it[0] == "arith":
            gate(); obs.append((tid, arith_obs(it[1], env)))
        elif it[0] == "reenter":
            gate(); probe(env, it[1], tid); obs.append((tid, {"value": bool(config.free_arithmetics)}))
        elif it[0] == "gen_open":
            gate()
            g = gen_block(it[2]); next(g)
            env["gens"][str(it[1])] = (g, tid)
            obs.append((tid, None))
        elif it[0] == "gen_close":
            gate(); foreign_close(env, it[1], it[2], tid); obs.append((tid, {"value": bool(config.free_arithmetics)}))
        elif it[0] == "with":
            block_sync(it, gate, obs, tid, env)
        else:
            raise RuntimeError(f"item {it[0]} cannot run here")


def block_sync(it, gate, obs, tid, env):
    from physt.config import config
    v, body, raises, form = it[1], it[2], it[3], form_of(it)
    gate()
    g2 = NOGATE if form.startswith("adec:") else gate

    def inner():
        obs.append((tid, None))
        try:
            exec_sync(body, g2, obs, tid, env)
        except BaseException as e:
            if not is_leave(e):
                raise
            obs.append((tid, None))   # left by the exception of a nested block, in the same atomic step
            raise
        g2()
        obs.append((tid, None))
        if raises:
            leave_by_exception(raises)

    if form == "with":
        with config.enable_free_arithmetics(v):
            inner()
    elif form.startswith("stored:"):
        cm = config.enable_free_arithmetics(v)
        env["cms"][form[7:]] = (cm, v)
        with cm:
            inner()
    elif form == "stack":
        with contextlib.ExitStack() as st:
            st.enter_context(config.enable_free_arithmetics(v))
            inner()
    elif form.startswith(("dec:", "adec:")):
        name = form.split(":")[1]
        if (name == "on") != bool(v):
            raise RuntimeError("malformed case: decorated function and block value differ")
        env["fns"][name](inner)
    elif form.startswith("gen:"):
        g = gen_block(v)
        next(g)
        try:
            inner()
        except BaseException as e:
            if is_leave(e):
                try:
                    g.throw(e)
                except BaseException as e2:
                    if e2 is not e and not isinstance(e2, (Exception, StopIteration)):
                        raise
            raise
        finish_gen(g, form[4:])
    else:
        raise RuntimeError("unknown form " + form)


def close_leftovers(env):
    """generators still suspended inside a block are finished in a throw-away context (nothing may reach a later case)"""
    for k, (g, owner) in list(env["gens"].items()):
        def fin(g=g):
            try:
                g.close()
            except Exception:
                pass
        if hasattr(g, "close"):
            contextvars.copy_context().run(fin)
    env["gens"].clear()


def run_threads(programs, order, spawn_parent, env=None):
    """programs: {tid: items}; order: list of tids (one entry per atomic action)"""
    env = make_env() if env is None else env
    obs = []
    sems = {t: threading.Semaphore(0) for t in programs}
    done = threading.Semaphore(0)
    state = {"first": {t: True for t in programs}}

    def make_gate(t):
        def gate():
            if not state["first"][t]:
                done.release()
            state["first"][t] = False
            sems[t].acquire()
        return gate

    def body(t):
        gate = make_gate(t)
        for it in programs[t]:
            try:
                exec_sync([it], gate, obs, t, env)
            except BaseException as e:
                if not is_leave(e):
                    env["log"].append(["unexpected", t, repr(e)[:300]])
        if not state["first"][t]:
            done.release()

    threads = {t: threading.Thread(target=body, args=(t,), daemon=True) for t in programs}
    for t in threads.values():
        t.start()
    for t in order:
        sems[t].release()
        if not done.acquire(timeout=20):
            raise RuntimeError("schedule deadlock")
    for t in threads.values():
        t.join(timeout=5)
    close_leftovers(env)
    return obs


def run_tasks(programs, order, parent_of, env=None):
    """asyncio: every program is a task; children are created by their parent's spawn op"""
    from physt.config import config
    env = make_env() if env is None else env
    obs = []

    async def main():
        events = {t: asyncio.Event() for t in programs}
        done = asyncio.Event()
        first = {t: True for t in programs}
        tasks = {}

        async def gate(t):
            if not first[t]:
                done.set()
            first[t] = False
            await events[t].wait()
            events[t].clear()

        async def aforeign_close(k, how, t):
            g, owner = env["gens"].get(str(k), (None, None))
            if g is None or owner == t:
                return
            del env["gens"][str(k)]
            try:
                await finish_agen(g, how)
                env["log"].append(["foreign_close", k, "no error"])
            except Exception as e:
                env["log"].append(["foreign_close", k, type(e).__name__])

        async def exec_items(items, t):
            for it in items:
                if it[0] == "set":
                    await gate(t); config.free_arithmetics = it[1]; obs.append((t, None))
                elif it[0] == "read":
                    await gate(t); obs.append((t, {"value": bool(config.free_arithmetics)}))
                elif it[0] == "arith":
                    await gate(t); obs.append((t, arith_obs(it[1], env)))
                elif it[0] == "spawn":
                    await gate(t)
                    tasks[it[2]] = asyncio.create_task(body(it[2]))
                    obs.append((t, None))
                elif it[0] == "reenter":
                    await gate(t); probe(env, it[1], t); obs.append((t, {"value": bool(config.free_arithmetics)}))
                elif it[0] == "gen_open":
                    await gate(t)
                    g = agen_block(it[2]); await g.__anext__()
                    env["gens"][str(it[1])] = (g, t)
                    obs.append((t, None))
                elif it[0] == "gen_close":
                    await gate(t); await aforeign_close(it[1], it[2], t)
                    obs.append((t, {"value": bool(config.free_arithmetics)}))
                elif it[0] == "with":
                    await block_async(it, t)
                else:
                    raise RuntimeError(f"item {it[0]} cannot run here")

        async def block_async(it, t):
            v, body_items, raises, form = it[1], it[2], it[3], form_of(it)
            if form.startswith("adec:"):
                await gate(t)
                block_sync(it, NOGATE, obs, t, env)     # a plain function call: one step of the schedule
                return
            if form.startswith("dec:"):
                raise RuntimeError("malformed case: a stepped call of a plain decorated function inside an asyncio task")
            await gate(t)

            async def inner():
                obs.append((t, None))
                try:
                    await exec_items(body_items, t)
                except BaseException as e:
                    if not is_leave(e):
                        raise
                    obs.append((t, None))
                    raise
                await gate(t)
                obs.append((t, None))
                if raises:
                    leave_by_exception(raises)

            if form == "with":
                with config.enable_free_arithmetics(v):
                    await inner()
            elif form.startswith("stored:"):
                cm = config.enable_free_arithmetics(v)
                env["cms"][form[7:]] = (cm, v)
                with cm:
                    await inner()
            elif form == "stack":
                with contextlib.ExitStack() as st:
                    st.enter_context(config.enable_free_arithmetics(v))
                    await inner()
            elif form.startswith("gen:"):
                g = agen_block(v)
                await g.__anext__()
                try:
                    await inner()
                except BaseException as e:
                    if is_leave(e):
                        try:
                            await g.athrow(e)
                        except BaseException as e2:
                            if e2 is not e and not isinstance(e2, (Exception, StopAsyncIteration)):
                                raise
                    raise
                await finish_agen(g, form[4:])
            else:
                raise RuntimeError("unknown form " + form)

        async def body(t):
            for it in programs[t]:
                try:
                    await exec_items([it], t)
                except BaseException as e:
                    if not is_leave(e):
                        if not isinstance(e, Exception):
                            raise           # a real cancellation / interrupt of the harness itself
                        env["log"].append(["unexpected", t, repr(e)[:300]])
            if not first[t]:
                done.set()

        roots = [t for t in programs if parent_of.get(t) is None]
        for t in roots:
            tasks[t] = asyncio.create_task(body(t))
        await asyncio.sleep(0)
        for t in order:
            done.clear()
            events[t].set()
            await asyncio.wait_for(done.wait(), timeout=20)
        for tk in list(tasks.values()):
            await asyncio.wait_for(tk, timeout=5)

        async def fin():
            for k, (g, owner) in list(env["gens"].items()):
                try:
                    await g.aclose()
                except Exception:
                    pass
            env["gens"].clear()
        await asyncio.create_task(fin())      # in a context of its own

    asyncio.run(main())
    return obs


ENV_SCRIPT = r'''
import json, sys, warnings
warnings.simplefilter("ignore")
sys.path.insert(0, %r)
from harness.props import c19
prog = json.loads(sys.argv[1])
obs = c19.run_threads({0: prog}, [0] * len(c19.linearize_top(prog)), {})
print(json.dumps([o for _, o in obs]))
'''


# ---------------------------------------------------------------- generators of the usage forms
def simple_items(rng, p_read=0.6, p_arith=0.35):
    out = []
    if rng.random() < p_read:
        out.append(["read"])
    if rng.random() < p_arith:
        out.append(["arith", rng.choice(GATED)])
    return out


def pick_raise(rng):
    r = rng.random()
    if r < 0.35:
        return True
    if r < 0.65:
        return "fail:" + rng.choice(FAIL_HOWS)
    return "base:" + rng.choice(BASE_EXITS)


def chain(rng, levels, raise_at=None):
    """nested blocks, outermost first; levels = [(value, form)]; the body of level `raise_at` ends by raising"""
    def build(i):
        body = simple_items(rng)
        if i + 1 < len(levels):
            body.append(build(i + 1))
            body += simple_items(rng, 0.5, 0.2)
        if not body:
            body.append(["read"])
        v, form = levels[i]
        return blk(v, body, pick_raise(rng) if raise_at == i else False, form)
    return build(0)


def dec_levels(rng, depth, stepped):
    r = rng.random()
    first = rng.choice(["on", "off"])
    if r < 0.35:
        names = [first] * depth                                             # f -> f -> f
    elif r < 0.7:
        names = [first if i % 2 == 0 else ("off" if first == "on" else "on") for i in range(depth)]   # f -> g -> f
    else:
        names = [rng.choice(["on", "off"]) for _ in range(depth)]
    out = []
    for n in names:
        kind = "dec:" if stepped and rng.random() < 0.8 else "adec:"
        out.append((n == "on", kind + n))
    return out


def interleavings(n0, n1):
    """all orders of n0 steps of thread 0 and n1 steps of thread 1"""
    for pos in itertools.combinations(range(n0 + n1), n0):
        s = set(pos)
        yield [0 if i in s else 1 for i in range(n0 + n1)]


class C19:
    ID = "C19"
    GEN_TIE = ["config"]     # definitions regenerated from physt/config.py (harness/gen_tie.py)
    N_QUICK = 288            # (256 before stream routes was added: the older streams keep their absolute numbers)
    N_THOROUGH = 4200
    N_SEARCH = 150
    BASE_SHARE = 0.535       # the share of the original stream of random programs (>= 150 of the 288 quick cases)
    NEG_SHARE = 0.125        # stream neg_state (~36 of the 288 quick cases); the four usage-form streams keep their ~66
    ROUTE_SHARE = 0.10       # stream routes (~29 of the 288 quick cases)
    RULE = ("programs of set / read / arithmetic-with-array / negative-contents / nested `with enable_free_arithmetics(v)` blocks "
            "(depth <= 4, bodies that raise at any depth) for 1-3 real threads or asyncio tasks (children spawned mid-program), run "
            "under a generated interleaving of their atomic steps (threads stepped by semaphores, tasks by events); every read and "
            "every accept / refuse decision is recorded; each thread's program is re-run alone and compared (isolation); one "
            "subprocess run with PHYST_FREE_ARITHMETICS=1 (environment default). Streams (tags stream:*): base = the above; "
            "decorator = calls of functions decorated with the manager (shared by all threads), re-entering themselves directly or "
            "through the other decorated function, with exceptions at any depth, concurrently from threads with different values; "
            "exc_depth = nested blocks of mixed forms (with / stored manager / ExitStack / decorator / generator) left by Boom or by "
            "an operation physt refuses in every mode, at a chosen depth, then reads and gated operations outside; stored_cm = a "
            "kept manager object entered once and tried again (nested, afterwards, from other threads / tasks); generator = "
            "(async) generators that enter the block and yield, finished by their own context or touched by another one; "
            "neg_state = operands WITH NEGATIVE CONTENTS are built while the switch is on (inside a block of any form, or under the "
            "setting; by h * (-1), h - 2h, *= / by a negative number, array addition / subtraction, the frequencies setter, the "
            "constructor, fill with negative weights) for 1-D int / float, 2-D, 3-D, radial, polar and adaptive 1-D / 2-D histograms; "
            "the block is left (normally, by an exception, through a nested disabled block) and every operation that writes contents "
            "is applied with the switch off: a + neg, neg + a, +=, sum(), HistogramCollection.sum(), addition with adaptive "
            "re-binning, - and -=, * and / by positive and negative numbers (also r-mul, in place), normalize, the frequencies setter, "
            "the constructor; each is refused iff its exact result (Fraction arithmetic on the contents reported) has a negative "
            "content, accepted inside a block, leaves its operands alone, and a refused in-place form leaves its target alone; "
            "re-arrangements (copy, set_dtype, merge_bins, projection, slices, index, T) are recorded, accepted inside a block, not "
            "judged outside; a second context with the switch on does the same operations meanwhile (all accepted). "
            "routes = every ENTRY route by which contents reach a histogram: the dict / JSON text / collection dict / xarray Dataset of "
            "a histogram with negative contents are written inside the block that built it (to_dict / to_json / to_xarray there) and "
            "read back by from_dict, io.create_from_dict, io.parse_json, io.load_json (scratch file under /var/tmp, removed), "
            "HistogramCollection.from_dict, Histogram1D.from_xarray; its contents are fed to the constructor (frequencies= with "
            "errors2=), to the frequencies setter of a fresh histogram, to from_calculate_frequencies(weights=) and to the facade "
            "h1 / h2 / h(weights=) -- inside the block, inside a disabled block nested in it (any form), behind that, under the "
            "setting, and after the block was left normally / by an Exception / by a BaseException: accepted iff the switch is on, "
            "the switch reads the same before and after every route, operands untouched; the same routes with non-negative contents "
            "(accepted everywhere, not judged) and x.errors2 = negative (refused everywhere, not judged) are recorded. "
            "Bodies that end by raising leave the block by Boom, by a refusal of physt itself, or by an exception that is NOT an "
            "Exception (KeyboardInterrupt, SystemExit, GeneratorExit, asyncio.CancelledError: tags exit:base:*), at any depth, in "
            "every stream but base; exhaustive_base_exits = each of the four x depth <= 3 x raising level x ambient value. "
            "Thorough: all interleavings of small programs. "
            "non-trivial = at least two contexts with different values alive at once; distinct = hash of programs + schedule")
    ASSUMPTIONS = ["CPython's contextvars / threading / asyncio semantics (a new thread starts with an empty context, a task with a copy)",
                   "the GIL-level atomicity of a single set / reset is not explored: steps are scheduled deterministically",
                   "a block entered by a generator that another context then resumes / closes is outside well-bracketed scoping: only "
                   "the OTHER context's own value is pinned there (unchanged), the opener's value is not judged afterwards",
                   "a chain a + b + c, x += b; x += c and sum([..]) are sequences of separate additions, each with a result of its own "
                   "(a negative partial sum must be refused outside a block); HistogramCollection.sum() is one operation (only its "
                   "result is pinned)",
                   "fill / fill_n with a negative weight outside a block is NOT generated (ENABLE_FILL_NEGATIVE_WEIGHT): the unchanged "
                   "library accepts it and stores negative contents",
                   "document routes of an N-d histogram built by h +/- array are NOT generated (ENABLE_ND_ARRAY_BUILD_DOCUMENT_ROUTES): "
                   "the unchanged library cannot read its own to_dict / to_json output there in any mode (missed = NaN, dtype int64)",
                   "a BaseException raised by the body is caught by the harness outside the outermost block of the same context "
                   "(the program goes on in that context, as after Ctrl-C in a REPL or a cancellation caught in the task)"]
    EXTRA_TRUST = ["the model cannot exhibit interpreter-level races; schedules are the interleavings of whole ContextVar operations",
                   "a call of a decorated function / an entered stored manager / ExitStack / generator block is presented to the model "
                   "as the enter ... exit pair of the context that performs it",
                   "an operation on kept operands whose exact result has a negative content is presented to the model as its `arith` "
                   "(accepted iff the context's value is true); the other operations on kept operands are not steps of the model's "
                   "machine and are left out of the comparison (oracle only)"]

    # ------------------------------------------------------------------ generation
    def gen_case(self, rng, k, tier):
        r = rng.random()
        if self.BASE_SHARE <= r < self.BASE_SHARE + self.NEG_SHARE:
            return self.gen_neg_state(rng)
        if self.BASE_SHARE + self.NEG_SHARE <= r < self.BASE_SHARE + self.NEG_SHARE + self.ROUTE_SHARE:
            return self.gen_routes(rng)
        if r >= self.BASE_SHARE:
            r = (r - self.BASE_SHARE - self.NEG_SHARE - self.ROUTE_SHARE) / (1 - self.BASE_SHARE - self.NEG_SHARE - self.ROUTE_SHARE)
            if r < 0.34:
                return self.gen_decorator(rng)
            if r < 0.56:
                return self.gen_exc_depth(rng)
            if r < 0.78:
                return self.gen_stored(rng)
            return self.gen_generator(rng)
        mode = rng.choice(["threads", "threads", "tasks", "single"])
        nthreads = 1 if mode == "single" else rng.randint(2, 3)
        programs = {t: gen_items(rng) for t in range(nthreads)}
        parent_of = {}
        if mode == "tasks" and nthreads >= 2 and rng.random() < 0.6:
            # task 1 is spawned by task 0 somewhere in the middle of task 0's top-level program
            pos = rng.randint(0, len(programs[0]))
            programs[0].insert(pos, ["spawn", "spawn_task", 1])
            parent_of[1] = 0
        return self.finish(rng, mode, programs, parent_of, stream="base")

    def gen_decorator(self, rng):
        mode = rng.choice(["single", "threads", "threads", "threads", "tasks"])
        n = 1 if mode == "single" else (2 if rng.random() < 0.75 else 3)
        stepped = mode != "tasks"
        amb0 = rng.random() < 0.5
        shared = None
        programs = {}
        for t in range(n):
            amb = amb0 if t % 2 == 0 else not amb0
            p = [["set", amb]] if (t > 0 or rng.random() < 0.8) else []
            for _ in range(rng.randint(1, 2)):
                depth = rng.choice([1, 1, 2, 2, 3, 4]) if n == 1 else rng.choice([1, 1, 2, 3])
                levels = dec_levels(rng, depth, stepped)
                if n > 1:
                    # the threads mostly call the SAME decorated function, and at least the outermost call is stepped
                    if shared is None:
                        shared = levels[0][1].split(":")[1]
                    if rng.random() < 0.8:
                        levels[0] = (shared == "on", ("dec:" if stepped else "adec:") + shared)
                raise_at = rng.randrange(depth) if rng.random() < 0.4 else None
                p.append(chain(rng, levels, raise_at))
                p.append(["read"])
                if rng.random() < 0.7:
                    p.append(["arith", rng.choice(GATED)])
            programs[t] = p
        return self.finish(rng, mode, programs, {}, stream="decorator")

    def mixed_levels(self, rng, depth, stepped, kbase=0):
        out = []
        for i in range(depth):
            v = rng.random() < 0.6
            form = rng.choice(["with", "stack", "stored", "gen", "dec", "adec"])
            if form == "stored":
                form = f"stored:{kbase + i}"
            elif form == "gen":
                form = "gen:" + rng.choice(["next", "close", "throw"])
            elif form == "dec":
                form = ("dec:" if stepped else "adec:") + ("on" if v else "off")
            elif form == "adec":
                form = "adec:" + ("on" if v else "off")
            out.append((v, form))
        return out

    def gen_exc_depth(self, rng):
        mode = rng.choice(["single", "single", "threads", "tasks"])
        n = 1 if mode == "single" else 2
        programs = {}
        for t in range(n):
            p = [["set", rng.random() < 0.5]] if rng.random() < 0.7 else []
            for j in range(rng.randint(1, 2)):
                depth = rng.randint(1, 4)
                levels = self.mixed_levels(rng, depth, mode != "tasks", kbase=10 * t + 4 * j)
                p.append(chain(rng, levels, rng.randrange(depth)))
                p.append(["read"])
                p.append(["arith", rng.choice(["negative_factor", "array", "array_mul", "array_div"])])
            programs[t] = p
        return self.finish(rng, mode, programs, {}, stream="exc_depth")

    def gen_stored(self, rng):
        mode = rng.choice(["single", "threads", "threads", "tasks", "tasks"])
        n = 1 if mode == "single" else rng.randint(2, 3)
        programs = {}
        v = rng.random() < 0.6
        amb0 = (not v) if rng.random() < 0.7 else v
        body = simple_items(rng) + [["reenter", 0]] + simple_items(rng)
        if rng.random() < 0.5:
            body.append(blk(rng.random() < 0.5, [["read"], ["reenter", 0]], rng.random() < 0.3))
            body.append(["read"])
        if rng.random() < 0.3:
            # the manager left, and entered by a second `with` of a NEW stored object with the same key
            body.append(["read"])
        p0 = ([["set", amb0]] if rng.random() < 0.8 else []) + [blk(v, body, pick_raise(rng) if rng.random() < 0.3 else False, "stored:0"),
                                                               ["read"], ["reenter", 0], ["read"], ["arith", rng.choice(GATED)]]
        programs[0] = p0
        for t in range(1, n):
            amb = (not amb0) if rng.random() < 0.7 else amb0
            p = [["set", amb], ["read"]]
            for _ in range(rng.randint(1, 2)):
                p += [["reenter", 0], ["read"]]
                if rng.random() < 0.5:
                    p.append(["arith", rng.choice(GATED)])
            if rng.random() < 0.4:
                p.append(blk(rng.random() < 0.5, [["read"], ["reenter", t]], False, f"stored:{t}"))
                p.append(["read"])
            programs[t] = p
        return self.finish(rng, mode, programs, {}, stream="stored_cm")

    def gen_generator(self, rng):
        mode = rng.choice(["single", "threads", "threads", "tasks", "tasks"])
        n = 1 if mode == "single" else 2
        programs = {}
        for t in range(n):
            p = [["set", rng.random() < 0.5]] if rng.random() < 0.7 else []
            depth = rng.randint(1, 3)
            levels = [(rng.random() < 0.6, "gen:" + rng.choice(["next", "close", "throw"]) if rng.random() < 0.75 else "with")
                      for _ in range(depth)]
            p.append(chain(rng, levels, rng.randrange(depth) if rng.random() < 0.35 else None))
            p.append(["read"])
            p.append(["arith", rng.choice(GATED)])
            programs[t] = p
        if n == 2 and rng.random() < 0.75:
            # thread 0 starts a generator that stays inside the block; thread 1 resumes / closes it
            a, b = (0, 1) if rng.random() < 0.5 else (1, 0)
            va = rng.random() < 0.6
            programs[a] += [["gen_open", 0, va], ["read"], ["arith", rng.choice(GATED)]]
            if rng.random() < 0.5:
                programs[a] += [blk(rng.random() < 0.5, [["read"]], rng.random() < 0.3), ["read"]]
            programs[b] = [["set", (not va) if rng.random() < 0.7 else va]] + programs[b]
            programs[b] += [["gen_close", 0, rng.choice(["next", "close", "throw"])], ["read"], ["arith", rng.choice(GATED)]]
        return self.finish(rng, mode, programs, {}, stream="generator")

    def gen_neg_state(self, rng):
        """operands with negative contents are built while the switch is on (inside a block of any form, or under the setting),
        the block is left -- normally, by an exception, through a nested disabled block -- and then every operation that
        writes contents is applied to them with the switch off: the gate must sit in the OPERATIONS"""
        mode = rng.choice(["single", "single", "single", "threads", "threads", "tasks"])
        n = 1 if mode == "single" else 2
        slots, programs = {}, {}
        forms = ["with", "with", "with", "stack", "stored", "gen", "adec"] + (["dec"] if mode != "tasks" else [])
        for t in range(n):
            p = []
            if rng.random() < 0.3:
                p.append(["set", False])
            if t == 1 and rng.random() < 0.45:
                # a bystander that has the switch ON for itself and works with negative contents all the time, while the
                # other context applies the same operations with the switch off
                name = f"t{t}s0"
                spec = slots[name] = gen_spec(rng)
                p = [["set", True], mk_item(name, spec), ["read"]]
                for _ in range(rng.randint(2, 4)):
                    p.append(["arith", gen_gated(rng, name, spec) if rng.random() < 0.8 else gen_rearr(rng, name, spec)])
                if rng.random() < 0.5:
                    p.append(blk(False, [["arith", gen_gated(rng, name, spec)], ["read"]], False))
                    p.append(["arith", gen_gated(rng, name, spec)])
                programs[t] = p
                continue
            for j in range(rng.randint(1, 2)):
                name = f"t{t}s{j}"
                spec = slots[name] = gen_spec(rng)
                if rng.random() < 0.15:
                    # the state is reached under the SETTING instead of a block
                    p += [["set", True], mk_item(name, spec)]
                    if rng.random() < 0.5:
                        p.append(["arith", gen_gated(rng, name, spec)])
                    p.append(["set", False])
                else:
                    form = rng.choice(forms)
                    if form == "stored":
                        form = f"stored:{10 * t + j}"
                    elif form == "gen":
                        form = "gen:" + rng.choice(["next", "close", "throw"])
                    elif form in ("dec", "adec"):
                        form += ":on"
                    body = [["read"]] if rng.random() < 0.3 else []
                    body.append(mk_item(name, spec))
                    if rng.random() < 0.4:
                        body.append(["arith", gen_gated(rng, name, spec)])                  # accepted inside
                    if rng.random() < 0.15:
                        body.append(["arith", gen_rearr(rng, name, spec)])                  # re-arranged inside: accepted as well
                    if rng.random() < 0.25:
                        # a disabled block nested in the enabled one: the operands exist already, the gate is closed again
                        inner = [["arith", gen_gated(rng, name, spec)]] + ([["read"]] if rng.random() < 0.5 else [])
                        body.append(blk(False, inner, pick_raise(rng) if rng.random() < 0.2 else False))
                        if not body[-1][3] and rng.random() < 0.5:
                            body.append(["arith", gen_gated(rng, name, spec)])
                    raises = pick_raise(rng) if rng.random() < 0.25 and not any(it[0] == "with" and it[3] for it in body) else False
                    block = blk(True, body, raises, form)
                    if rng.random() < 0.15:
                        block = blk(rng.random() < 0.5, [block, ["read"]], False)           # the whole thing one level deeper
                    p.append(block)
                p.append(["read"])                                                           # False again
                for _ in range(rng.randint(2, 4)):
                    r = rng.random()
                    if r < 0.72:
                        p.append(["arith", gen_gated(rng, name, spec)])
                    elif r < 0.86:
                        p.append(["arith", gen_negop(rng, name, spec)])                      # whatever comes, valid results included
                    else:
                        p.append(["arith", gen_rearr(rng, name, spec)])
                if rng.random() < 0.3:
                    p.append(["read"])
            programs[t] = p
        if n == 2 and rng.random() < 0.25:
            # operands built by the OTHER thread / task (or, if it has not got there yet, privately) used with the switch off
            src = rng.choice(sorted(slots))
            programs[rng.randrange(2)].append(["arith", gen_gated(rng, src, slots[src])])
        return self.finish(rng, mode, programs, {}, stream="neg_state", slots=slots)

    def gen_routes(self, rng):
        """every ENTRY route by which contents reach a histogram, under both values of the switch: the carriers of a histogram
        with negative contents are written inside the block that built it; they are read back (and the value routes fed with its
        contents) inside the block, inside a disabled block nested in it, and after it has been left -- normally, by an
        Exception, by a BaseException"""
        mode = rng.choice(["single", "single", "single", "single", "threads", "tasks"])
        n = 1 if mode == "single" else 2
        slots, programs = {}, {}
        forms = ["with", "with", "with", "stack", "stored", "gen", "adec"] + (["dec"] if mode != "tasks" else [])
        off_forms = ["with", "with", "stack", "adec:off"] + (["dec:off"] if mode != "tasks" else [])
        for t in range(n):
            name = f"t{t}r0"
            spec = slots[name] = gen_spec(rng)

            def R(**kw):
                return ["arith", gen_route(rng, name, spec, **kw)]
            if t == 1 and rng.random() < 0.5:
                # a bystander with the switch ON for itself: every route is accepted there, whatever the other context does
                p = [["set", True], mk_item(name, spec), ["read"]] + [R() for _ in range(rng.randint(2, 4))]
                if rng.random() < 0.5:
                    p += [blk(False, [R(src="neg"), ["read"]], False), R(src="neg")]
                programs[t] = p
                continue
            p = [["set", False]] if rng.random() < 0.3 else []
            if rng.random() < 0.15:
                p.append(R(src="neg"))                  # before any block was ever entered (operands built privately)
            body = [["read"]] if rng.random() < 0.3 else []
            body.append(mk_item(name, spec))
            body += [R() for _ in range(rng.randint(1, 2))]                                 # accepted inside
            if rng.random() < 0.6:
                # a disabled block nested in the enabled one: refused there, accepted again behind it
                inner = [R(src="neg") for _ in range(rng.randint(1, 2))] + ([["read"]] if rng.random() < 0.5 else [])
                body.append(blk(False, inner, pick_raise(rng) if rng.random() < 0.2 else False, rng.choice(off_forms)))
                if not body[-1][3]:
                    body.append(R(src="neg"))
            raises = pick_raise(rng) if rng.random() < 0.3 and not any(it[0] == "with" and it[3] for it in body) else False
            form = rng.choice(forms)
            if form == "stored":
                form = f"stored:{10 * t}"
            elif form == "gen":
                form = "gen:" + rng.choice(["next", "close", "throw"])
            elif form in ("dec", "adec"):
                form += ":on"
            block = blk(True, body, raises, form)
            if rng.random() < 0.15:
                block = blk(rng.random() < 0.5, [block, ["read"]], False)
            p += [block, ["read"]]
            routes = routes_for(spec)
            rng.shuffle(routes)
            for route in routes[:rng.randint(3, 5)]:                                        # outside: distinct routes
                p.append(R(route=route, src="neg" if rng.random() < 0.9 else "a"))
            if rng.random() < 0.12:
                p.append(R(route="e2_neg", src="neg"))                                      # recorded, not judged
            if rng.random() < 0.3:
                p += [blk(False, [R(src="neg"), ["read"]], False, rng.choice(off_forms)), R(src="neg")]
            if rng.random() < 0.25:
                p += [["set", True], R(src="neg"), ["set", False], R(src="neg")]
            if rng.random() < 0.3:
                p.append(["read"])
            programs[t] = p
        return self.finish(rng, mode, programs, {}, stream="routes", slots=slots)

    def finish(self, rng, mode, programs, parent_of, order=None, stream=None, slots=None):
        acts = {t: linearize_top(p) for t, p in programs.items()}
        if order is None:
            # a random interleaving that respects spawn order (and lets a generator be started before it is touched from outside)
            remaining = {t: len(a) for t, a in acts.items()}
            started = {t for t in programs if parent_of.get(t) is None}
            pos = {t: 0 for t in programs}
            to_open = {o["k"] for a in acts.values() for act in a for o in act if o.get("src") == "gen_open"}
            order = []
            while any(remaining[t] for t in remaining):
                cand = [t for t in started if remaining[t]]
                if not cand:
                    break
                if to_open:
                    free = [t for t in cand if not any(o.get("src") == "gen_close" and o["k"] in to_open for o in acts[t][pos[t]])]
                    cand = free or cand
                t = rng.choice(cand)
                a = acts[t][pos[t]]
                for o in a:
                    if o["op"] in ("spawn_task", "spawn_thread"):
                        started.add(o["child"])
                    if o.get("src") == "gen_open":
                        to_open.discard(o["k"])
                order.append(t)
                pos[t] += 1
                remaining[t] -= 1
        sched = []
        pos = {t: 0 for t in programs}
        for t in order:
            for o in acts[t][pos[t]]:
                e = {"t": t, "op": o["op"]}
                for key in ("v", "child", "form", "src", "k", "what"):
                    if key in o:
                        e[key] = o[key]
                sched.append(e)
            pos[t] += 1
        tags = ["mode:" + mode, f"threads:{len(programs)}"]
        if stream:
            tags.append("stream:" + stream)
        case = {"kind": "config", "mode": mode, "default": False,
                "programs": {str(t): p for t, p in programs.items()}, "parent_of": {str(k): v for k, v in parent_of.items()},
                "order": order, "sched": sched, "tags": tags}
        if slots:
            used = {it_how.get("mk", it_how.get("slot")) for p in programs.values() for it_how in _dict_hows(p)}
            case["slots"] = {k: v for k, v in slots.items() if k in used}
        return case

    def exhaustive_cases(self, tier):
        import random
        rng = random.Random(19)
        progs = [
            {0: [["with", True, [["read"], ["arith", "array"]], False], ["read"]], 1: [["read"], ["set", False], ["arith", "array"]]},
            {0: [["set", True], ["with", False, [["read"]], True], ["read"]], 1: [["with", True, [["read"]], False], ["read"]]},
        ]
        if tier == "thorough":
            progs.append({0: [["with", True, [["with", False, [["read"]], True]], False], ["read"]], 1: [["set", True], ["read"]],
                          2: [["read"], ["arith", "negative"]]})
        for p in progs:
            acts = {t: linearize_top(x) for t, x in p.items()}
            base = [t for t, a in acts.items() for _ in a]
            seen = set()
            for perm in itertools.permutations(base):
                if perm in seen:
                    continue
                seen.add(perm)
                if len(seen) > (400 if tier == "thorough" else 40):
                    break
                for mode in ("threads", "tasks"):
                    c = self.finish(rng, mode, copy.deepcopy(p), {}, order=list(perm))
                    c["tags"].append("exhaustive_interleavings")
                    yield c
        # environment default in a subprocess
        yield {"kind": "config", "mode": "env", "default": True, "programs": {"0": [["read"], ["arith", "array"], ["with", False, [["read"]], False], ["read"]]},
               "parent_of": {}, "order": [0] * 5,
               "sched": [{"t": 0, "op": "read"}, {"t": 0, "op": "arith"}, {"t": 0, "op": "enter", "v": False}, {"t": 0, "op": "read"},
                         {"t": 0, "op": "exit"}, {"t": 0, "op": "read"}], "tags": ["env_default"]}
        yield from self.exhaustive_forms(tier, rng)
        yield from self.exhaustive_neg_ops(tier, rng)
        yield from self.exhaustive_base_exits(tier, rng)
        yield from self.exhaustive_routes(tier, rng)

    def exhaustive_base_exits(self, tier, rng):
        """every exit that is not an Exception x every depth <= 3 x the level it is raised at x both ambient values (the
        values of the blocks alternate, starting opposite to the ambient one), forms rotating; then a read and a gated operation"""
        forms = ["with", "stack", "stored:0", "adec", "gen:next", "dec"]
        k = 0
        for kind in BASE_EXITS:
            for depth in (1, 2, 3):
                for raise_at in range(depth):
                    for amb in (False, True):
                        for mode in ("single", "tasks") if tier == "thorough" or depth < 3 else ("single",):
                            item = None
                            for i in reversed(range(depth)):
                                v = (not amb) if i % 2 == 0 else amb
                                k += 1
                                form = forms[k % len(forms)]
                                if form in ("adec", "dec"):
                                    form = ("adec:" if mode == "tasks" else form + ":") + ("on" if v else "off")
                                body = [["read"]] + ([item, ["read"]] if item is not None else [])
                                item = blk(v, body, "base:" + kind if raise_at == i else False, form)
                            p = {0: [["set", amb], item, ["read"], ["arith", "negative_factor"], ["arith", "array"]]}
                            c = self.finish(rng, mode, p, {}, stream="exc_depth")
                            c["tags"].append("exhaustive_base_exits")
                            yield c

    def exhaustive_routes(self, tier, rng):
        """every class x every entry route: accepted inside the block in which `neg` and its carriers are made, refused inside a
        disabled block nested in it, accepted behind that, refused after the block has been left"""
        import random
        forms = ["with", "stack", "stored:0", "gen:next", "adec:on", "dec:on"]
        k = 0
        for cls in ["h1", "h1f", "h2", "h3", "radial", "polar", "ad1", "ad2"]:
            for build in (["mul_m1", "arr_add", "ctor"] if tier == "thorough" else ["mul_m1", "arr_add"]):
                spec = gen_spec(random.Random(f"routex:{cls}:{build}"), cls, build)
                for route in routes_for(spec):
                    if build == "arr_add" and tier != "thorough" and len(spec["shape"]) == 1 and route not in ROUTES_1D_ONLY:
                        continue
                    how = {"slot": "s", "op": "route", "how": route, "src": "neg", "g": True}
                    k += 1
                    prog = {0: [blk(True, [mk_item("s", spec), ["arith", dict(how)], blk(False, [["arith", dict(how)], ["read"]], False),
                                           ["arith", dict(how)]], False, forms[k % len(forms)]),
                                ["read"], ["arith", dict(how)], ["read"]]}
                    c = self.finish(rng, "single", prog, {}, stream="routes", slots={"s": spec})
                    c["tags"].append("exhaustive_routes")
                    yield c

    def exhaustive_neg_ops(self, tier, rng):
        """every class x every content-writing operation that yields negative contents: accepted inside the block in which the
        operands are built, refused after the block has been left (one case each; thorough: three ways of building `neg`)"""
        import random
        templates = [{"op": "add", "terms": t, "how": h} for t, h in
                     [(["a", "neg", "neg"], "binary"), (["a", "neg", "neg"], "iadd"), (["a", "neg", "neg"], "sum"), (["a", "neg", "neg"], "coll"),
                      (["neg", "a", "neg"], "binary"), (["neg", "neg"], "iadd"), (["neg", "neg"], "sum"),
                      (["a", "oneg"], "binary"), (["a", "oneg"], "iadd"), (["a", "oneg"], "sum"), (["oneg", "a"], "binary"),
                      (["neg", "other"], "binary"), (["other", "neg"], "iadd")]]
        templates += [{"op": "sub", "x": x, "y": y, "how": h} for x, y, h in [("a", "a2", "binary"), ("a", "a2", "isub"), ("neg", "a", "binary")]]
        templates += [{"op": "mul", "x": x, "c": c, "how": h} for x, c, h in [("neg", 2, "mul"), ("neg", 2, "rmul"), ("neg", 3, "imul"), ("a", -1, "imul")]]
        templates += [{"op": "div", "x": "neg", "c": 2, "how": h} for h in ("div", "idiv")]
        templates += [{"op": "normalize", "x": "neg", "inplace": i, "percent": False} for i in (False, True)]
        templates += [{"op": "setter"}, {"op": "ctor"}]
        builds = ["mul_m1", "arr_add", "setter"] if tier == "thorough" else ["arr_add"]
        forms = ["with", "stack", "stored:0", "gen:next", "adec:on", "dec:on"]
        k = 0
        for cls in ["h1", "h1f", "h2", "h3", "radial", "polar", "ad1", "ad2"]:
            for build in builds:
                spec = gen_spec(random.Random(f"negx:{cls}:{build}"), cls, build)
                operands = spec_operands(spec)
                for tpl in templates:
                    if any(n in ("other", "oneg") for n in tpl.get("terms", [])) and cls not in NEG_ADAPTIVE:
                        continue
                    if tpl.get("how") == "coll" and cls not in NEG_CLASSES_1D:
                        continue
                    how = dict(tpl, slot="s")
                    if expect_negop(how, operands)["neg"] is not True:
                        continue
                    how["g"] = True
                    k += 1
                    prog = {0: [blk(True, [mk_item("s", spec), ["arith", dict(how)]], False, forms[k % len(forms)]), ["read"], ["arith", dict(how)]]}
                    c = self.finish(rng, "single", prog, {}, stream="neg_state", slots={"s": spec})
                    c["tags"].append("exhaustive_neg_ops")
                    yield c

    def exhaustive_forms(self, tier, rng):
        """small complete sub-spaces of the usage forms"""
        # (1) one context: every chain of decorated calls of depth <= 3 (f_on / f_off in every combination, so f -> f and
        #     f -> g -> f are there), both ambient values, no exception or an exception at each depth; stepped and atomic
        for depth in (1, 2, 3):
            for names in itertools.product(["on", "off"], repeat=depth):
                for amb in (False, True):
                    for raise_at in [None] + list(range(depth)):
                        for kind, mode in (("dec:", "single"), ("adec:", "tasks")):
                            if kind == "adec:" and tier != "thorough" and depth == 3:
                                continue
                            item = None
                            for i in reversed(range(depth)):
                                body = [["read"]] + ([item, ["read"]] if item is not None else [])
                                item = blk(names[i] == "on", body, raise_at == i, kind + names[i])
                            p = {0: [["set", amb], item, ["read"], ["arith", "negative_factor"]]}
                            c = self.finish(rng, mode, p, {}, stream="decorator")
                            c["tags"].append("exhaustive_decorator_chains")
                            yield c
        # (2) two contexts with different values inside the same shared object, every interleaving (all entry and exit
        #     orders): the decorated function from two threads; a stored manager tried by the other thread / task; a generator
        #     block touched by the other thread / task
        pairs = []
        for name in (("on",) if tier != "thorough" else ("on", "off")):
            v = name == "on"
            for a0, a1 in ((not v, v),) if tier != "thorough" else ((not v, v), (v, not v)):
                pairs.append(("threads", {0: [["set", a0], blk(v, [["read"]], False, "dec:" + name), ["read"]],
                                          1: [["set", a1], blk(v, [["read"]], tier == "thorough" and a1, "dec:" + name), ["read"]]},
                              "exhaustive_decorator_threads"))
        for mode in ("threads", "tasks"):
            pairs.append((mode, {0: [["set", False], blk(True, [["read"]], False, "stored:0"), ["read"]],
                                 1: [["set", True], ["reenter", 0], ["arith", "array"]]}, "exhaustive_stored_shared"))
            for how in ("next", "close", "throw"):
                pairs.append((mode, {0: [["set", False], ["gen_open", 0, True], ["read"]],
                                     1: [["set", True], ["gen_close", 0, how], ["arith", "array"]]}, "exhaustive_generator_foreign"))
            pairs.append((mode, {0: [["set", True], blk(False, [["read"]], False, "gen:close"), ["read"]],
                                 1: [["set", False], blk(True, [["read"]], True, "gen:next"), ["arith", "array"]]},
                          "exhaustive_generator_own"))
        for mode, p, tag in pairs:
            acts = {t: linearize_top(x) for t, x in p.items()}
            n0, n1 = len(acts[0]) - 1, len(acts[1]) - 1
            for inter in interleavings(n0, n1):
                c = self.finish(rng, mode, copy.deepcopy(p), {}, order=[0, 1] + inter,
                                stream={"exhaustive_decorator_threads": "decorator", "exhaustive_stored_shared": "stored_cm"}.get(tag, "generator"))
                c["tags"].append(tag)
                yield c

    # ------------------------------------------------------------------ run
    def run_impl(self, case):
        programs = {int(t): p for t, p in case["programs"].items()}
        parent_of = {int(k): v for k, v in case["parent_of"].items()}
        if case["mode"] == "env":
            env = dict(os.environ, PHYST_FREE_ARITHMETICS="1")
            verif = os.path.dirname(os.path.dirname(os.path.dirname(os.path.abspath(__file__))))
            p = subprocess.run([sys.executable, "-c", ENV_SCRIPT % verif, json.dumps(programs[0])], env=env,
                               capture_output=True, text=True, timeout=120)
            if p.returncode != 0:
                raise RuntimeError("env subprocess failed: " + p.stderr[-800:])
            return {"outs": [{"t": 0, "obs": o} for o in json.loads(p.stdout.strip().splitlines()[-1])], "solo": {}, "log": []}
        runner = run_tasks if case["mode"] == "tasks" else run_threads
        env = make_env(case.get("slots"))
        obs = runner(programs, case["order"], parent_of, env)
        outs = [{"t": t, "obs": o} for t, o in obs]
        solo = {}
        log = list(env["log"])
        for t, p in programs.items():
            if parent_of.get(t) is None and not any(it[0] == "spawn" for it in p):
                senv = make_env(case.get("slots"))
                so = run_threads({t: p}, [t] * len(linearize_top(p)), {}, senv)
                solo[str(t)] = [o for _, o in so]
                log += [["solo"] + x for x in senv["log"] if x[0] == "unexpected"]
        return {"outs": outs, "solo": solo, "log": log, "probes": env["probes"]}

    def model_case(self, case, io):
        # `free` steps (operations on kept operands that produce no negative contents) are not operations of the model's machine:
        # they are left out on both sides; the gated ones are its `arith` (accepted iff the context's value is true)
        return {"kind": "config", "default": case["default"], "sched": [e for e in case["sched"] if e["op"] != "free"]}

    def diff(self, case, model_ok, io):
        outs = io["outs"]
        if len(outs) == len(case["sched"]):
            outs = [o for e, o in zip(case["sched"], outs) if e["op"] != "free"]
        return diff_outputs(model_ok, outs, None, None)

    # ------------------------------------------------------------------ oracle
    def oracle(self, case, io):
        fails = []
        outs = io["outs"]
        sched = case["sched"]
        for x in io.get("log", []):
            if "unexpected" in x[:2]:
                fails.append(f"unexpected_exception: a use of the manager that the unchanged library supports raised in thread {x[-2]}: {x[-1]}")
        if len(outs) != len(sched):
            return (fails + [f"trace_shape: {len(outs)} observations for {len(sched)} scheduled operations"])[:6]
        # isolation: what a thread observes equals what it observes alone
        for t, so in io["solo"].items():
            mine = [o["obs"] for o in outs if o["t"] == int(t)]
            if mine != so:
                k = next((i for i, (a, b) in enumerate(zip(mine, so)) if a != b), min(len(mine), len(so)))
                fails.append(f"not_isolated: thread {t} observes {mine[k] if k < len(mine) else None} at its step {k} under the schedule "
                             f"but {so[k] if k < len(so) else None} when run alone")
        # restore + gate: well-bracketed scoping on each context's own operations, walked in schedule order
        #   known[t] = the value in force in context t as far as the property pins it (None = not pinned)
        parent_of = {int(k): v for k, v in case["parent_of"].items()}
        known, stack = {}, {}
        for t in {e["t"] for e in sched}:
            # a thread, and a task started from the unconfigured main context, start with the environment default
            known[t] = case["default"] if parent_of.get(t) is None else None
            stack[t] = []
        opener = {}
        for e, out in zip(sched, outs):
            t, o, op = e["t"], out["obs"], e["op"]
            what = {"reenter": " (after trying to enter a stored manager again)", "gen_close": " (after touching another context's generator)",
                    }.get(e.get("src"), "")
            if op == "read":
                if e.get("src") == "gen_close" and e["k"] in opener and opener[e["k"]] != t:
                    # the opener's block was torn down from outside: what it reads from now on is not pinned
                    known[opener[e["k"]]] = None
                    stack[opener[e["k"]]] = [None] * len(stack[opener[e["k"]]])
                if not isinstance(o, dict) or "value" not in o:
                    fails.append(f"trace_shape: thread {t}: a read observed {o}")
                    continue
                if known[t] is not None and o["value"] != known[t]:
                    fails.append(f"not_restored: thread {t} reads {o['value']} where {known[t]} was in force{what}")
                known[t] = o["value"]
            elif op == "set":
                known[t] = e["v"]
            elif op == "enter":
                stack[t].append(known[t])
                known[t] = e["v"]
                if e.get("src") == "gen_open":
                    opener[e["k"]] = t
            elif op == "exit":
                known[t] = stack[t].pop() if stack[t] else None
            elif op in ("arith", "free"):
                if not isinstance(o, dict) or "accepted" not in o:
                    fails.append(f"trace_shape: thread {t}: an operation observed {o}")
                    continue
                gated = op == "arith"
                if isinstance(o.get("_d"), dict) and "how" in o["_d"]:
                    gated = self.negop_clauses(t, o, known[t], gated, fails)
                if gated and known[t] is not None and o["accepted"] != known[t]:
                    fails.append(f"gate: thread {t}: operand accepted={o['accepted']} while free_arithmetics is {known[t]}"
                                 + (f" ({e['what']})" if "what" in e else ""))
            elif op == "spawn_task":
                known[e["child"]] = known[t]
                stack[e["child"]] = []
            elif op == "spawn_thread":
                known[e["child"]] = case["default"]
                stack[e["child"]] = []
        # a stored manager that lets itself be entered again is a block like any other
        for p in io.get("probes", []):
            if p["entered"] and p["inside"] != p["v"]:
                fails.append(f"reentry_inside: thread {p['t']}: inside the re-entered stored manager (value {p['v']}) the switch reads {p['inside']}")
        if case["mode"] == "env":
            if outs and outs[0]["obs"] != {"value": True}:
                fails.append("env_default: PHYST_FREE_ARITHMETICS=1 is not the default")
        return fails[:6]

    def negop_clauses(self, t, o, known, gated, fails):
        """an operation on operands with negative contents built earlier, while the switch was on.  Returns whether the general
        gate clause (accepted iff the switch is on) applies to the step: it does when the contents the implementation reported
        for the operands make the (partial) result negative."""
        d = o["_d"]
        how = d["how"]
        opname = how["op"]
        text = f"{d['cls']}: {describe_negop(how)}"
        ops = snap_operands(d["before"])

        def nums(snap):
            return "[" + ", ".join(snap["f"]) + "]"
        # operands are values: no operation may change them (in-place forms work on a copy made by the harness)
        for k in sorted(d["before"]):
            if d["after"].get(k) != d["before"][k]:
                fails.append(f"operand_changed: thread {t}: `{text}` changed its operand `{k}`: contents {nums(d['before'][k])} -> "
                             f"{nums(d['after'][k])}, errors2 [{', '.join(d['before'][k]['e2'])}] -> [{', '.join(d['after'][k]['e2'])}]")
        ex = expect_negop(how, ops)
        if "flag_before" in d and d["flag_before"] != d["flag"]:
            fails.append(f"switch_changed: thread {t}: config.free_arithmetics read {d['flag_before']} before `{text}` and "
                         f"{d['flag']} after it ({'accepted' if o['accepted'] else 'refused'})")
        if known is not None and "flag_before" in d and d["flag_before"] != known:
            fails.append(f"not_restored: thread {t}: config.free_arithmetics reads {d['flag_before']} just before `{text}` "
                         f"where {known} was in force")
        if not any(v < 0 for v in ops["neg"]["f"]):
            return False            # (the operand carries no negative content: nothing of this class to judge)
        res = d.get("result")
        if known is False and o["accepted"] and opname in GATED_NEGOPS and res is not None and any(fr(v) < 0 for v in res["f"]):
            fails.append(f"accepted_invalid: thread {t}: `{text}` was accepted OUTSIDE any free-arithmetics context "
                         f"(config.free_arithmetics reads {d['flag']}) and produced negative contents {nums(res)}; "
                         f"a = {nums(d['before']['a'])}, neg = {nums(d['before']['neg'])} (built while the switch was on)"
                         + (f", other = {nums(d['before']['other'])} at offset {ops['other']['lo']}" if "other" in d["before"] and
                            any(n in ("other", "oneg") for n in how.get("terms", [])) else ""))
        elif known is False and o["accepted"] and opname == "add" and ex["neg"] is True and how["how"] != "coll":
            fails.append(f"accepted_invalid: thread {t}: `{text}` was accepted OUTSIDE any free-arithmetics context "
                         f"(config.free_arithmetics reads {d['flag']}) although the sum of its first terms, itself the result of an "
                         f"addition, has negative contents [{', '.join(ex['partial'])}]; a = {nums(d['before']['a'])}, "
                         f"neg = {nums(d['before']['neg'])} (built while the switch was on); the result is {nums(res) if res else None}")
        if known is True and not o["accepted"] and opname in REARR_NEGOPS:
            fails.append(f"gate: thread {t}: `{text}` of a histogram with negative contents {nums(d['before']['neg'])} refused "
                         f"({d.get('refusal')}) while free_arithmetics is True")
        if not o["accepted"] and "target" in d and ex["keep"] is not None:
            got = op_cells(snap_operands({"a": d["before"]["a"], "x": d["target"]})["x"])
            if got != ex["keep"]:
                fails.append(f"refused_but_changed: thread {t}: `{text}` was refused ({d.get('refusal')}) but its target x now holds "
                             f"{nums(d['target'])} instead of [{', '.join(fs(v) for v in ex['keep'].values())}]")
        return ex["neg"] is True and opname in GATED_NEGOPS

    def nontrivial(self, case, io):
        if any(e.get("what") not in (None, "mk") and e["op"] == "arith" and isinstance(o["obs"], dict) and o["obs"].get("accepted") is False
               for e, o in zip(case["sched"], io["outs"])):
            return True     # an operation on negative contents (built while the switch was on) refused where it is off
        vals = {}
        for e, o in zip(case["sched"], io["outs"]):
            if e["op"] == "read" and isinstance(o["obs"], dict) and "value" in o["obs"]:
                vals.setdefault(e["t"], set()).add(o["obs"]["value"])
        return len(vals) >= 2 and len(set().union(*vals.values())) == 2 if vals else False

    def tags(self, case, io):
        out = list(case.get("tags", [])) + [f"op:{e['op']}" for e in case["sched"]]
        out += sorted({"form:" + e["form"].split(":")[0] for e in case["sched"] if "form" in e})
        out += sorted({"form:" + e["src"] for e in case["sched"] if "src" in e})
        if any(e.get("raised") for e in case["sched"]):
            out.append("exception_leaves_block")
        for t, p in case["programs"].items():
            for r in raises_of(p):
                out.append("exit:" + (r if isinstance(r, str) else "Boom").split(":")[0])
                if isinstance(r, str) and r.startswith("base:"):
                    out.append("exit:" + r)
        for p in io.get("probes", []) if isinstance(io, dict) else []:
            out.append("reentry:" + ("entered" if p["entered"] else "refused"))
        if case.get("slots"):
            out += sorted({"negcls:" + v["cls"] for v in case["slots"].values()} | {"negbuild:" + v["build"] for v in case["slots"].values()})
            for e, o in zip(case["sched"], io.get("outs", []) if isinstance(io, dict) else []):
                d = o["obs"].get("_d") if isinstance(o["obs"], dict) else None
                if not d or "how" not in d:
                    continue
                kind = "rearr" if d["how"]["op"] in REARR_NEGOPS else ("negop" if e["op"] == "arith" else "negop_valid_result")
                if d["how"].get("how") in ROUTES_UNPINNED:
                    kind = "unpinned"
                out.append(f"{kind}:{e['what']}:switch_{'on' if d['flag'] else 'off'}:{'accepted' if o['obs']['accepted'] else 'refused'}")
        return out

    def matches_known(self, finding, case):
        return True

    def rebuilt(self, case, programs, seed=1):
        import random
        parent_of = {int(k): v for k, v in case["parent_of"].items()}
        stream = next((t[7:] for t in case.get("tags", []) if t.startswith("stream:")), None)
        return self.finish(random.Random(seed), case["mode"], programs, parent_of, stream=stream, slots=case.get("slots"))

    def neighbours(self, case):
        # the same programs under other interleavings
        if case["mode"] == "env":
            return
        programs = {int(t): p for t, p in case["programs"].items()}
        for s in range(2, 8):
            yield self.rebuilt(case, copy.deepcopy(programs), seed=s)
        if case.get("slots"):
            # the same histories with every operation on kept operands replaced by another one that produces negative contents
            import random
            for s in range(6):
                rng = random.Random(f"negnb:{s}")
                q = copy.deepcopy(programs)
                for p in q.values():
                    for how in _dict_hows(p):
                        if "slot" in how and how["slot"] in case["slots"]:
                            new = gen_gated(rng, how["slot"], case["slots"][how["slot"]])
                            how.clear()
                            how.update(new)
                yield self.rebuilt(case, q, seed=s + 2)

    def shrink_candidates(self, case):
        # every candidate is strictly smaller than the case (a candidate equal to it would keep the shrinker busy for its whole budget)
        same = json.dumps(case["programs"], sort_keys=True)

        def unbuilt(c):
            """slots used by a context that never builds them (the harness then builds them privately)"""
            out = set()
            for t, p in c["programs"].items():
                hows = list(_dict_hows(p))
                out |= {(t, h["slot"]) for h in hows if "slot" in h} - {(t, h["mk"]) for h in hows if "mk" in h}
            return out
        allowed = unbuilt(case)
        for c in self._shrink_candidates(case):
            if json.dumps(c["programs"], sort_keys=True) != same and unbuilt(c) <= allowed:
                # (a smaller case keeps the step -- and so the block -- in which the operands of a used slot are built)
                yield c
        if case.get("slots"):
            yield from self._shrink_slots(case)

    def _shrink_slots(self, case):
        """smaller operands: a plain 1-D integer histogram, `neg = a * (-1)`, fewer terms"""
        programs = {int(t): p for t, p in case["programs"].items()}
        for name, spec in case["slots"].items():
            uses = [h for p in programs.values() for h in _dict_hows(p) if h.get("slot") == name]
            simple = [{"cls": "h1", "shape": [2], "freq": [1, 2], "build": "mul_m1"}]
            if spec["build"] != "mul_m1" and spec["build"] in GATED_BUILDS:
                simple.append({k: v for k, v in spec.items() if k not in ("arr", "k")} | {"build": "mul_m1"})
            for new in simple:
                if new == spec or any(n in ("other", "oneg") for h in uses for n in h.get("terms", [])) and new["cls"] not in NEG_ADAPTIVE:
                    continue
                if any(h["op"] in ("projection", "transpose", "fill_neg") or h.get("axis") for h in uses) and new["shape"] != spec["shape"]:
                    continue
                operands = spec_operands(new)
                if any((expect_negop(h, operands)["neg"] is True) != bool(h.get("g")) for h in uses):
                    continue        # the operations would no longer be what the schedule says they are
                c = self.rebuilt(case, copy.deepcopy(programs))
                c["slots"] = dict(c.get("slots", {}), **{name: new})
                for p in c["programs"].values():
                    for h in _dict_hows(p):
                        if h.get("mk") == name:
                            h["g"] = mk_item(name, new)[1]["g"]
                c2 = self.rebuilt(c, {int(t): p for t, p in c["programs"].items()})
                c2["slots"] = c["slots"]
                yield c2

    def _shrink_candidates(self, case):
        if case["mode"] == "env":
            return
        programs = {int(t): p for t, p in case["programs"].items()}
        parent_of = {int(k): v for k, v in case["parent_of"].items()}
        # drop a whole thread / task that nobody spawned and that spawns nobody
        if len(programs) > 1:
            for t in sorted(programs, reverse=True):
                if t in parent_of or t in parent_of.values() or any(it[0] == "spawn" for it in programs[t]):
                    continue
                q = {u: copy.deepcopy(p) for u, p in programs.items() if u != t}
                if 0 not in q:
                    continue
                yield self.rebuilt(case, q)
        # drop a whole top-level item of one program and rebuild with a fresh order
        for t, p in programs.items():
            for i in range(len(p)):
                if p[i][0] == "spawn":
                    continue
                q = copy.deepcopy(programs)
                del q[t][i]
                if not q[t]:
                    q[t] = [["read"]]
                yield self.rebuilt(case, q)
        # inside the blocks: drop an item of a body, take the exception away, turn the form into a plain with statement
        def paths(items, pre=()):
            for i, it in enumerate(items):
                if it[0] == "with":
                    yield pre + (i,)
                    yield from paths(it[2], pre + (i,))

        def at(items, path):
            it = items[path[0]]
            for i in path[1:]:
                it = it[2][i]
            return it

        for t, p in programs.items():
            for path in list(paths(p)):
                b = at(p, path)
                for j in range(len(b[2])):
                    q = copy.deepcopy(programs)
                    bb = at(q[t], path)
                    del bb[2][j]
                    if not bb[2]:
                        bb[2].append(["read"])
                    yield self.rebuilt(case, q)
                if b[3]:
                    q = copy.deepcopy(programs)
                    at(q[t], path)[3] = False
                    yield self.rebuilt(case, q)
                if form_of(b) != "with":
                    q = copy.deepcopy(programs)
                    bb = at(q[t], path)
                    del bb[4:]
                    yield self.rebuilt(case, q)


PROP = C19()

"""Base for properties checked on the 1-D op language."""
from __future__ import annotations

import copy
from fractions import Fraction

from .. import impl1
from ..runner import diff_outputs


class Hist1Prop:
    ID = "C00"
    N_QUICK = 300
    N_THOROUGH = 5000
    N_SEARCH = 600
    RULE = ""
    FIELDS = None          # snapshot keys compared between model and implementation (None = all)
    RTOL = None            # None = bit-exact
    ASSUMPTIONS: list = []
    UNOBSERVED = True      # run every 1-D history a second time without reading intermediate states

    def run_impl(self, case):
        if case.get("kind") == "histn":
            from .. import implnd
            outs, log = implnd.run(case)
            if self.UNOBSERVED and len(case["ops"]) >= 2 and all(isinstance(o, dict) for o in outs):
                return {"outs": outs, "log": log, "unobserved_outs": outs[:-1] + [implnd.run_unobserved(case)]}
        else:
            outs, log = impl1.run(case)
            if self.UNOBSERVED and len(case["ops"]) >= 2 and all(isinstance(o, dict) for o in outs):
                # second run without intermediate reads: the oracles see its final state too (runner.oracle_of)
                return {"outs": outs, "log": log, "unobserved_outs": outs[:-1] + [impl1.run_unobserved(case)]}
        return {"outs": outs, "log": log}

    def model_case(self, case, io):
        return case

    def diff(self, case, model_ok, io):
        rtol = self.RTOL if not case.get("tolerance") else getattr(self, "TOL", Fraction(1, 10**11))
        if rtol is not None:
            # rounding of a narrow float type anywhere in the history propagates into later results
            import json as _json
            blob = _json.dumps(case["ops"]) + _json.dumps([r.get("dtype") for o in io["outs"] for r in o["regs"] if r])
            if "float16" in blob:
                rtol = max(rtol, Fraction(1, 50))
            elif "float32" in blob:
                rtol = max(rtol, Fraction(1, 10**5))
        keep = self.fields_for(case)
        return diff_outputs(model_ok, io["outs"], keep, rtol)

    DTYPE_LIMITS = {"int16": 2**15 - 1, "int32": 2**31 - 1, "int64": 2**63 - 1, "float16": 65504,
                    "float32": Fraction(340282346638528859811704183484516925440)}

    def beyond_model(self, case, model_ok, io):
        """True when, according to the exact model, some stored content / squared error / missed count exceeds the range
        of the dtype it is stored in (numpy then wraps around or overflows to inf)."""
        if not isinstance(model_ok, list):
            return False
        for o in model_ok:
            if not isinstance(o, dict):
                continue
            for r in o.get("regs") or []:
                if not isinstance(r, dict):
                    continue
                lim = self.DTYPE_LIMITS.get(r.get("dtype"))
                if lim is None:
                    continue
                vals = list(r.get("freq") or []) + list(r.get("err2") or []) + [r.get(k) for k in ("under", "over", "inner", "missed")]
                for x in vals:
                    if isinstance(x, str) and "/" not in x and x.lstrip("-").isdigit():
                        if abs(int(x)) > lim:
                            return True
                    elif isinstance(x, str):
                        try:
                            if abs(Fraction(x)) > lim:
                                return True
                        except (ValueError, ZeroDivisionError):
                            pass
        return False

    def fields_for(self, case):
        return self.FIELDS

    def tags(self, case, io):
        t = [f"op:{o['op']}" for o in case["ops"]]
        t += [f"ret:{o['ret']}" for o in io["outs"] if isinstance(o["ret"], str)]
        t += list(case.get("tags", []))
        return t

    def nontrivial(self, case, io):
        return True

    def oracle(self, case, io):
        return []

    def matches_known(self, finding, case):
        return True

    def neighbours(self, case):
        return []

    def shrink_candidates(self, case):
        """drop ops from the end / middle (keeping the first), drop data points"""
        ops = case["ops"]
        for k in range(len(ops) - 1, 0, -1):
            c = copy.deepcopy(case)
            del c["ops"][k]
            yield c
        for k, op in enumerate(ops):
            for key, wkey in (("data", "weights"), ("vs", "ws")):
                if key in op and len(op[key]) > 0 and not op.get("shape"):
                    for j in range(len(op[key])):
                        c = copy.deepcopy(case)
                        del c["ops"][k][key][j]
                        if c["ops"][k].get(wkey) is not None and len(c["ops"][k][wkey]) > j:
                            del c["ops"][k][wkey][j]
                        yield c

"""C20 — plots show exactly the histogram's data and never modify it."""
from __future__ import annotations

import contextlib
import copy
import io as _io
import math
import os
import warnings
from fractions import Fraction

import numpy as np

os.environ.setdefault("MPLBACKEND", "Agg")
warnings.simplefilter("ignore")

from .. import gen1, impl1, implnd
from ..core import nrs, rs
from .c09 import rand_nd_op
from .c10 import rand_hist_op


def fr(x):
    return Fraction(float(x))


def close(a, b, tol=1e-9):
    a, b = float(a), float(b)
    return abs(a - b) <= tol * max(abs(a), abs(b), 1e-12) + 1e-12


class C20:
    ID = "C20"
    N_QUICK = 150
    N_THOROUGH = 2500
    N_SEARCH = 150
    RULE = ("1-D histograms (irregular / gapped bins, zeros, int and float contents, custom errors, name / title / axis name) x "
            "matplotlib bar / step / line / scatter / fill with density / cumulative / errors / show_values / explicit title and "
            "labels, plotly bar / line / scatter, ASCII hbar (show_values); 2-D histograms x matplotlib map (show_zero, "
            "show_values, density) and image (regular bins), plotly map; wrong dimension, unknown kind / backend; the time-tick "
            "helper on ranges with negative / non-multiple limits for sec / min / hour units and edge / centre levels. Marks are "
            "read back from the artists (patches, lines, collections, images, texts, title, labels), traces and captured stdout; "
            "the histogram is snapshotted before and after. non-trivial = non-zero contents; distinct = case hash")
    EXTRA_TRUST = ["matplotlib / plotly rendering, colour-map tables and layout are outside the model"]
    ASSUMPTIONS = ["plot functions are pure in the model: 'plotting never modifies the histogram' is checked by snapshots only"]

    def gen_case(self, rng, k, tier):
        kind = rng.choice(["mpl1", "mpl1", "mpl1", "plotly1", "ascii", "mpl2", "mpl2", "ticks", "refuse"])
        if kind in ("mpl1", "plotly1", "ascii", "refuse"):
            pairs, t = gen1.rising_bins(rng)
            init = rand_hist_op(rng, pairs)
            init["keep"] = True
            if kind == "ascii" and all(x == "0" for x in init["freq"]):
                init["freq"][0] = "3"
            if rng.random() < 0.5:
                init["dtype"] = "float64"
            opt = {"plot": rng.choice(["bar", "step", "line", "scatter", "fill"]) if kind == "mpl1" else rng.choice(["bar", "line", "scatter"]),
                   "density": rng.random() < 0.3, "cumulative": False, "errors": rng.random() < 0.4, "show_values": rng.random() < 0.3,
                   "name": rng.choice([None, "hname"]), "title": rng.choice([None, "The title"]), "axis_name": rng.choice([None, "energy"]),
                   "title_arg": rng.choice([None, None, "override"]), "xlabel_arg": rng.choice([None, None, "xl"]),
                   "width": rng.choice([10, 40, 80]), "bad": rng.choice(["map", "image", "nokind", "nobackend", "bar3d"])}
            if not opt["density"] and rng.random() < 0.3:
                opt["cumulative"] = True
                opt["errors"] = False
            if t["gapped"] and opt["plot"] == "step":
                opt["plot"] = "bar"
            return {"kind": kind, "init": init, "opt": opt, "tags": [kind, "plot:" + opt["plot"]]}
        if kind == "mpl2":
            init, axes = rand_nd_op(rng, d=2, names=True)
            opt = {"plot": rng.choice(["map", "map", "image", "plotly_map"]), "density": rng.random() < 0.3, "show_zero": rng.random() < 0.6,
                   "show_values": rng.random() < 0.4, "bad": rng.choice(["bar", "line", "step", "hbar"])}
            if opt["plot"] == "image":
                w1, w2 = rng.choice([1.0, 0.5]), rng.choice([1.0, 2.0])
                n1, n2 = rng.randint(1, 4), rng.randint(1, 3)
                init["axes"] = [gen1.binning_json([[i * w1, (i + 1) * w1] for i in range(n1)], form="static_obj"),
                                gen1.binning_json([[i * w2 - 1, (i + 1) * w2 - 1] for i in range(n2)], form="static_obj")]
                init["freq"] = [rs(rng.randint(0, 9)) for _ in range(n1 * n2)]
                init["err2"] = None
            return {"kind": "mpl2", "init": init, "opt": opt, "tags": ["mpl2", "plot:" + opt["plot"]]}
        unit = rng.choice([("sec", 1), ("sec", 5), ("sec", 0.5), ("min", 1), ("min", 15), ("hour", 1), ("hour", 6)])
        w = unit[1] * {"sec": 1, "min": 60, "hour": 3600}[unit[0]]
        lo = rng.choice([-2.5, -1.0, 0.0, 0.5, 1.0, 3.0]) * w + rng.choice([0, 0, 0.25 * w, -0.5 * w])
        hi = lo + rng.choice([1.0, 2.5, 4.0, 7.25]) * w
        return {"kind": "ticks", "unit": list(unit), "lo": lo, "hi": hi, "level": rng.choice(["unit", "unit", "edge", "center"]),
                "tags": ["ticks", "unit:" + unit[0]]}

    # ------------------------------------------------------------------
    def run_impl(self, case):
        import matplotlib
        matplotlib.use("Agg")
        import matplotlib.pyplot as plt
        from physt.plotting.common import TimeTickHandler
        log = []
        if case["kind"] == "ticks":
            from physt import h1
            e = np.linspace(case["lo"], case["hi"], 5)
            h = h1(None, e)
            lvl = {"unit": (case["unit"][0], case["unit"][1]), "edge": "edge", "center": "center"}[case["level"]]
            th = TimeTickHandler(lvl)
            ticks, labels = th(h, case["lo"], case["hi"])
            return {"outs": {"ticks": [nrs(t) for t in ticks], "labels": list(labels), "edges": [nrs(x) for x in e]}, "log": log}
        opt = case["opt"]
        if case["kind"] == "mpl2":
            st = implnd.Store(); implnd.step(st, case["init"], log); h = st.get(0)
            snap = implnd.snapn
        else:
            st = impl1.Store(); impl1.step(st, case["init"], log); h = st.get(0)
            snap = impl1.snap1
            if opt["name"]:
                h.name = opt["name"]
            if opt["title"]:
                h.title = opt["title"]
            if opt["axis_name"]:
                h.axis_name = opt["axis_name"]
        before = snap(h)
        meta_before = dict(h.meta_data)
        out = {"refused": {}}
        try:
            if case["kind"] == "mpl1":
                kw = {"density": opt["density"], "cumulative": opt["cumulative"]}
                if opt["plot"] in ("bar", "line", "scatter") and opt["errors"]:
                    kw["errors"] = True
                if opt["plot"] != "fill" and opt["show_values"]:
                    kw["show_values"] = True
                if opt["title_arg"]:
                    kw["title"] = opt["title_arg"]
                if opt["xlabel_arg"]:
                    kw["xlabel"] = opt["xlabel_arg"]
                ax = h.plot(opt["plot"], backend="matplotlib", **kw)
                out["title"] = ax.get_title(); out["xlabel"] = ax.get_xlabel()
                out["patches"] = [[nrs(p.get_x()), nrs(p.get_width()), nrs(p.get_height())] for p in ax.patches]
                out["lines"] = [[[nrs(x) for x in l.get_xdata()], [nrs(y) for y in l.get_ydata()]] for l in ax.lines]
                out["offsets"] = [[[nrs(a), nrs(b)] for a, b in c.get_offsets()] for c in ax.collections if hasattr(c, "get_offsets") and len(c.get_offsets())]
                segs = []
                for c in ax.collections:
                    if hasattr(c, "get_segments"):
                        segs += [[[nrs(a), nrs(b)] for a, b in s] for s in c.get_segments()]
                out["segments"] = segs
                polys = []
                for c in ax.collections:
                    if type(c).__name__ in ("PolyCollection", "FillBetweenPolyCollection"):
                        polys += [[[nrs(a), nrs(b)] for a, b in p.vertices] for p in c.get_paths()]
                out["polys"] = polys
                out["texts"] = [[nrs(t.get_position()[0]), nrs(t.get_position()[1]), t.get_text()] for t in ax.texts]
                plt.close("all")
            elif case["kind"] == "plotly1":
                fig = h.plot(opt["plot"], backend="plotly", density=opt["density"], cumulative=opt["cumulative"])
                tr = fig.data[0]
                out["trace"] = {"type": tr.type, "x": [nrs(x) for x in tr.x], "y": [nrs(y) for y in tr.y],
                                "width": [nrs(w) for w in tr.width] if getattr(tr, "width", None) is not None else None,
                                "mode": getattr(tr, "mode", None), "name": tr.name}
            elif case["kind"] == "ascii":
                buf = _io.StringIO()
                with contextlib.redirect_stdout(buf):
                    h.plot("hbar", backend="ascii", width=opt["width"], show_values=opt["show_values"])
                out["stdout"] = buf.getvalue().splitlines()
            elif case["kind"] == "mpl2":
                if opt["plot"] == "plotly_map":
                    fig = h.plot("map", backend="plotly")
                    tr = fig.data[0]
                    out["heatmap"] = {"x": [nrs(v) for v in tr.x] if tr.x is not None else None, "y": [nrs(v) for v in tr.y] if tr.y is not None else None, "z": [[nrs(v) for v in row] for row in tr.z]}
                elif opt["plot"] == "map":
                    ax = h.plot("map", backend="matplotlib", density=opt["density"], show_zero=opt["show_zero"], show_values=opt["show_values"],
                                show_colorbar=False)
                    out["rects"] = [[nrs(p.get_x()), nrs(p.get_y()), nrs(p.get_width()), nrs(p.get_height()), [float(c) for c in p.get_facecolor()]]
                                    for p in ax.patches]
                    out["texts"] = [[nrs(t.get_position()[0]), nrs(t.get_position()[1]), t.get_text()] for t in ax.texts]
                    out["title"] = ax.get_title(); out["xlabel"] = ax.get_xlabel(); out["ylabel"] = ax.get_ylabel()
                    plt.close("all")
                else:
                    ax = h.plot("image", backend="matplotlib", density=opt["density"], show_colorbar=False)
                    im = ax.images[0]
                    out["image"] = {"extent": [nrs(x) for x in im.get_extent()], "array": [[nrs(v) for v in row] for row in np.asarray(im.get_array())]}
                    out["xlabel"] = ax.get_xlabel(); out["ylabel"] = ax.get_ylabel()
                    plt.close("all")
            elif case["kind"] == "refuse":
                pass
        except Exception as e:
            out["plot_error"] = f"{type(e).__name__}: {e}"[:200]
            plt.close("all")
        # refusals: wrong dimension, unknown kind / backend
        bad = opt["bad"]
        try:
            if bad == "nobackend":
                h.plot("bar", backend="no_such_backend")
            elif bad == "nokind":
                h.plot("no_such_kind", backend="matplotlib")
            elif bad == "hbar":
                with contextlib.redirect_stdout(_io.StringIO()):
                    h.plot("hbar", backend="ascii")
            else:
                h.plot(bad, backend="matplotlib")
            out["refused"][bad] = "accepted"
            plt.close("all")
        except Exception as e:
            out["refused"][bad] = "REFUSED"
            plt.close("all")
        after = snap(h)
        out["unchanged"] = before == after and meta_before == dict(h.meta_data)
        if not out["unchanged"]:
            out["changed_fields"] = [k for k in before if before[k] != after[k]]
        out["snap"] = before
        out["sizes"] = [nrs(x) for x in np.asarray(h.bin_sizes).ravel()]
        out["title_meta"] = h.title; out["axis_names"] = [str(a) for a in h.axis_names]
        return {"outs": out, "log": log}

    # ------------------------------------------------------------------ model
    def model_case(self, case, io):
        o = io["outs"]
        if case["kind"] == "ticks":
            if case["level"] != "unit":
                return None
            w = case["unit"][1] * {"sec": 1, "min": 60, "hour": 3600}[case["unit"][0]]
            return {"kind": "plot", "what": "ticks", "lo": rs(case["lo"]), "hi": rs(case["hi"]), "w": rs(w)}
        if "plot_error" in o:
            return None
        if case["kind"] in ("mpl1", "plotly1"):
            s = o["snap"]
            if any(x in (None, "inf", "-inf") for x in s["freq"] + s["err2"]):
                return None
            return {"kind": "plot", "what": "marks1d", "bins": s["bins"], "freq": s["freq"], "err2": s["err2"],
                    "density": case["opt"]["density"], "cumulative": case["opt"]["cumulative"]}
        if case["kind"] == "ascii":
            return {"kind": "plot", "what": "ascii", "freq": o["snap"]["freq"], "width": case["opt"]["width"]}
        if case["kind"] == "mpl2" and case["opt"]["plot"] == "map" and not case["opt"]["density"]:
            s = o["snap"]
            return {"kind": "plot", "what": "map2d", "xbins": s["bins"][0], "ybins": s["bins"][1], "data": s["freq"]}
        return None

    def diff(self, case, m, io):
        o = io["outs"]
        d = []
        if case["kind"] == "ticks":
            if [Fraction(x) for x in m] != [Fraction(x) for x in o["ticks"]]:
                d.append(f"ticks: model={[float(Fraction(x)) for x in m]} impl={[float(Fraction(x)) for x in o['ticks']]}")
            return d
        opt = case["opt"]
        tol = lambda a, b: abs(Fraction(a) - Fraction(b)) <= Fraction(1, 10**9) * max(abs(Fraction(a)), abs(Fraction(b)), Fraction(1, 10**9))
        if case["kind"] == "mpl1":
            if opt["plot"] == "bar":
                if len(m["bars"]) != len(o["patches"]) or any(not (tol(a[0], b[0]) and tol(a[1], b[1]) and tol(a[2], b[2])) for a, b in zip(m["bars"], o["patches"])):
                    d.append(f"bars: model={m['bars'][:3]} impl={o['patches'][:3]}")
            elif opt["plot"] == "step":
                got = o["lines"][0] if o["lines"] else [[], []]
                if [p[0] for p in m["step"]] != got[0] or any(not tol(a[1], b) for a, b in zip(m["step"], got[1])):
                    d.append("step line differs")
            elif opt["plot"] == "line" and not opt["errors"]:
                got = o["lines"][0] if o["lines"] else [[], []]
                if any(not tol(a[0], b) for a, b in zip(m["centres"], got[0])) or any(not tol(a[1], b) for a, b in zip(m["centres"], got[1])) or len(got[0]) != len(m["centres"]):
                    d.append("line differs")
            elif opt["plot"] == "scatter":
                got = o["offsets"][-1] if o["offsets"] else []
                if len(got) != len(m["centres"]) or any(not (tol(a[0], b[0]) and tol(a[1], b[1])) for a, b in zip(m["centres"], got)):
                    d.append("scatter points differ")
        elif case["kind"] == "plotly1":
            tr = o["trace"]
            if any(not tol(a[0], b) for a, b in zip(m["centres"], tr["x"])) or any(not tol(a[1], b) for a, b in zip(m["centres"], tr["y"])) or len(tr["x"]) != len(m["centres"]):
                d.append("plotly trace differs")
        elif case["kind"] == "ascii":
            got = [len(l.split(" ")[0]) if l.startswith("#") else 0 for l in o["stdout"]]
            if got != m:
                d.append(f"ascii bars: model={m} impl={got}")
        elif case["kind"] == "mpl2":
            cells = [c for c in m if opt["show_zero"] or Fraction(c[4]) != 0]
            got = o["rects"]
            if len(cells) != len(got) or any(not all(tol(a[i], b[i]) for i in range(4)) for a, b in zip(cells, got)):
                d.append(f"map cells differ: model {len(cells)} impl {len(got)}")
        return d

    # ------------------------------------------------------------------ oracle
    def oracle(self, case, io):
        o = io["outs"]
        fails = []
        if case["kind"] == "ticks":
            ticks = [float(Fraction(t)) for t in o["ticks"]]
            if len(o["labels"]) != len(ticks):
                fails.append(f"tick_labels: {len(ticks)} ticks but {len(o['labels'])} labels")
            lo, hi = case["lo"], case["hi"]
            if case["level"] == "unit":
                w = case["unit"][1] * {"sec": 1, "min": 60, "hour": 3600}[case["unit"][0]]
                exp = [k * w for k in range(math.ceil(lo / w - 1e-12) - 1, math.floor(hi / w + 1e-12) + 2) if lo <= k * w <= hi]
                if any(abs(a - b) > 1e-9 for a, b in zip(ticks, exp)) or len(ticks) != len(exp):
                    fails.append(f"ticks: ticks {ticks} for [{lo}, {hi}] and unit {w}; the multiples inside the range are {exp}")
            elif case["level"] == "edge":
                if o["ticks"] != o["edges"]:
                    fails.append("ticks_edges: edge-level ticks are not the bin edges")
            else:
                e = [float(Fraction(x)) for x in o["edges"]]
                if any(abs(a - b) > 1e-9 for a, b in zip(ticks, [(e[i] + e[i + 1]) / 2 for i in range(len(e) - 1)])):
                    fails.append("ticks_centres: centre-level ticks are not the bin centres")
            return fails
        opt = case["opt"]
        if not o["unchanged"]:
            fails.append(f"histogram_modified: plotting changed the histogram: {o.get('changed_fields')}")
        for name, r in o["refused"].items():
            if r != "REFUSED":
                fails.append(f"accepted_invalid: plot kind / backend '{name}' accepted for a {'2' if case['kind'] == 'mpl2' else '1'}-D histogram")
        if "plot_error" in o:
            if not (case["kind"] == "mpl2" and opt["plot"] == "image"):
                fails.append("plot_raises: " + o["plot_error"])
            return fails
        s = o["snap"]
        if case["kind"] in ("mpl1", "plotly1", "ascii"):
            bins = [(float(Fraction(l)), float(Fraction(r))) for l, r in s["bins"]]
            f = [float(Fraction(x)) for x in s["freq"]]
            e2 = [float(Fraction(x)) for x in s["err2"]]
            sizes = [r - l for l, r in bins]
            if opt["cumulative"]:
                data = list(np.cumsum(f))
            elif opt["density"]:
                data = [a / b for a, b in zip(f, sizes)]
            else:
                data = f
            centres = [(l + r) / 2 for l, r in bins]
        if case["kind"] == "mpl1":
            p = opt["plot"]
            if p == "bar":
                got = [[float(Fraction(x)) for x in r] for r in o["patches"]]
                exp = [[l, r - l, d] for (l, r), d in zip(bins, data)]
                if len(got) != len(exp) or any(not all(close(a, b) for a, b in zip(x, y)) for x, y in zip(got, exp)):
                    fails.append(f"bar_marks: bars (left, width, height) {got[:3]} ... expected {exp[:3]}")
            elif p == "step":
                got = o["lines"][0] if o["lines"] else [[], []]
                ex = [bins[0][0]] + [r for _, r in bins]
                ey = [data[0]] + list(data)
                if [float(Fraction(x)) for x in got[0]] != ex or any(not close(float(Fraction(a)), b) for a, b in zip(got[1], ey)):
                    fails.append("step_marks: the step line does not follow the edges / values")
            elif p in ("line", "scatter"):
                if p == "line":
                    got = o["lines"][0] if o["lines"] else [[], []]
                    gx, gy = [float(Fraction(x)) for x in got[0]], [float(Fraction(x)) for x in got[1]]
                else:
                    pts = o["offsets"][-1] if o["offsets"] else []
                    gx, gy = [float(Fraction(a)) for a, _ in pts], [float(Fraction(b)) for _, b in pts]
                if len(gx) != len(centres) or any(not close(a, b) for a, b in zip(gx, centres)) or any(not close(a, b) for a, b in zip(gy, data)):
                    fails.append(f"{p}_marks: points are not (bin centre, value)")
            elif p == "fill":
                if not o["polys"]:
                    fails.append("fill_marks: no filled polygon")
                else:
                    verts = {(round(float(Fraction(a)), 9), round(float(Fraction(b)), 9)) for a, b in o["polys"][0]}
                    if any((round(c, 9), round(d, 9)) not in verts for c, d in zip(centres, data)):
                        fails.append("fill_marks: the filled area does not pass through (bin centre, value)")
            if opt["errors"] and p in ("bar", "line", "scatter") and not opt["cumulative"]:
                err = [math.sqrt(x) / (sz if opt["density"] else 1) for x, sz in zip(e2, sizes)]
                segs = [[(float(Fraction(a)), float(Fraction(b))) for a, b in sg] for sg in o["segments"] if len(sg) == 2]
                vert = [sg for sg in segs if close(sg[0][0], sg[1][0])]
                for c, dval, er in zip(centres, data, err):
                    hit = [sg for sg in vert if close(sg[0][0], c, 1e-7)]
                    if not hit:
                        if er > 0:
                            fails.append(f"error_bars: no error bar at bin centre {c}")
                            break
                        continue
                    lo_, hi_ = sorted([hit[0][0][1], hit[0][1][1]])
                    etol = 1e-6 * max(abs(dval), er, 1e-12)  # float16/float32 histograms carry errors in their own precision
                    if not (abs(lo_ - (dval - er)) <= etol and abs(hi_ - (dval + er)) <= etol):
                        fails.append(f"error_bars: error bar at {c} spans [{lo_}, {hi_}], expected value ± sqrt(errors2){'/size' if opt['density'] else ''} = [{dval - er}, {dval + er}]")
                        break
            want_title = opt["title_arg"] or o["title_meta"] or ""
            if o["title"] != want_title:
                fails.append(f"title: plot title {o['title']!r}, expected {want_title!r}")
            want_x = opt["xlabel_arg"] or o["axis_names"][0]
            if o["xlabel"] != want_x:
                fails.append(f"xlabel: {o['xlabel']!r}, expected {want_x!r}")
            if opt["show_values"] and p != "fill":
                tx = [(float(Fraction(t[0])), float(Fraction(t[1]))) for t in o["texts"]]
                if len(tx) != len(centres) or any(not (close(a[0], c) and close(a[1], dv)) for a, c, dv in zip(tx, centres, data)):
                    fails.append("value_labels: value labels are not at (bin centre, value)")
        elif case["kind"] == "plotly1":
            tr = o["trace"]
            gx, gy = [float(Fraction(x)) for x in tr["x"]], [float(Fraction(y)) for y in tr["y"]]
            if len(gx) != len(centres) or any(not close(a, b) for a, b in zip(gx, centres)) or any(not close(a, b) for a, b in zip(gy, data)):
                fails.append("plotly_marks: trace is not (bin centre, value)")
            if opt["plot"] == "bar" and (tr["width"] is None or any(not close(float(Fraction(a)), b) for a, b in zip(tr["width"], sizes))):
                fails.append("plotly_widths: bar widths are not the bin widths")
        elif case["kind"] == "ascii":
            tot = sum(f)
            exp = [int(np.round(x / tot * opt["width"])) for x in f]
            lines = o["stdout"]
            got = [len(l.split(" ")[0]) if l.startswith("#") else 0 for l in lines]
            if len(lines) != len(f) or got != exp:
                fails.append(f"ascii_bars: bar lengths {got}, expected round(f/total*width) = {exp}")
            if opt["show_values"]:
                vals = [l.split(" ")[-1] for l in lines]
                if any(not close(float(v), x) for v, x in zip(vals, f)):
                    fails.append(f"ascii_values: printed values {vals} differ from the frequencies {f}")
        elif case["kind"] == "mpl2":
            xb = [(float(Fraction(l)), float(Fraction(r))) for l, r in s["bins"][0]]
            yb = [(float(Fraction(l)), float(Fraction(r))) for l, r in s["bins"][1]]
            f = np.array([float(Fraction(x)) for x in s["freq"]]).reshape(len(xb), len(yb))
            if opt["plot"] == "map":
                data = f / np.outer([r - l for l, r in xb], [r - l for l, r in yb]) if opt["density"] else f
                exp = []
                for i, (xl, xr) in enumerate(xb):
                    for j, (yl, yr) in enumerate(yb):
                        if data[i, j] != 0 or opt["show_zero"]:
                            exp.append((xl, yl, xr - xl, yr - yl, data[i, j]))
                got = o["rects"]
                if len(got) != len(exp):
                    fails.append(f"map_cells: {len(got)} rectangles for {len(exp)} cells to draw")
                else:
                    for g, e in zip(got, exp):
                        if not all(close(float(Fraction(g[i])), e[i]) for i in range(4)):
                            fails.append(f"map_cells: rectangle {[float(Fraction(x)) for x in g[:4]]} for the cell at {e[:4]}")
                            break
                    # colour monotone in the value (default colormap is sequential): compare luminance order
                    lum = [sum(g[4][:3]) for g in got]
                    vals = [e[4] for e in exp]
                    order = sorted(range(len(vals)), key=lambda i: vals[i])
                    diffs = [lum[order[i + 1]] - lum[order[i]] for i in range(len(order) - 1) if vals[order[i + 1]] > vals[order[i]]]
                    if diffs and not (all(x <= 1e-9 for x in diffs) or all(x >= -1e-9 for x in diffs)):
                        fails.append("map_colour: cell colour is not monotone in the value")
                if opt["show_values"]:
                    if len(o["texts"]) != len(exp):
                        fails.append("map_values: one value label per drawn cell expected")
                if o["xlabel"] != o["axis_names"][0] or o["ylabel"] != o["axis_names"][1]:
                    fails.append(f"map_labels: axis labels {o['xlabel']!r}, {o['ylabel']!r} differ from the axis names {o['axis_names']}")
            elif opt["plot"] == "image":
                im = o["image"]
                ext = [float(Fraction(x)) for x in im["extent"]]
                if ext != [xb[0][0], xb[-1][1], yb[0][0], yb[-1][1]]:
                    fails.append(f"image_extent: {ext}")
                data = f / np.outer([r - l for l, r in xb], [r - l for l, r in yb]) if opt["density"] else f
                arr = np.array([[float(Fraction(v)) for v in row] for row in im["array"]])
                if arr.shape != data.T.shape or not np.allclose(arr, data.T[::-1, :]):
                    fails.append("image_pixels: the image is not the (transposed, y-flipped) table of values")
            else:
                hm = o["heatmap"]
                z = np.array([[float(Fraction(v)) for v in row] for row in hm["z"]])
                # plotly draws z[j][i] at (x[i], y[j]); x/y with one more item than z are the cell edges
                if z.shape != f.T.shape or not np.allclose(z, f.T):
                    fails.append("plotly_map: z[j][i] is not the frequency of bin (i, j)")
                for nm, bb in (("x", xb), ("y", yb)):
                    got = [float(Fraction(v)) for v in (hm[nm] or [])]
                    edges = [bb[0][0]] + [r for _, r in bb]
                    centres_ = [(l + r) / 2 for l, r in bb]
                    consecutive = all(bb[i][1] == bb[i + 1][0] for i in range(len(bb) - 1))
                    nearly = all(abs(bb[i][1] - bb[i + 1][0]) <= 1e-8 + 1e-5 * abs(bb[i + 1][0]) for i in range(len(bb) - 1))
                    want = edges if consecutive else centres_
                    if nearly and not consecutive and got in (edges, centres_):
                        continue  # gaps below allclose tolerance: physt may treat the bins as consecutive
                    if got != want:
                        fails.append(f"plotly_map: {nm} coordinates {got} are not the bin {'edges' if consecutive else 'centres'} {want}")
        return fails[:6]

    def nontrivial(self, case, io):
        if case["kind"] == "ticks":
            return len(io["outs"]["ticks"]) > 0
        return any(x not in ("0", None) for x in io["outs"]["snap"]["freq"])

    def tags(self, case, io):
        return list(case["tags"])

    def matches_known(self, finding, case):
        return False

    def neighbours(self, case):
        return []

    def shrink_candidates(self, case):
        return []


PROP = C20()
